#!/bin/bash
# usage: tools/try_mutant.sh <patch.diff> <check> [<check>...]   (extra args via CHECK_ARGS)
# Applies the patch to /repo, runs the checks, and always reverts /repo.
set -u
P=$(readlink -f "$1"); shift
cd /repo || exit 2
if ! git diff --quiet; then echo "repo dirty"; exit 2; fi
if ! git apply --check "$P" 2>/dev/null; then
  if ! git apply --3way --check "$P" 2>/dev/null; then echo "PATCH DOES NOT APPLY: $P"; exit 2; fi
  git apply --3way "$P" >/dev/null 2>&1; git reset -q
else
  git apply "$P"
fi
trap 'cd /repo && git checkout -q -- . && git clean -fdq' EXIT
cd /verif
for c in "$@"; do
  ./check $c ${CHECK_ARGS:-} 2>&1 | grep -E "^(VIOLATION|KNOWN|ENGINE|C[0-9]+ tier|  sig)" | head -8
  echo "--- $c rc=${PIPESTATUS[0]}"
done
