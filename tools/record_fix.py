#!/usr/bin/env python3
"""usage: record_fix.py <property> <sig-regex> <design-what> <check-how> <known-what>
Records the HEAD commit of /repo as a fix: in known_findings.json (status fixed) and as a row of DESIGN.md section 8."""
import json, re, subprocess, sys
prop, sig, dwhat, how, kwhat = sys.argv[1:6]
line = subprocess.check_output(['git', '-C', '/repo', 'log', '--oneline', '-1']).decode().strip()
h = line.split()[0]
p = '/verif/known_findings.json'
k = json.load(open(p))
k['findings'].append({"property": prop.split()[0], "status": "fixed", "sig": sig, "commit": line,
                      "what": "fixed: property=%s %s %s" % (prop.split()[0], h, kwhat)})
json.dump(k, open(p, 'w'), indent=1)
p = '/verif/DESIGN.md'
s = open(p).read()
old = "| C17 | `CLIENT SETNAME nan` then"
row = "| %s | %s (sub-agent aside) | %s | fix %s |\n" % (prop, dwhat, how, h)
assert old in s
s = s.replace(old, row + old, 1)
m = re.search(r"(\d+) defects were repaired", s)
s = s.replace(m.group(0), "%d defects were repaired" % (int(m.group(1)) + 1), 1)
open(p, 'w').write(s)
print("recorded", h)
