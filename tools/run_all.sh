#!/bin/bash
# runs every check registered in MANIFEST.json (quick tier by default) and prints one line each
cd /verif
tier=${1:-quick}
for id in $(python3 -c "import json;print(' '.join(c['property_id'] for c in json.load(open('MANIFEST.json'))['checks']))"); do
  out=$(./check $id --tier $tier 2>&1); rc=$?
  echo "$out" | grep -E "^(VIOLATION|ENGINE)" | head -3 | cut -c1-200
  echo "rc=$rc $(echo "$out" | tail -1 | cut -c1-220)"
done
