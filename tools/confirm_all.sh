#!/bin/bash
# confirms (sequentially) every seeded/<id>/ that has no confirm.json yet
cd /verif
for d in seeded/*/; do
  id=$(basename $d)
  [ -f $d/confirm.json ] && continue
  [ -f $d/patch.diff ] || continue
  tools/confirm_mutant.py $id $d/patch.diff $d/demo
done
