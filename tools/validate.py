#!/usr/bin/env python3-vt
import json, jsonschema, glob, sys
jsonschema.validate(json.load(open('/verif/MANIFEST.json')), json.load(open('/root/.vp/MANIFEST.schema.json')))
es = json.load(open('/root/.vp/EVIDENCE.schema.json'))
bad = 0
for f in sorted(glob.glob('/verif/evidence/*.json')):
    try:
        jsonschema.validate(json.load(open(f)), es)
    except Exception as e:
        bad += 1
        print("INVALID", f, str(e)[:300])
print("manifest valid; evidence files checked:", len(glob.glob('/verif/evidence/*.json')), "bad:", bad)
sys.exit(1 if bad else 0)
