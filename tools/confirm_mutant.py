#!/usr/bin/env python3
"""Confirm a seeded change independently of the agent that wrote it.

usage: confirm_mutant.py <seed-id> <patch.diff> <demo-dir> [--dest DIR] [--run REGEX] [--pkg ./tests/]

In a scratch worktree of /repo HEAD (removed afterwards):
  1. demo on the unpatched tree      -> must PASS
  2. full suite with the patch       -> must PASS
  3. demo with the patch             -> must FAIL
Writes <seeded dir>/confirm.json with the commands and outcomes.
"""
import argparse, glob, json, os, re, shutil, subprocess, sys, time

ap = argparse.ArgumentParser()
ap.add_argument("id")
ap.add_argument("patch")
ap.add_argument("demo")
ap.add_argument("--dest")
ap.add_argument("--run")
ap.add_argument("--pkg")
ap.add_argument("--out")
a = ap.parse_args()

env = dict(os.environ, GOFLAGS="-mod=mod", GOPROXY="off")
env.pop("GOTOOLCHAIN", None)
env.pop("GOSUMDB", None)
wt = "/tmp/confirm/" + a.id
subprocess.run(["git", "-C", "/repo", "worktree", "remove", "--force", wt], capture_output=True)
shutil.rmtree(wt, ignore_errors=True)
os.makedirs("/tmp/confirm", exist_ok=True)
subprocess.run(["git", "-C", "/repo", "worktree", "add", "--detach", wt], check=True, capture_output=True)
res = {"id": a.id, "base": subprocess.run(["git", "-C", "/repo", "rev-parse", "HEAD"], capture_output=True, text=True).stdout.strip()}
try:
    run_md = ""
    for f in glob.glob(os.path.join(a.demo, "RUN.md")):
        run_md = open(f).read()
    dest, rx, pkg = a.dest, a.run, a.pkg
    if not dest:
        m = re.search(r"cp\s+\S+\s+/tmp/mut/C\d+/(\S+)", run_md)
        dest = m.group(1) if m else "tests/"
    if not rx:
        m = re.search(r"-run\s+'?\"?([^'\"\s]+)", run_md)
        rx = m.group(1) if m else "Demo"
    if not pkg:
        pkg = "./" + dest.rstrip("/") + "/"
        if pkg.endswith(".go/"):
            pkg = "./" + os.path.dirname(dest.rstrip("/")) + "/"
    destdir = os.path.join(wt, dest)
    if dest.endswith(".go"):
        destdir = os.path.dirname(destdir)
    os.makedirs(destdir, exist_ok=True)
    demos = [f for f in glob.glob(os.path.join(a.demo, "*")) if f.endswith(".go")]
    for f in demos:
        shutil.copy(f, destdir)
    demo_cmd = ["go", "test", "-vet=off", "-count=1", "-run", rx, pkg]
    res["demo_cmd"] = " ".join(demo_cmd)

    def go(cmd, timeout=1500):
        t = time.time()
        r = subprocess.run(cmd, cwd=wt, env=env, capture_output=True, text=True, timeout=timeout)
        return r.returncode, (r.stdout + r.stderr)[-6000:], round(time.time() - t, 1)

    rc, out, t = go(demo_cmd)
    res["demo_unpatched"] = {"rc": rc, "s": t, "tail": out[-400:]}
    ok1 = rc == 0 and "no tests to run" not in out
    r = subprocess.run(["git", "apply", "--3way", os.path.abspath(a.patch)], cwd=wt, capture_output=True, text=True)
    if r.returncode != 0:
        res["error"] = "patch does not apply: " + r.stderr[-300:]
        ok1 = False
    subprocess.run(["git", "reset", "-q"], cwd=wt)
    # suite without the demo file(s)
    for f in demos:
        os.remove(os.path.join(destdir, os.path.basename(f)))
    for attempt in range(4):
        rc, out, t = go(["go", "test", "-vet=off", "-count=1", "-timeout", "25m", "./..."])
        flaky = "address already in use" in out or ("fence/roaming" in out and out.count("--- FAIL") <= 1)
        if rc == 0 or not flaky:
            break
        time.sleep(5)
    res["suite_patched"] = {"rc": rc, "s": t, "tail": out[-600:] if rc else "ok"}
    ok2 = rc == 0
    for f in demos:
        shutil.copy(f, destdir)
    rc, out, t = go(demo_cmd)
    res["demo_patched"] = {"rc": rc, "s": t, "tail": out[-600:]}
    ok3 = rc != 0 and "build failed" not in out
    res["confirmed"] = bool(ok1 and ok2 and ok3)
finally:
    subprocess.run(["git", "-C", "/repo", "worktree", "remove", "--force", wt], capture_output=True)
    shutil.rmtree(wt, ignore_errors=True)
outp = a.out or os.path.join(os.path.dirname(os.path.abspath(a.patch)), "confirm.json")
json.dump(res, open(outp, "w"), indent=1)
print(a.id, "confirmed" if res.get("confirmed") else "NOT CONFIRMED", json.dumps({k: (v.get("rc") if isinstance(v, dict) else v) for k, v in res.items() if k != "base"}))
