#!/bin/bash
# usage: tools/import_round4.sh C06   -> copies /tmp/mut7/C06.out/m{1,2} to seeded/C06-r6m{1,2} and tries them
P=$1; shift
cd /verif
for m in m1 m2; do
  [ -f /tmp/mut7/$P.out/$m.diff ] || continue
  d=seeded/$P-r7$m; mkdir -p $d
  cp /tmp/mut7/$P.out/$m.diff $d/patch.diff
  rm -rf $d/demo; cp -r /tmp/mut7/$P.out/${m}_demo $d/demo
  sed -i "s#/tmp/mut7/#/tmp/mut/#g" $d/demo/RUN.md 2>/dev/null
  cp /tmp/mut7/$P.out/REPORT.md $d/AGENT_REPORT.md 2>/dev/null
  echo "== $P-r7$m"; tools/try_mutant.sh $d/patch.diff $P "$@" 2>&1 | grep -v KNOWN | cut -c1-220
done
rm -rf replays
