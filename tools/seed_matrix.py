#!/usr/bin/env python3
"""For every seeded/<id>/patch.diff: apply to /repo, run the quick check of its property
(and optionally others), undo, and record the outcome in seeded/<id>/meta.json and
seeded/MATRIX.md.   usage: tools/seed_matrix.py [id-prefix ...] [--also C07,C14]"""
import glob, json, os, re, subprocess, sys, time
V = "/verif"
also = []
args = [a for a in sys.argv[1:]]
if "--also" in args:
    i = args.index("--also"); also = args[i+1].split(","); del args[i:i+2]
dirs = sorted(d for d in glob.glob(V + "/seeded/*/") if os.path.exists(d + "patch.diff"))
if args:
    dirs = [d for d in dirs if any(os.path.basename(d.rstrip("/")).startswith(a) for a in args)]
rows = []
assert subprocess.run(["git", "-C", "/repo", "diff", "--quiet"]).returncode == 0, "repo dirty"
for d in dirs:
    sid = os.path.basename(d.rstrip("/"))
    prop = sid.split("-")[0]
    r = subprocess.run(["git", "-C", "/repo", "apply", "--check", d + "patch.diff"], capture_output=True, text=True)
    meta = {"id": sid, "property": prop}
    if os.path.exists(d + "meta.json"):
        try: meta.update(json.load(open(d + "meta.json")))
        except Exception: pass
    if r.returncode != 0:
        meta["applies_to_current_head"] = False
        meta["checks"] = {}
        json.dump(meta, open(d + "meta.json", "w"), indent=1)
        rows.append((sid, "DOES NOT APPLY", ""))
        continue
    subprocess.run(["git", "-C", "/repo", "apply", d + "patch.diff"], check=True)
    try:
        res = {}
        for chk in [prop] + [a for a in also if a != prop]:
            t = time.time()
            p = subprocess.run([V + "/check", chk], cwd=V, capture_output=True, text=True)
            sigs = re.findall(r"^  sig: (.*)$", p.stdout, re.M)
            res[chk] = {"exit": p.returncode, "caught": p.returncode == 1, "signatures": sigs[:6], "wall_s": round(time.time() - t, 1)}
    finally:
        subprocess.run(["git", "-C", "/repo", "checkout", "-q", "--", "."])
        subprocess.run(["git", "-C", "/repo", "clean", "-fdq"])
    meta["applies_to_current_head"] = True
    meta["checks"] = res
    meta["ran"] = "git -C /repo apply seeded/%s/patch.diff; ./check %s (quick tier); git -C /repo checkout -- ." % (sid, prop)
    if os.path.exists(d + "confirm.json"):
        c = json.load(open(d + "confirm.json"))
        meta["confirmed_independently"] = c.get("confirmed")
        meta["confirmation"] = {k: c.get(k) for k in ("base", "demo_cmd")}
        meta["confirmation"].update({k: (c[k].get("rc") if isinstance(c.get(k), dict) else None) for k in ("demo_unpatched", "suite_patched", "demo_patched")})
    json.dump(meta, open(d + "meta.json", "w"), indent=1)
    rows.append((sid, "caught" if res[prop]["caught"] else "MISSED (exit %d)" % res[prop]["exit"], ", ".join(res[prop]["signatures"][:3])))
    print(rows[-1], flush=True)
subprocess.run(["rm", "-rf", V + "/replays"])
# MATRIX.md is always rebuilt from every meta.json (so a partial run refreshes only its rows)
allrows = []
for d in sorted(glob.glob(V + "/seeded/*/meta.json")):
    m = json.load(open(d))
    prop = m.get("property")
    if not m.get("applies_to_current_head", True):
        allrows.append((m["id"], "DOES NOT APPLY", "")); continue
    c = (m.get("checks") or {}).get(prop)
    if not c:
        continue
    allrows.append((m["id"], "caught" if c["caught"] else "MISSED (exit %d)" % c["exit"], ", ".join(c["signatures"][:3])))
with open(V + "/seeded/MATRIX.md", "w") as f:
    f.write("| seeded change | own property's quick check | first signatures |\n|---|---|---|\n")
    for r in allrows:
        f.write("| %s | %s | %s |\n" % r)
