#!/usr/bin/env python3
"""Regenerates MANIFEST.json from checks_table.py + manifest_meta.py (single source of truth)."""
import json, os, sys
V = os.path.dirname(os.path.dirname(os.path.abspath(__file__)))
sys.path.insert(0, V)
from checks_table import CHECKS
from manifest_meta import META, NOT_BUILT_REASON
props = [json.loads(l)["id"] for l in open(os.path.join(V, "properties.jsonl"))]
checks, na = [], []
for pid in props:
    if pid in CHECKS and pid in META:
        m = META[pid]
        c = {"property_id": pid,
             "quick_cmd": "./check %s --tier quick" % pid,
             "evidence_file": "evidence/%s.json" % pid,
             "replay_cmd_template": "./check %s --replay {path}" % pid,
             "engine": m.get("engine", "vrt"),
             "level_claimed": {"category": CHECKS[pid]["level"], "text": m["text"], "design_ref": m.get("design_ref", "DESIGN.md §4 " + pid)},
             "level_note": m["note"], "technique": m["technique"]}
        if "thorough" in CHECKS[pid]:
            c["thorough_cmd"] = "./check %s --tier thorough" % pid
        checks.append(c)
    else:
        na.append({"property_id": pid, "reason": NOT_BUILT_REASON.get(pid, "check not built yet in this session (model checking applies; see DESIGN.md §4)")})
man = {
    "version": 1,
    "setup_cmd": "./setup.sh",
    "hooks": {"guard": "verif",
              "enable": "no hook lives in /repo: ./check rewrites internal/server from the working tree at check time (engine/vgen) and builds it with `go test -c -tags verif -overlay <generated>.json`; harness files carry //go:build verif",
              "baseline_off_cmd": "cd /repo && GOFLAGS=-mod=mod GOPROXY=off go test -vet=off -count=1 -timeout 25m ./...",
              "source_commits": [], "add_only": True},
    "engines": [
        {"name": "vrt", "path": "engine/", "serves_properties": [c["property_id"] for c in checks],
         "kind_free_text": "hand-written model checker for Go: AST rewriter (vgen) routes sync/atomic/time/net/os/runtime/go/chan of the real server package to a cooperative runtime; explorers: SCHED = stateless DFS over schedules with iterated preemption bound; SEQ = explicit-state BFS over command sequences deduplicated on a reference model, each edge executed on a fresh real server; FAULT = same over crash points / tears / connection kills / virtual time"}],
    "checks": checks, "not_applicable": na,
    "notes": "All checks explore the real implementation exhaustively within stated bounds; evidence reports schedules/states/transitions covered. Genuine defects: known_findings.json.",
}
json.dump(man, open(os.path.join(V, "MANIFEST.json"), "w"), indent=1)
print("MANIFEST: %d checks, %d not_applicable" % (len(checks), len(na)))
