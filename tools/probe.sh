#!/bin/bash
# usage: tools/probe.sh 'SET k a POINT 1 1; GET k a'
cd /verif && ./check probe --param "cmds=\"$1\"" >/dev/null; python3 -c "
import json
e=json.load(open('/verif/evidence/probe.json'))['coverage']['extra']['probe']
print('\n'.join(e['out'])); print('err:',e['err'],'crashes:',e['crashes'])"; rm -f /verif/evidence/probe.json
