#!/bin/bash
# usage: tools/fix_commit.sh "<commit message>"  - runs the repository's suite (retrying known flakes) and commits /repo if it passes
cd /repo || exit 2
export GOFLAGS=-mod=mod GOPROXY=off
for try in 1 2 3; do
  out=$(go test -vet=off -count=1 -timeout 25m ./... 2>&1); rc=$?
  if [ $rc -eq 0 ]; then break; fi
  if echo "$out" | grep -q "address already in use\|fence/roaming\|keys/EXPIRE\|follower/follow"; then echo "flaky run $try, retrying"; sleep 3; continue; fi
  break
done
if [ $rc -ne 0 ]; then echo "$out" | grep -v "no test files" | grep -v "^ok" | tail -15; echo "SUITE FAILED - not committed"; exit 1; fi
git add -A && git commit -qm "$1" && git log --oneline | head -1
