//go:build verifrace

package server

// Free-running complement to the C07 schedules: the SAME kind of conflicting
// command pairs, but on the unmodified server package (no rewriting), real
// goroutines, real loopback TCP, built with -race.  A cooperative scheduler's
// hand-offs are happens-before edges that blind the race detector; this pass is
// where plain unsynchronised accesses show up.  It samples schedules - it is a
// complement, not the deciding step.

import (
	"bufio"
	"encoding/json"
	"fmt"
	"io"
	"net"
	"os"
	"strings"
	"sync"
	"testing"
	"time"

	"github.com/tidwall/tile38/internal/log"
)

type raceJob struct {
	Out     string         `json:"out"`
	Scratch string         `json:"scratch"`
	Shard   int            `json:"shard"`
	NShards int            `json:"nshards"`
	Budget  float64        `json:"budget_s"`
	Params  map[string]any `json:"params"`
}

func raceCmd(args ...string) []byte {
	var sb strings.Builder
	fmt.Fprintf(&sb, "*%d\r\n", len(args))
	for _, a := range args {
		fmt.Fprintf(&sb, "$%d\r\n%s\r\n", len(a), a)
	}
	return []byte(sb.String())
}

func raceReadReply(r *bufio.Reader) error {
	line, err := r.ReadString('\n')
	if err != nil {
		return err
	}
	switch line[0] {
	case '$':
		var n int
		fmt.Sscanf(line[1:], "%d", &n)
		if n >= 0 {
			_, err = io.CopyN(io.Discard, r, int64(n+2))
		}
	case '*':
		var n int
		fmt.Sscanf(line[1:], "%d", &n)
		for i := 0; i < n; i++ {
			if err := raceReadReply(r); err != nil {
				return err
			}
		}
	}
	return err
}

func TestVerifRace(t *testing.T) {
	jf := os.Getenv("VERIF_JOB")
	if jf == "" {
		t.Skip("no VERIF_JOB")
	}
	data, _ := os.ReadFile(jf)
	var job raceJob
	json.Unmarshal(data, &job)
	log.SetOutput(io.Discard)
	dir := job.Scratch + "/race"
	os.MkdirAll(dir, 0700)
	ln, err := net.Listen("tcp", "127.0.0.1:0")
	if err != nil {
		t.Fatal(err)
	}
	port := ln.Addr().(*net.TCPAddr).Port
	ln.Close()
	shutdown := make(chan bool, 1)
	done := make(chan error, 1)
	go func() {
		done <- Serve(Options{Host: "127.0.0.1", Port: port, Dir: dir, AppendOnly: true, Shutdown: shutdown, UseHTTP: true, QueueFileName: ":memory:"})
	}()
	addr := fmt.Sprintf("127.0.0.1:%d", port)
	var c0 net.Conn
	for i := 0; i < 200; i++ {
		c0, err = net.Dial("tcp", addr)
		if err == nil {
			break
		}
		time.Sleep(20 * time.Millisecond)
	}
	if err != nil {
		t.Fatal(err)
	}
	c0.Close()
	// a follower of this server in the same process (replication streams, checksums,
	// reconnects run next to the command pairs) and a webhook endpoint
	port2 := port + 1
	if l2, err := net.Listen("tcp", "127.0.0.1:0"); err == nil {
		port2 = l2.Addr().(*net.TCPAddr).Port
		l2.Close()
	}
	shutdown2 := make(chan bool, 1)
	done2 := make(chan error, 1)
	os.MkdirAll(dir+"-f", 0700)
	go func() {
		done2 <- Serve(Options{Host: "127.0.0.1", Port: port2, Dir: dir + "-f", AppendOnly: true, Shutdown: shutdown2, UseHTTP: true, QueueFileName: ":memory:"})
	}()
	addr2 := fmt.Sprintf("127.0.0.1:%d", port2)
	for i := 0; i < 200; i++ {
		if fc, err := net.Dial("tcp", addr2); err == nil {
			fc.Write(raceCmd("FOLLOW", "127.0.0.1", fmt.Sprint(port)))
			raceReadReply(bufio.NewReader(fc))
			fc.Close()
			break
		}
		time.Sleep(20 * time.Millisecond)
	}
	hookLn, _ := net.Listen("tcp", "127.0.0.1:0")
	hookURL := "http://127.0.0.1:1/x"
	if hookLn != nil {
		hookURL = "http://" + hookLn.Addr().String() + "/h"
		go func() {
			for {
				hc, err := hookLn.Accept()
				if err != nil {
					return
				}
				go func() {
					defer hc.Close()
					br := bufio.NewReader(hc)
					for {
						n := 0
						for {
							line, err := br.ReadString('\n')
							if err != nil {
								return
							}
							if strings.HasPrefix(strings.ToLower(line), "content-length:") {
								fmt.Sscanf(strings.TrimSpace(line[15:]), "%d", &n)
							}
							if line == "\r\n" {
								break
							}
						}
						io.CopyN(io.Discard, br, int64(n))
						hc.Write([]byte("HTTP/1.1 200 OK\r\nContent-Length: 0\r\n\r\n"))
					}
				}()
			}
		}()
		defer hookLn.Close()
	}
	pairs := [][][]string{
		{{"SET", "k", "a", "POINT", "1", "1"}, {"SET", "k", "a", "POINT", "2", "2"}},
		{{"SET", "k", "a", "FIELD", "f", "1", "POINT", "1", "1"}, {"GET", "k", "a", "WITHFIELDS"}},
		{{"FSET", "k", "a", "f", "5"}, {"FSET", "k", "a", "g", "6"}},
		{{"PDEL", "k", "*"}, {"SCAN", "k"}},
		{{"DROP", "k"}, {"SET", "k", "b", "POINT", "2", "2"}},
		{{"RENAME", "k", "k2"}, {"SCAN", "k2"}},
		{{"FLUSHDB"}, {"KEYS", "*"}},
		{{"JSET", "k", "j", "x", "1"}, {"JDEL", "k", "j", "x"}},
		{{"EVAL", "tile38.call('SET','k','a','POINT',7,7); return tile38.call('SET','k','b','POINT',8,8)", "0"}, {"GET", "k", "b"}},
		{{"EVALSHA", "0000000000000000000000000000000000000000", "0"}, {"SCAN", "k", "WHEREEVAL", "return FIELDS.f == 1", "0", "IDS"}},
		{{"SET", "k", "e", "EX", "0.05", "POINT", "6", "6"}, {"PERSIST", "k", "e"}},
		{{"EXPIRE", "k", "a", "100"}, {"TTL", "k", "a"}},
		{{"SETCHAN", "ch", "NEARBY", "k", "FENCE", "POINT", "1", "1", "100000"}, {"SET", "k", "c", "POINT", "1", "1"}},
		{{"DELCHAN", "ch"}, {"CHANS", "*"}},
		{{"AOFSHRINK"}, {"SET", "k", "d", "POINT", "3", "3"}},
		{{"SERVER"}, {"STATS", "k"}},
		{{"NEARBY", "k", "POINT", "1", "1"}, {"SET", "k", "n", "POINT", "1.5", "1.5"}},
		{{"SEARCH", "k"}, {"SET", "k", "s", "STRING", "v"}},
		// server-wide state next to writes
		{{"SERVER", "EXT"}, {"SET", "k", "x1", "EX", "0.05", "POINT", "1", "1"}},
		{{"INFO"}, {"AOFSHRINK"}},
		{{"CLIENT", "LIST"}, {"PING"}},
		{{"CONFIG", "SET", "keepalive", "300"}, {"CONFIG", "GET", "keepalive"}},
		{{"CONFIG", "REWRITE"}, {"CONFIG", "SET", "maxmemory", "0"}},
		{{"SCRIPT", "LOAD", "return 1"}, {"EVAL", "return tile38.call('GET','k','a')", "0"}},
		{{"SCRIPT", "FLUSH"}, {"EVALNA", "return tile38.call('SET','k','n1','POINT',1,1)", "0"}},
		{{"PUBLISH", "pch", "m"}, {"SETCHAN", "pch2", "NEARBY", "k", "FENCE", "POINT", "1", "1", "100000"}},
		{{"SETHOOK", "hk", hookURL, "NEARBY", "k", "FENCE", "POINT", "1", "1", "100000"}, {"SET", "k", "h1", "POINT", "1", "1"}},
		{{"PDELHOOK", "h*"}, {"HOOKS", "*"}},
		{{"HEALTHZ"}, {"SET", "k", "z", "POINT", "2", "2"}},
		{{"OUTPUT", "json"}, {"GET", "k", "a"}},
		{{"TIMEOUT", "5", "SCAN", "k"}, {"SET", "k", "t", "POINT", "2", "2"}},
		{{"AOFMD5", "0", "10"}, {"SET", "k", "m5", "POINT", "2", "2"}},
		{{"GC"}, {"FLUSHDB"}},
		{{"READONLY", "no"}, {"SET", "k", "ro", "POINT", "2", "2"}},
		// a lock-free script (pure Lua between its calls) next to writes that run a channel's WHEREEVAL filter
		{{"EVALNA", "local x = 0 for i = 1, 200000 do x = x + (i % 7) end return tostring(x)", "0"}, {"SET", "k", "wf", "FIELD", "f", "1", "POINT", "1", "1"}},
		// two lock-free scripts, one of them with a deadline: the interpreter goes back to the pool with the other's next in line
		{{"TIMEOUT", "5", "EVALNA", "local x = 0 for i = 1, 2000 do x = x + (i % 7) end return tostring(x)", "0"}, {"EVALNA", "local x = 0 for i = 1, 2000 do x = x + (i % 5) end return tostring(x)", "0"}},
		{{"TIMEOUT", "5", "EVALNA", "return tile38.call('GET','k','a')", "0"}, {"TIMEOUT", "5", "EVALNA", "return tile38.call('GET','k','b')", "0"}},
		// readers share Server.mu: scratch state shared between two read commands
		{{"SCAN", "k", "LIMIT", "2"}, {"SCAN", "k", "CURSOR", "1", "LIMIT", "2", "DESC"}},
		{{"NEARBY", "k", "LIMIT", "2", "POINT", "1", "1"}, {"WITHIN", "k", "LIMIT", "2", "BOUNDS", "-10", "-10", "10", "10"}},
		{{"SEARCH", "k", "LIMIT", "1"}, {"SCAN", "k", "WHERE", "f", "0", "9", "MATCH", "a*"}},
		{{"GET", "k", "a", "WITHFIELDS"}, {"FGET", "k", "a", "f"}},
		{{"EVALRO", "return tile38.call('SCAN','k','IDS')", "0"}, {"EVALROSHA", "0000000000000000000000000000000000000000", "0"}},
		{{"INTERSECTS", "k", "CLIP", "BOUNDS", "0", "0", "3", "3"}, {"TEST", "POINT", "1", "1", "WITHIN", "BOUNDS", "0", "0", "3", "3"}},
		{{"SCAN", "k", "WHEREEVAL", "return FIELDS.f == 1", "0", "IDS"}, {"SCAN", "k", "WHEREEVAL", "return FIELDS.f ~= 1", "0", "COUNT"}},
	}
	iters := 300
	if v, ok := job.Params["iters"].(float64); ok {
		iters = int(v)
	}
	checkName := "c07race"
	if sel, _ := job.Params["pairs"].(string); sel == "nearby" {
		// C13: nearest-neighbour queries around different centres in one collection at the same time
		checkName = "c13race"
		pairs = [][][]string{
			{{"NEARBY", "k", "LIMIT", "3", "DISTANCE", "POINT", "1", "1"}, {"NEARBY", "k", "LIMIT", "3", "DISTANCE", "POINT", "2", "2"}},
			{{"NEARBY", "k", "DISTANCE", "POINT", "1.5", "1.5", "300000"}, {"NEARBY", "k", "DISTANCE", "IDS", "POINT", "0", "0"}},
			{{"NEARBY", "k", "LIMIT", "1", "POINT", "2", "2"}, {"NEARBY", "k", "LIMIT", "1", "POINT", "1", "1"}},
		}
	}
	start := time.Now()
	execs := 0
	// two live fence connections and a subscriber in the background
	var lives []net.Conn
	for i := 0; i < 2; i++ {
		lc, err := net.Dial("tcp", addr)
		if err == nil {
			lc.Write(raceCmd("NEARBY", "k", "FENCE", "POINT", "1", "1", "1000000"))
			go io.Copy(io.Discard, lc)
			lives = append(lives, lc)
		}
	}
	stopBG := make(chan bool)
	var bg sync.WaitGroup
	bg.Add(2)
	go func() { // reads on the follower while it replicates
		defer bg.Done()
		for {
			select {
			case <-stopBG:
				return
			default:
			}
			if fc, err := net.Dial("tcp", addr2); err == nil {
				r := bufio.NewReader(fc)
				for _, cmd := range [][]string{{"SERVER"}, {"SCAN", "k"}, {"HEALTHZ"}, {"INFO"}} {
					fc.SetDeadline(time.Now().Add(2 * time.Second))
					fc.Write(raceCmd(cmd...))
					raceReadReply(r)
				}
				fc.Close()
			}
			time.Sleep(5 * time.Millisecond)
		}
	}()
	go func() { // subscribers coming and going
		defer bg.Done()
		for {
			select {
			case <-stopBG:
				return
			default:
			}
			if sc, err := net.Dial("tcp", addr); err == nil {
				sc.Write(raceCmd("SUBSCRIBE", "pch", "ch"))
				sc.Write(raceCmd("PSUBSCRIBE", "p*"))
				sc.SetDeadline(time.Now().Add(20 * time.Millisecond))
				io.Copy(io.Discard, sc)
				sc.Close()
			}
		}
	}()
	for pi, pair := range pairs {
		if pi%job.NShards != job.Shard {
			continue
		}
		if sc, err := net.Dial("tcp", addr); err == nil {
			// a few objects of every kind for the pair to work on
			r := bufio.NewReader(sc)
			for _, cmd := range [][]string{{"SET", "k", "a", "FIELD", "f", "1", "POINT", "1", "1"}, {"SET", "k", "b", "POINT", "2", "2"}, {"SET", "k", "ab", "FIELD", "f", "2", "POINT", "1.5", "1.5"},
				{"SET", "k", "s", "STRING", "v"}, {"SET", "k", "t", "STRING", "w"},
				// a channel whose WHEREEVAL filter is evaluated on every write to k
				{"SETCHAN", "whe", "WITHIN", "k", "WHEREEVAL", "return FIELDS.f ~= nil and FIELDS.f > 0", "0", "FENCE", "BOUNDS", "-90", "-180", "90", "180"}} {
				sc.Write(raceCmd(cmd...))
				raceReadReply(r)
			}
			sc.Close()
		}
		var wg sync.WaitGroup
		for side := 0; side < 2; side++ {
			wg.Add(1)
			go func(cmd []string) {
				defer wg.Done()
				c, err := net.Dial("tcp", addr)
				if err != nil {
					return
				}
				defer c.Close()
				r := bufio.NewReader(c)
				for i := 0; i < iters; i++ {
					c.Write(raceCmd(cmd...))
					if err := raceReadReply(r); err != nil {
						return
					}
				}
			}(pair[side])
		}
		wg.Wait()
		execs += 2 * iters
		if job.Budget > 0 && time.Since(start).Seconds() > job.Budget {
			break
		}
	}
	close(stopBG)
	bg.Wait()
	for _, lc := range lives {
		lc.Close()
	}
	shutdown2 <- true
	select {
	case <-done2:
	case <-time.After(10 * time.Second):
	}
	shutdown <- true
	select {
	case <-done:
	case <-time.After(10 * time.Second):
	}
	// the race detector makes the process exit non-zero with "DATA RACE" on stderr;
	// reaching this point with no report means none was observed in this run
	res := map[string]any{"check": checkName, "shard": job.Shard, "evaluations": execs, "transitions": execs, "states": len(pairs),
		"traces_validated_against_impl": execs, "exhaustive": false, "caps": []string{"free-running -race pass: schedules are sampled, not enumerated"},
		"rule": "free-running -race build of the unmodified package: 42 command pairs (35 conflicting, 7 reader/reader; a channel with a WHEREEVAL filter on the written key) x N iterations on real connections, 2 live fences, a follower in the same process being read, subscribers coming and going, a webhook endpoint", "wall_s": time.Since(start).Seconds()}
	out, _ := json.Marshal(res)
	os.WriteFile(job.Out, out, 0644)
	b := make([]byte, 16)
	b[0], b[8] = 1, 2
	os.WriteFile(job.Out+".distinct", b, 0644)
}
