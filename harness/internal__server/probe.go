//go:build verif

package server

import "strings"

func init() { checks["probe"] = checkProbe }

// probe: run the commands given in params.cmds (one per line, space separated;
// "|" separates raw args containing spaces is not supported) and report replies.
func checkProbe(job *Job, res *Result) {
	cmds, _ := job.Params["cmds"].(string)
	var out []string
	x := runExec(job, freezeAllBut(), func(x *Exec) {
		in := x.Start("L", x.dir+"/L", 9001, nil)
		c := x.Dial(in.Addr)
		for _, line := range strings.Split(cmds, ";") {
			line = strings.TrimSpace(line)
			if line == "" {
				continue
			}
			out = append(out, line+" -> "+c.DoS(line).String())
		}
	})
	res.Extra["out"] = out
	res.Extra["err"] = x.Err
	res.Extra["crashes"] = len(x.Crashes)
	res.Evaluations = 1
	res.Distinct(1)
	res.Distinct(2)
}
