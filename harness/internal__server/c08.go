//go:build verif

package server

// C08 - a write is handed to the log file before its acknowledgement is sent.
//
// Scenario: n connections, each with one segment of pipelined commands, are
// released at the same instant; the explorer enumerates the schedules of the
// real netServe / handleInputCommand / writeAOF / flushAOF code (and, when it
// participates, backgroundSyncAOF).  Oracle, evaluated inside the server-side
// socket Write that carries the replies: every state-changing command answered
// in that write is already in appendonly.aof (as reconstructed from the
// completed file operations = what a process kill at that instant leaves).

import (
	"os"
	"bytes"
	"fmt"
	"path/filepath"
	"strconv"
	"strings"
	stdtime "time"

	"github.com/tidwall/tile38/internal/vshim/vos"
	"github.com/tidwall/tile38/internal/vshim/vsched"
)

func init() { checks["c08"] = checkC08 }

type c08Conn struct {
	Cmds [][]string `json:"cmds"`
}

type c08Params struct {
	Pre     [][]string `json:"pre,omitempty"`
	Conns   []c08Conn `json:"conns"`
	Flusher bool      `json:"flusher"`
	Spin    bool      `json:"spinlock"`
	// Shrink: one connection issues AOFSHRINK; the rewrite re-encodes objects, so
	// "the log holds the write" is decided on (key, id) instead of the exact bytes
	Shrink bool `json:"shrink,omitempty"`
	// Full: the log file cannot grow any further (disk full): a write that cannot reach the
	// file must not be acknowledged (the server may stop instead)
	Full bool `json:"full,omitempty"`
	// Sweeper: the expiry sweeper runs and removes (and logs the DEL of) an object
	// at the tick the connections are released at
	Sweeper bool `json:"sweeper,omitempty"`
	// Prop: property the scenario is run for (default C08; C03 reuses two scenarios)
	Prop string `json:"prop,omitempty"`
}

func (p c08Params) prop() string {
	if p.Prop != "" {
		return p.Prop
	}
	return "C08"
}

// isWrite tells whether a harness command is expected to be logged when it is
// acknowledged with a success reply.
// c08Expand: "@BIGSET key id n" stands for SET key id STRING <n bytes> (kept short in replay files).
func c08Expand(cmd []string) []string {
	if cmd[0] == "@BIGSET" {
		n, _ := strconv.Atoi(cmd[3])
		return []string{"SET", cmd[1], cmd[2], "STRING", strings.Repeat("y", n)}
	}
	return cmd
}

func c08LoggedBytes(cmd []string, shrink ...bool) [][]byte {
	cmd = c08Expand(cmd)
	if len(shrink) > 0 && shrink[0] && strings.ToUpper(cmd[0]) == "SET" {
		return [][]byte{[]byte(fmt.Sprintf("\r\n$%d\r\n%s\r\n$%d\r\n%s\r\n", len(cmd[1]), cmd[1], len(cmd[2]), cmd[2]))}
	}
	switch strings.ToUpper(cmd[0]) {
	case "SET", "DEL", "FSET":
		return [][]byte{respCmd(cmd...)}
	case "EVAL":
		// EVAL "return tile38.call('SET', KEYS[1], ARGV[1], 'POINT', 1, 1)" 1 key id
		return [][]byte{respCmd("SET", cmd[3], cmd[4], "POINT", "1", "1")}
	}
	return nil
}

const c08Script = "return tile38.call('SET', KEYS[1], ARGV[1], 'POINT', 1, 1)"

func c08Run(job *Job, p c08Params, prefix []int) (out schedOut) {
	keep := []string{}
	if p.Flusher {
		keep = append(keep, "backgroundSyncAOF")
	}
	if p.Sweeper {
		keep = append(keep, "backgroundExpiring")
	}
	x := runExec(job, freezeAllBut(keep...), func(x *Exec) {
		in := x.Start("L", x.dir+"/L", 9001, func(o *Options) { o.Spinlock = p.Spin })
		aofPath := filepath.Clean(filepath.Join(in.Dir, "appendonly.aof"))
		n := len(p.Conns)
		clis := make([]*Cli, n)
		acked := make([]int, n)   // replies seen so far per connection
		early := []string{}
		if len(p.Pre) > 0 {
			c0 := x.Dial(in.Addr)
			for _, cmd := range p.Pre {
				if cmd[0] == "@BIG" { // SET key id STRING <n bytes>
					n, _ := strconv.Atoi(cmd[3])
					c0.Do("SET", cmd[1], cmd[2], "STRING", strings.Repeat("x", n))
				} else {
					c0.Do(cmd...)
				}
			}
			c0.Close()
		}
		for i := range clis {
			clis[i] = x.Dial(in.Addr)
		}
		vsched.Quiesce() // all connections accepted, handlers blocked in Read
		if p.Full {
			if fi, err := os.Stat(aofPath); err == nil {
				vos.SizeLimit[aofPath] = fi.Size() + 10 // room for the first bytes of the next record only
			}
		}
		for i := range clis {
			i := i
			var pend []byte
			clis[i].c.Peer.OnWrite = func(b []byte) {
				// called inside the server's socket write, before delivery
				pend = append(pend, b...)
				for {
					v, rest, ok, err := parseRESP(pend)
					if err != nil || !ok {
						return
					}
					pend = rest
					k := acked[i]
					acked[i]++
					if k >= len(p.Conns[i].Cmds) || v.IsErr() {
						continue
					}
					files := vos.Image(len(vos.Log))
					img, have := files[aofPath]
					if !have {
						// between the two renames of a rewrite the log a restart would load is the backup
						img = files[aofPath+"-bak"]
					}
					for _, want := range c08LoggedBytes(p.Conns[i].Cmds[k], p.Shrink) {
						if !bytes.Contains(img, want) {
							early = append(early, fmt.Sprintf("conn%d cmd%d %v acknowledged (%s) while log file holds %d bytes without it",
								i, k, p.Conns[i].Cmds[k], v.String(), len(img)))
						}
					}
				}
			}
		}
		if p.Flusher {
			// release the connections at the very instant the flusher's next due
			// tick wakes, so that it is enabled together with them (virtual time
			// does not advance while anything is runnable)
			for {
				t := vsched.WakeTimeOf("L", "backgroundSyncAOF")
				if t < 0 {
					panic("flusher not sleeping")
				}
				vsched.SleepUntil(t)
				if vsched.Clock >= int64(1100*stdtime.Millisecond) {
					break
				}
				vsched.Sleep(1)
			}
		}
		if p.Sweeper {
			// release at the sweeper tick that first sees the EX 1.1 object expired
			for {
				t := vsched.WakeTimeOf("L", "backgroundExpiring")
				if t < 0 {
					panic("sweeper not sleeping")
				}
				vsched.SleepUntil(t)
				if vsched.Clock >= int64(1150*stdtime.Millisecond) {
					break
				}
				vsched.Sleep(1)
			}
		}
		for i, c := range p.Conns {
			var seg []byte
			for _, cmd := range c.Cmds {
				seg = append(seg, respCmd(c08Expand(cmd)...)...)
			}
			clis[i].c.Inject(seg)
		}
		vsched.Prefix = prefix
		vsched.Exploring = true
		done := vsched.WaitUntilOr(func() bool {
			if p.Full && len(vsched.Crashes) > 0 {
				return true // the server stopped on the write error: nothing more is acknowledged
			}
			for i := range clis {
				if acked[i] < len(p.Conns[i].Cmds) {
					return false
				}
			}
			return true
		}, int64(30*stdtime.Second))
		vsched.Quiesce()
		vsched.Exploring = false
		out.Trace = append([]vsched.ChoicePoint(nil), vsched.Trace...)
		out.Diverged = vsched.Diverged
		if !done {
			out.Err = "replies missing: " + vsched.Dump()
			return
		}
		if p.Full {
			// the only question here: was anything acknowledged that the file does not hold
			out.Obs = fmt.Sprintf("full-disk acked=%v crashed=%v", acked, len(vsched.Crashes) > 0)
			if len(early) > 0 {
				out.VSig = p.prop() + "/ack-before-log:log-cannot-grow"
				out.VDetail = strings.Join(early, "; ")
			}
			vsched.Crashes = nil
			return
		}
		// observation: order in which the commands reached the log
		in.Stop()
		img := vos.Image(len(vos.Log))[aofPath]
		var order []string
		for i, c := range p.Conns {
			for k, cmd := range c.Cmds {
				for _, w := range c08LoggedBytes(cmd, p.Shrink) {
					order = append(order, fmt.Sprintf("%d.%d@%d", i, k, bytes.Index(img, w)))
				}
			}
		}
		out.Obs = strings.Join(order, ",")
		if len(early) > 0 {
			out.VSig = p.prop() + "/ack-before-log"
			for _, cn := range p.Conns {
				for _, cmd := range cn.Cmds {
					if u := strings.ToUpper(cmd[0]); u == "SUBSCRIBE" || u == "PSUBSCRIBE" || (len(cmd) > 2 && strings.ToUpper(cmd[2]) == "FENCE") {
						out.VSig = p.prop() + "/ack-before-log:pipeline-ending-in-stream-command"
					}
				}
			}
			out.VDetail = strings.Join(early, "; ")
			out.Obs += "|EARLY"
		}
		// durability: after a clean stop every acknowledged write is in the file
		for i, c := range p.Conns {
			for k, cmd := range c.Cmds {
				for _, w := range c08LoggedBytes(cmd, p.Shrink) {
					if !bytes.Contains(img, w) && out.VSig == "" {
						out.VSig = p.prop() + "/acked-write-missing-from-log"
						out.VDetail = fmt.Sprintf("conn%d cmd%d %v acknowledged but absent from the log after stop", i, k, cmd)
					}
				}
			}
		}
	})
	if x.Err != "" {
		out.Err = x.Err
	}
	if len(x.Crashes) > 0 && !p.Full {
		out.Err = fmt.Sprintf("server thread panicked: %s: %s\n%s", x.Crashes[0].Thread, x.Crashes[0].Value, x.Crashes[0].Stack)
	}
	return out
}

func c08Scenarios(tier string) (scs []c08Params, bound int) {
	set := func(id string) []string { return []string{"SET", "k", id, "POINT", "1", "1"} }
	get := []string{"GET", "k", "a"}
	eval := func(id string) []string { return []string{"EVAL", c08Script, "1", "k", id} }
	scs = []c08Params{
		{Conns: []c08Conn{{Cmds: [][]string{set("a")}}, {Cmds: [][]string{set("b")}}}},
		{Conns: []c08Conn{{Cmds: [][]string{set("a")}}, {Cmds: [][]string{get}}}},
		{Conns: []c08Conn{{Cmds: [][]string{eval("a")}}, {Cmds: [][]string{set("b")}}}},
		{Conns: []c08Conn{{Cmds: [][]string{set("a")}}, {Cmds: [][]string{set("b")}}}, Flusher: true},
	}
	// a pipelined segment that ends in a command which switches the connection to a
	// stream: the replies of the earlier commands are written on the detach path
	scs = append(scs,
		c08Params{Conns: []c08Conn{{Cmds: [][]string{set("a"), {"NEARBY", "k", "FENCE", "POINT", "1", "1", "1000"}}}, {Cmds: [][]string{get}}}},
		c08Params{Conns: []c08Conn{{Cmds: [][]string{set("a"), {"SUBSCRIBE", "ch"}}}, {Cmds: [][]string{set("b")}}}},
	)
	// a write acknowledged while AOFSHRINK is rewriting the log
	scs = append(scs, c08Params{Pre: [][]string{set("p1"), set("p2"), {"SET", "j", "x", "POINT", "2", "2"}}, Conns: []c08Conn{{Cmds: [][]string{{"AOFSHRINK"}}}, {Cmds: [][]string{set("b")}}}, Shrink: true})
	// the log cannot grow (disk full): the write must not be acknowledged
	scs = append(scs, c08Params{Pre: [][]string{set("p1")}, Conns: []c08Conn{{Cmds: [][]string{set("a")}}, {Cmds: [][]string{get}}}, Full: true})
	// a write followed, in the same segment, by a read whose reply is larger than 4 MiB
	scs = append(scs, c08Params{Pre: [][]string{{"@BIG", "kb", "big", "4300000"}}, Conns: []c08Conn{{Cmds: [][]string{set("a"), {"GET", "kb", "big"}}}, {Cmds: [][]string{get}}}})
	// the expiry sweeper logs a DEL of its own between a connection's write and that connection's pre-reply flush
	scs = append(scs, c08Params{Pre: [][]string{{"SET", "k", "e", "EX", "1.1", "POINT", "6", "6"}}, Conns: []c08Conn{{Cmds: [][]string{set("a"), get}}, {Cmds: [][]string{get}}}, Sweeper: true})
	// one command larger than any chunk size of the log writer
	scs = append(scs, c08Params{Conns: []c08Conn{{Cmds: [][]string{{"@BIGSET", "kb", "big5", "5300000"}}}, {Cmds: [][]string{get}}}})
	if tier == "thorough" {
		scs = append(scs,
			c08Params{Conns: []c08Conn{{Cmds: [][]string{set("a"), set("c")}}, {Cmds: [][]string{set("b")}}}},
			c08Params{Conns: []c08Conn{{Cmds: [][]string{set("a")}}, {Cmds: [][]string{set("b")}}, {Cmds: [][]string{get}}}},
			c08Params{Conns: []c08Conn{{Cmds: [][]string{set("a")}}, {Cmds: [][]string{set("b")}}, {Cmds: [][]string{set("c")}}}},
			c08Params{Conns: []c08Conn{{Cmds: [][]string{eval("a")}}, {Cmds: [][]string{eval("b")}}}},
			c08Params{Conns: []c08Conn{{Cmds: [][]string{set("a")}}, {Cmds: [][]string{set("b")}}}, Spin: true},
			c08Params{Conns: []c08Conn{{Cmds: [][]string{eval("a")}}, {Cmds: [][]string{get}}}, Flusher: true},
		)
	}
	return scs, 2
}

func checkC08(job *Job, res *Result) {
	res.Rule = "SCHED: every schedule of the released connections with <= bound preemptions at lock/atomic/cond/socket/file operations of the real server; distinct = distinct (scenario, order of commands in the log file, early-ack flag)"
	res.Assumptions = append(res.Assumptions,
		"polling loops other than backgroundSyncAOF and (in one scenario) backgroundExpiring are frozen: the others never touch aofbuf, aofdirty or the log file",
		"a process kill leaves exactly the completed file operations (page cache survives); power loss is outside the property",
		"memory model: sequential consistency at the granularity of sync/atomic/socket/file operations")
	if job.Replay != nil {
		replaySched(job, res, func(params []byte, sched []int) schedOut {
			var p c08Params
			mustJSON(params, &p)
			return c08Run(job, p, sched)
		})
		return
	}
	scs, bound := c08Scenarios(job.Tier)
	if b, ok := job.Params["bound"].(float64); ok {
		bound = int(b)
	}
	for i, p := range scs {
		p := p
		sc := schedScenario{Name: fmt.Sprintf("c08.%d", i), Params: p, Run: func(prefix []int) schedOut { return c08Run(job, p, prefix) }}
		b := bound
		for _, cn := range p.Conns {
			for _, cmd := range cn.Cmds {
				if cmd[0] == "@BIGSET" {
					b = bound - 2 // megabytes copied and searched per execution: default schedule (thorough: one preemption)
				}
			}
		}
		st := exploreSched(job, res, sc, max(b, 0))
		res.Extra[sc.Name] = map[string]any{"execs": st.Execs, "by_bound": st.ByBound, "outcomes": len(st.Outcomes), "max_choice_points": st.MaxPoints, "bound": max(b, 0)}
		if i == 0 {
			res.Sample(map[string]any{"scenario": sc.Name, "params": p, "outcomes": st.Outcomes})
		}
		if res.EngineError != "" {
			return
		}
	}
}

// ---- c03sched: the part of C03 that needs more than one connection: "every
// instant at which the process may be killed" includes the instant right after
// an acknowledgement, while another connection is between applying its write
// and flushing the log.  Two of the C08 scenarios, reported under C03.

func init() { checks["c03sched"] = checkC03Sched }

func checkC03Sched(job *Job, res *Result) {
	res.Rule = "SCHED: RENAME / RENAMENX acknowledged while AOFSHRINK runs (one preemption), then a restart; two connections (SET / SET, SET / GET, SET+GET / GET): every schedule with <= 2 preemptions; at each acknowledgement the log file as of that instant (= what a kill would leave) must hold the acknowledged write; distinct = distinct (scenario, order of commands in the log file, early-ack flag)"
	// a command acknowledged while the log is being rewritten survives the next restart: the
	// rename scenarios of the rewrite explorer (C09), reported under C03
	asC03 := func(o schedOut) schedOut {
		if strings.HasPrefix(o.VSig, "C09/") {
			o.VSig = "C03/acknowledged-during-rewrite:" + strings.TrimPrefix(o.VSig, "C09/")
		}
		return o
	}
	if job.Replay != nil {
		replaySched(job, res, func(params []byte, sched []int) schedOut {
			var probe struct {
				Writers [][][]string `json:"writers"`
			}
			mustJSON(params, &probe)
			if probe.Writers != nil {
				var p9 c09Params
				mustJSON(params, &p9)
				return asC03(c09Run(job, p9, sched))
			}
			var p c08Params
			mustJSON(params, &p)
			return c08Run(job, p, sched)
		})
		return
	}
	for _, p9 := range c09SchedScenarios(job.Tier) {
		p9 := p9
		if p9.Name != "renamenx" && p9.Name != "rename-to-scanned-side" && p9.Name != "rename-to-unscanned-side" {
			continue
		}
		sc := schedScenario{Name: "c03sched.rewrite." + p9.Name, Params: p9, Run: func(prefix []int) schedOut { return asC03(c09Run(job, p9, prefix)) }}
		st := exploreSched(job, res, sc, 1)
		res.Extra[sc.Name] = map[string]any{"execs": st.Execs, "outcomes": len(st.Outcomes), "max_choice_points": st.MaxPoints}
		if res.EngineError != "" {
			return
		}
	}
	set := func(id string) []string { return []string{"SET", "k", id, "POINT", "1", "1"} }
	get := []string{"GET", "k", "a"}
	scs := []c08Params{
		{Prop: "C03", Conns: []c08Conn{{Cmds: [][]string{set("a")}}, {Cmds: [][]string{set("b")}}}},
		{Prop: "C03", Conns: []c08Conn{{Cmds: [][]string{set("a")}}, {Cmds: [][]string{get}}}},
		{Prop: "C03", Conns: []c08Conn{{Cmds: [][]string{set("a"), get}}, {Cmds: [][]string{get}}}},
	}
	for i, p := range scs {
		p := p
		sc := schedScenario{Name: fmt.Sprintf("c03sched.%d", i), Params: p, Run: func(prefix []int) schedOut { return c08Run(job, p, prefix) }}
		st := exploreSched(job, res, sc, 2)
		res.Extra[sc.Name] = map[string]any{"execs": st.Execs, "outcomes": len(st.Outcomes), "max_choice_points": st.MaxPoints}
		if res.EngineError != "" {
			return
		}
	}
}
