//go:build verif

package server

// C16 - replies depend on the bytes sent, not on packetisation; bad input is
// contained.
//
// c16cuts (SEQ over inputs x cuts): 14 request streams (RESP pipelines, telnet
//   with CRLF / LF / quotes, native, HTTP GET / POST / OPTIONS, mixed, a value
//   larger than the read buffer, commands starting with G / P / O which the HTTP
//   sniffer inspects) x EVERY 2-way cut, every 3-way cut for short streams, and
//   byte-at-a-time.  The in-memory network delivers exactly the harness's
//   segments; each segment is written only after the server has consumed the
//   previous one.  Oracle: reply bytes (elapsed blanked) = unsegmented run.
// c16bad (SEQ over inputs): ALL byte strings of length <= L over a 13-byte
//   alphabet, and every catalogue command with one argument deleted or
//   duplicated, fed to a live server next to a bystander connection.  Oracle:
//   no panic in any server thread, the bystander's replies are unchanged.

import (
	"fmt"
	"regexp"
	"strconv"
	"strings"
	stdtime "time"

	"github.com/tidwall/tile38/internal/vshim/vsched"
)

func init() {
	checks["c16cuts"] = checkC16Cuts
	checks["c16bad"] = checkC16Bad
}

type c16Stream struct {
	Name string
	Data []byte
	HTTP bool // the server closes the connection after the reply
	// SameAs names a stream carrying the same commands in another framing whose
	// replies this stream must reproduce byte for byte (one reply per command)
	SameAs string
	// Sparse: megabytes per execution - cuts only near the end, near the start and at read-buffer multiples
	Sparse bool
}

func c16Streams(tier string) []c16Stream {
	resp3 := append(append(respCmd("SET", "pk", "a", "POINT", "1", "2"), respCmd("GET", "pk", "a")...), respCmd("SCAN", "pk", "IDS")...)
	var big []byte
	n := 300
	if tier == "thorough" {
		n = 2000
	}
	for i := 0; i < n; i++ {
		big = append(big, respCmd("SET", "pk", fmt.Sprintf("p%04d", i%50), "POINT", "1", fmt.Sprint(i%80))...)
		if i%7 == 0 {
			big = append(big, respCmd("GET", "pk", fmt.Sprintf("p%04d", i%50))...)
		}
	}
	bigval := strings.Repeat("0123456789", 7000)
	post := "SET pk post POINT 5 6"
	return []c16Stream{
		{Name: "resp-3", Data: resp3, HTTP: false},
		{Name: "resp-pipeline", Data: big, HTTP: false},
		{Name: "telnet-crlf", Data: []byte("SET pk t POINT 1 2\r\nGET pk t\r\nPING\r\n"), HTTP: false},
		{Name: "telnet-lf", Data: []byte("SET pk t POINT 1 2\nGET pk t\nPING\n"), SameAs: "telnet-crlf"},
		{Name: "telnet-quoted", Data: []byte("SET pk q STRING \"hello world\"\r\nGET pk q\r\nSET pk \"q 2\" STRING 'x y'\r\nGET pk \"q 2\"\r\n"), HTTP: false},
		{Name: "native", Data: []byte("$18 SET pk n POINT 1 2\r\n$8 GET pk n\r\n$4 PING\r\n"), HTTP: false},
		{Name: "http-get", Data: []byte("GET /GET+pk+a HTTP/1.1\r\nHost: x\r\nAccept: */*\r\n\r\n"), HTTP: true},
		{Name: "http-post", Data: []byte(fmt.Sprintf("POST / HTTP/1.1\r\nHost: x\r\nContent-Length: %d\r\n\r\n%s", len(post), post)), HTTP: true},
		{Name: "http-options-then-get", Data: []byte("OPTIONS /x HTTP/1.1\r\nHost: x\r\nOrigin: y\r\n\r\nGET /PING HTTP/1.1\r\nHost: x\r\n\r\n"), HTTP: true},
		{Name: "mixed", Data: append(append(respCmd("PING"), []byte("GET pk a\r\n$4 PING\r\n")...), respCmd("GET", "pk", "a")...), HTTP: false},
		{Name: "value-70k", Data: append(append(respCmd("SET", "pk", "big", "STRING", bigval), respCmd("GET", "pk", "big")...), respCmd("PING")...), HTTP: false},
		{Name: "starts-with-G", Data: []byte("GET pk a\r\nGET pk a WITHFIELDS\r\n"), HTTP: false},
		{Name: "starts-with-P-O", Data: []byte("PING\r\nOUTPUT json\r\nPING\r\nOUTPUT resp\r\nPDEL pk zz*\r\nPERSIST pk a\r\n"), HTTP: false},
		{Name: "resp-then-quit", Data: append(respCmd("GET", "pk", "a"), respCmd("QUIT")...), HTTP: false},
		// a valid command followed by a malformed one: the protocol error is reported wherever the cut falls
		{Name: "resp-then-malformed", Data: append(respCmd("PING"), []byte("*1\r\nX\r\n")...), HTTP: false},
		{Name: "telnet-then-unbalanced-quote", Data: []byte("PING\r\nSET pk u STRING \"abc\r\n"), HTTP: false},
		{Name: "json-mode-then-malformed", Data: append(append(respCmd("OUTPUT", "json"), respCmd("PING")...), []byte("*2\r\n$4\r\nPING\r\n:1\r\n")...), HTTP: false},
		// a command that turns the connection into a stream, followed by further commands
		{Name: "subscribe-then-commands", Data: append(append(append(respCmd("SUBSCRIBE", "c16a"), respCmd("PING", "hello")...), respCmd("SUBSCRIBE", "c16b")...), respCmd("PING")...), HTTP: false},
		{Name: "psubscribe-then-telnet", Data: []byte("PSUBSCRIBE c16*\r\nPING hello\r\nUNSUBSCRIBE nope\r\n"), HTTP: false},
		// a one-word command over HTTP, with and without a query string
		{Name: "http-server-plain", Data: []byte("GET /HEALTHZ HTTP/1.1\r\nHost: x\r\n\r\n"), HTTP: true},
		{Name: "http-server-query", Data: []byte("GET /HEALTHZ?pretty=1 HTTP/1.1\r\nHost: x\r\n\r\n"), HTTP: true, SameAs: "http-server-plain"},
		// a command larger than a megabyte followed by pipelined commands (whatever the reader keeps between reads must survive)
		{Name: "value-1.3M-then-pipeline", Sparse: true, Data: append(append(append(respCmd("SET", "pk", "huge", "STRING", strings.Repeat("0123456789abcdef", 82000)), respCmd("PING", "after")...), respCmd("GET", "pk", "a")...), respCmd("PING")...)},
		// valid commands followed by malformed input once the connection is a subscription / a monitor
		{Name: "subscribed-ping-then-malformed", Data: append(append(respCmd("SUBSCRIBE", "c16a"), respCmd("PING", "x")...), []byte("*x\r\n")...)},
		{Name: "monitor-then-quit", Data: []byte("MONITOR\r\nQUIT\r\n")},
		// an empty command name / a protocol switch in the middle / LF-only lines that the HTTP sniffer looks at
		{Name: "empty-name-then-ping", Data: append([]byte("*1\r\n$0\r\n\r\n"), respCmd("PING")...), HTTP: false},
		{Name: "telnet-empty-name-then-ping", Data: []byte("\"\"\r\nPING\r\n"), HTTP: false},
		{Name: "ping-then-http", Data: []byte("PING\r\nGET /PING HTTP/1.1\r\n\r\n"), HTTP: false},
		{Name: "ping-then-invalid-http", Data: []byte("PING\r\nGET / HTTP/1.1\r\n\r\n"), HTTP: false},
		{Name: "crlf-G-P", Data: []byte("PING\r\nGET pk a\r\nECHO x\r\n")},
		{Name: "lf-only-G-P", Data: []byte("PING\nGET pk a\nECHO x\n"), SameAs: "crlf-G-P"},
		// first lines longer than any fixed look-ahead (telnet and HTTP), first letter one the sniffer cares about
		{Name: "resp-long-P", Data: append(respCmd("PUBLISH", "c16long", strings.Repeat("x", 5000)), respCmd("PING")...)},
		{Name: "telnet-long-line-P", Data: []byte("PUBLISH c16long " + strings.Repeat("x", 5000) + "\r\nPING\r\n"), SameAs: "resp-long-P"},
		{Name: "http-short-url", Data: []byte("GET /SET+pk+long+STRING+yy HTTP/1.1\r\nHost: x\r\n\r\n"), HTTP: true},
		{Name: "http-long-url", Data: []byte("GET /SET+pk+long+STRING+" + strings.Repeat("y", 5000) + " HTTP/1.1\r\nHost: x\r\n\r\n"), HTTP: true, SameAs: "http-short-url"},
	}
}

var reElapsed = regexp.MustCompile(`"elapsed":"[^"]*"`)

// c16Send delivers data in the given segments and returns everything the
// server answers until it is blocked in Read again (or has closed).
func c16Send(x *Exec, addr string, data []byte, cuts []int) string {
	c := x.Dial(addr)
	prev := 0
	var out []byte
	cuts = append(append([]int(nil), cuts...), len(data))
	for _, cut := range cuts {
		if cut <= prev || cut > len(data) {
			continue
		}
		c.c.Inject(data[prev:cut])
		prev = cut
		// let the server consume this segment completely before the next one
		vsched.WaitUntilOr(func() bool { return c.c.Consumed() || c.c.EOF() }, int64(10*stdtime.Second))
		vsched.Quiesce()
		out = append(out, c.c.Drain()...)
		if c.c.EOF() {
			break
		}
	}
	vsched.Quiesce()
	out = append(out, c.c.Drain()...)
	if c.c.EOF() {
		out = append(out, "<closed>"...)
	}
	c.c.Kill()
	vsched.Quiesce()
	return reElapsed.ReplaceAllString(string(out), `"elapsed":"-"`)
}

func checkC16Cuts(job *Job, res *Result) {
	res.Rule = "SEQ over inputs x cuts: 34 streams (LF-terminated telnet streams must be answered like their CRLF twins, a 5 KB inline command like its RESP twin, a 5 KB URL like a short one) (incl. valid-then-malformed and stream-switching commands followed by further commands) x every 2-way cut (long streams: every cut within 80 bytes of a command / read-buffer boundary plus a stride), every 3-way cut for streams <= 120 bytes (thorough <= 200), byte-at-a-time for streams <= 400 bytes; distinct = distinct (stream, segmentation class)"
	res.Assumptions = append(res.Assumptions, "each stream is replayed on a fresh connection of one server; its commands are idempotent so the state is the same for every replay", "the elapsed member of JSON replies is blanked")
	streams := c16Streams(job.Tier)
	caseNo := 0
	var only map[string]any
	if job.Replay != nil {
		mustJSON(job.Replay, &only)
	}
	x := runExec(job, freezeAllBut(), func(x *Exec) {
		in := x.Start("L", x.dir+"/L", 9001, nil)
		c0 := x.Dial(in.Addr)
		c0.Do("SET", "pk", "a", "FIELD", "f", "1", "POINT", "1", "2")
		for _, s := range streams {
			if only != nil && only["stream"] != s.Name {
				continue
			}
			// warm-up run so that idempotent writes have been applied once, then the reference
			c16Send(x, in.Addr, s.Data, nil)
			ref := c16Send(x, in.Addr, s.Data, nil)
			n := len(s.Data)
			if s.SameAs != "" {
				for _, o := range streams {
					if o.Name == s.SameAs {
						c16Send(x, in.Addr, o.Data, nil)
						if want := c16Send(x, in.Addr, o.Data, nil); want != ref {
							res.Violate("C16/framing-changes-replies:"+s.Name, fmt.Sprintf("stream %s %q is answered %s ; the same commands as stream %s %q are answered %s",
								s.Name, vclip(string(s.Data), 80), vclip(ref, 300), o.Name, vclip(string(o.Data), 80), vclip(want, 300)), map[string]any{"stream": s.Name, "cuts": []int{}})
						}
					}
				}
			}
			if refs, ok := res.Extra["reference_replies"].(map[string]any); ok {
				refs[s.Name] = vclip(ref, 160)
			} else {
				res.Extra["reference_replies"] = map[string]any{s.Name: vclip(ref, 160)}
			}
			var plans [][]int
			if s.Sparse {
				for d := 1; d <= 90; d++ {
					plans = append(plans, []int{n - d})
				}
				for d := 1; d <= 40; d += 3 {
					plans = append(plans, []int{d})
				}
				for k := 1; k*0xFFFF < n; k += 3 {
					plans = append(plans, []int{k * 0xFFFF}, []int{k*0xFFFF - 1})
				}
				plans = append(plans, []int{n - 60, n - 30}, []int{n / 2, n - 45})
				res.Cap("stream " + s.Name + ": cuts only near both ends and at read-buffer multiples")
			} else if n <= 3000 {
				for i := 1; i < n; i++ {
					plans = append(plans, []int{i})
				}
			} else {
				seen := map[int]bool{}
				add := func(i int) {
					if i > 0 && i < n && !seen[i] {
						seen[i] = true
						plans = append(plans, []int{i})
					}
				}
				for i := 1; i < n; i += 997 {
					add(i)
				}
				for k := 1; k*0xFFFF < n+0xFFFF; k++ {
					for d := -80; d <= 80; d++ {
						add(k*0xFFFF + d)
					}
				}
				for d := 1; d <= 120; d++ {
					add(d)
					add(n - d)
				}
				res.Cap("stream " + s.Name + ": 2-way cuts restricted to a stride and the neighbourhoods of the ends and read-buffer boundaries")
			}
			lim3 := 120
			if job.Tier == "thorough" {
				lim3 = 200
			}
			if n <= lim3 {
				for i := 1; i < n; i++ {
					for j := i + 1; j < n; j++ {
						plans = append(plans, []int{i, j})
					}
				}
			} else if n <= 3000 {
				// 3-way cuts around every CRLF (command boundaries) for medium streams
				var marks []int
				for i := 0; i+1 < n; i++ {
					if s.Data[i] == '\r' || s.Data[i] == '\n' {
						marks = append(marks, i, i+1)
					}
				}
				for a := 0; a < len(marks); a++ {
					for b := a + 1; b < len(marks) && b < a+6; b++ {
						if marks[a] > 0 && marks[b] > marks[a] && marks[b] < n {
							plans = append(plans, []int{marks[a], marks[b]})
						}
					}
				}
			}
			if n <= 400 {
				var all []int
				for i := 1; i < n; i++ {
					all = append(all, i)
				}
				plans = append(plans, all)
				// equal-length leftovers in consecutive reads: k-byte segments for several k
				for k := 2; k <= 9; k++ {
					var cs []int
					for i := k; i < n; i += k {
						cs = append(cs, i)
					}
					plans = append(plans, cs)
				}
			}
			for _, plan := range plans {
				caseNo++
				if only != nil {
					if fmt.Sprint(only["cuts"]) != fmt.Sprint(plan) {
						continue
					}
				} else if caseNo%job.NShards != job.Shard {
					continue
				}
				if res.OverBudget() {
					res.Cap("time budget hit in stream " + s.Name)
					break
				}
				got := c16Send(x, in.Addr, s.Data, plan)
				res.Evaluations++
				res.Transitions++
				res.Validated++
				res.DistinctS(fmt.Sprint(s.Name, len(plan), got == ref))
				if got != ref {
					desc := fmt.Sprint(plan)
					if len(plan) > 6 {
						desc = fmt.Sprintf("%d cuts %v...", len(plan), plan[:6])
					}
					kind := fmt.Sprintf("%d-way", len(plan)+1)
					if len(plan) > 2 {
						kind = "many-way"
					}
					res.Violate("C16/segmentation-changes-replies:"+s.Name+":"+kind,
						fmt.Sprintf("stream %s (%d bytes) cut at %s: replies %s ; unsegmented: %s", s.Name, n, desc, vclip(got, 400), vclip(ref, 400)),
						map[string]any{"stream": s.Name, "cuts": plan})
				}
			}
			res.States++
			if s.Name == "resp-3" {
				res.Sample(map[string]any{"stream": s.Name, "bytes": n, "segmentations": len(plans), "reference_reply": vclip(ref, 200)})
			}
		}
		if len(vsched.Crashes) > 0 {
			res.Violate("C16/server-crash:cuts", vsched.Crashes[0].Thread+": "+vsched.Crashes[0].Value, nil)
		}
	})
	if x.Err != "" {
		res.Violate("C16/hang:cuts", x.Err, nil)
	}
}

func checkC16Bad(job *Job, res *Result) {
	res.Rule = "SEQ over inputs: all byte strings of length <= L (quick 4, thorough 5) over {* $ 1 2 - CR LF space \" G P a NUL} 10 HTTP request lines x 101 header-line forms x 3 terminations, 220 inputs with array counts / bulk lengths / native lengths / Content-Length at the integer-type boundaries, and every catalogue command shape with one argument deleted / duplicated / emptied / (if numeric) replaced by 14 boundary numbers, each on its own connection of a live server next to a bystander connection; every catalogue shape once more on a server started without an append-only file; distinct = distinct (input class, reaction)"
	maxLen := 4
	if job.Tier == "thorough" {
		maxLen = 5
	}
	if l, ok := job.Params["maxlen"].(float64); ok {
		maxLen = int(l)
	}
	alpha := []byte{'*', '$', '1', '2', '-', '\r', '\n', ' ', '"', 'G', 'P', 'a', 0}
	x := runExec(job, freezeAllBut(), func(x *Exec) {
		in := x.Start("L", x.dir+"/L", 9001, nil)
		by := x.Dial(in.Addr)
		sha := catSetup(by)
		by.Do("SET", "bystander", "b", "POINT", "7", "7")
		refGet := by.Do("GET", "bystander", "b").String()
		leakSeen := false
		check := func(label string, input []byte) bool {
			c := x.Dial(in.Addr)
			done := res.Pending("C16/server-dies-or-spins:"+label, fmt.Sprintf("the server process did not survive input %q (fatal runtime error, or a thread spinning for more than 60 s of real time)", input), map[string]any{"input": fmt.Sprintf("%q", input)})
			c.c.Inject(input)
			vsched.WaitUntilOr(func() bool { return c.c.Consumed() || c.c.EOF() }, int64(10*stdtime.Second))
			vsched.Quiesce()
			done()
			reaction := "waits"
			if c.c.EOF() {
				reaction = "closed"
			} else if c.c.Avail() > 0 {
				reaction = "answered"
			}
			c.c.Kill()
			vsched.Quiesce()
			res.Evaluations++
			if len(vsched.Crashes) > 0 {
				res.Violate("C16/server-crash:"+label, fmt.Sprintf("input %q crashed server thread %s: %s", input, vsched.Crashes[0].Thread, vsched.Crashes[0].Value), map[string]any{"input": fmt.Sprintf("%q", input)})
				return false
			}
			// pooled script interpreters: at quiescence every one that was handed out is back
			in.S.luapool.m.Lock()
			out := in.S.luapool.total - len(in.S.luapool.saved)
			in.S.luapool.m.Unlock()
			if out != 0 && !leakSeen {
				leakSeen = true
				res.Violate("C16/interpreter-leaked:"+label, fmt.Sprintf("after input %q %d script interpreter(s) handed out by the pool were never returned (the pool refuses scripts for everybody once %d are missing)", input, out, maxLuaPoolSize), map[string]any{"input": fmt.Sprintf("%q", input)})
			}
			if g := by.Do("GET", "bystander", "b").String(); g != refGet {
				res.Violate("C16/bystander-affected:"+label, fmt.Sprintf("after input %q on another connection the bystander's GET replied %s (before: %s)", input, vclip(g, 100), refGet), map[string]any{"input": fmt.Sprintf("%q", input)})
				return false
			}
			res.DistinctS(fmt.Sprint(len(input), reaction, input[0]))
			return true
		}
		// ---- all short byte strings
		total := 0
		var rec func(cur []byte) bool
		rec = func(cur []byte) bool {
			if len(cur) > 0 {
				total++
				if total%job.NShards == job.Shard {
					if res.OverBudget() {
						res.Cap(fmt.Sprintf("time budget hit after %d byte strings", total))
						return false
					}
					if !check("bytes", cur) {
						return false
					}
				}
			}
			if len(cur) == maxLen {
				return true
			}
			for _, b := range alpha {
				if !rec(append(cur, b)) {
					return false
				}
			}
			return true
		}
		if !rec(nil) {
			return
		}
		res.Bounds["byte_strings"] = total
		// ---- malformed / unusual HTTP requests: request lines x header forms
		hn := 0
		reqLines := []string{"GET /PING HTTP/1.1", "POST / HTTP/1.1", "GET  HTTP/1.1", "GET /%zz HTTP/1.1", "PUT /PING HTTP/1.1", "OPTIONS * HTTP/1.1", "GET /PING HTTP/9.9", "GET PING HTTP/1.1", "G HTTP/1.1", "POST /PING HTTP/1.1"}
		hdrNames := []string{"Upgrade", "Content-Length", "Accept-Encoding", "Authorization", "Sec-Websocket-Key", "Sec-Websocket-Version", "Host", "Connection"}
		var hdrForms []string
		for _, n := range hdrNames {
			hdrForms = append(hdrForms, n, n+":", n+": ", n+": x", n+": 5", n+": -1", n+": 99999999999999999999", n[:len(n)-1], strings.ToLower(n), strings.ToUpper(n)+":\tv", n+" : x", ": "+n)
		}
		hdrForms = append(hdrForms, "", ":", " ", "Upgrade: websocket\r\nSec-Websocket-Version: 13\r\nSec-Websocket-Key: k", "Upgrade: websocket\r\nSec-Websocket-Version: 13\r\nSec-Websocket-Key")
		for _, rl := range reqLines {
			for _, h := range hdrForms {
				for _, tail := range []string{"\r\n\r\n", "\r\n\r\nPING", "\r\n"} {
					hn++
					if hn%job.NShards != job.Shard {
						continue
					}
					in := rl + "\r\n" + h + tail
					if h == "" {
						in = rl + tail
					}
					if !check("http", []byte(in)) {
						return
					}
				}
			}
		}
		// ---- request paths with quotes, broken escapes and separators (the path is split like a telnet line)
		for _, path := range []string{`/set+a+b+string+%22`, `/%22`, `/set+a+%22b`, `/"`, `/a+"`, `/set+a+b+string+"x"`, `/set+a+b+string+%22x%22`, `/+`, `/++`, `/%`, `/%2`, `/%zz`, `/%00`, `//`, `/?x`, `/#`, `/'`, `/set+a+b+string+'`, `/{`, `/set+a+b+object+{`, `/%7B%22a%22`, `/ping+%22`, `/\\`} {
			for _, m := range []string{"GET", "POST"} {
				hn++
				if hn%job.NShards != job.Shard {
					continue
				}
				if !check("http-path", []byte(m+" "+path+" HTTP/1.1\r\nHost: x\r\n\r\n")) {
					return
				}
			}
		}
		res.Bounds["http_requests"] = hn
		// ---- declared sizes: array counts, bulk lengths, native lengths and HTTP
		// Content-Length at the boundaries of the integer types
		nums := []string{"0", "-0", "-1", "-2", "+1", "01", "1e3", "0x10", " 1", "1 ", "", "2147483647", "2147483648", "4294967295", "4294967296", "9223372036854775807", "9223372036854775808", "18446744073709551616", "-9223372036854775808", "99999999999999999999999999"}
		dn := 0
		for _, n := range nums {
			for _, in := range []string{
				"*" + n + "\r\n", "*" + n + "\r\n$4\r\nPING\r\n", "*1\r\n$" + n + "\r\n", "*1\r\n$" + n + "\r\nPING\r\n", "*2\r\n$4\r\nECHO\r\n$" + n + "\r\nabc\r\n",
				"$" + n + " PING\r\n", "$" + n + "\r\n", "*1\r\n*" + n + "\r\n", "*1\r\n:" + n + "\r\n",
				"POST / HTTP/1.1\r\nContent-Length: " + n + "\r\n\r\nPING", "POST /PING HTTP/1.1\r\nContent-Length: " + n + "\r\n\r\n",
			} {
				dn++
				if dn%job.NShards != job.Shard {
					continue
				}
				if !check("declared-size", []byte(in)) {
					return
				}
			}
		}
		res.Bounds["declared_size_inputs"] = dn
		// ---- argument deletions / duplications of every catalogue shape
		names, _ := catalogueNames("")
		cat := catalogue()
		k := 0
		for _, name := range names {
			if name == "FOLLOW" || name == "SLAVEOF" || name == "REPLCONF" || name == "AOFSHRINK" || name == "READONLY" || name == "CONFIG SET" || name == "CONFIG REWRITE" || name == "FLUSHDB" || name == "DROP" {
				continue
			}
			for _, shape := range cat[name] {
				args := catSubst(shape, sha)
				var variants [][]string
				for i := range args {
					variants = append(variants, append(append([]string{}, args[:i]...), args[i+1:]...))                    // deleted
					variants = append(variants, append(append(append([]string{}, args[:i+1]...), args[i]), args[i+1:]...)) // duplicated
					e := append([]string{}, args...)
					e[i] = ""
					variants = append(variants, e) // emptied
					// a numeric argument replaced by the boundaries of the number types
					if _, err := strconv.ParseFloat(args[i], 64); err == nil && i > 0 {
						for _, nv := range []string{"0", "-1", "NaN", "+Inf", "-Inf", "1e309", "-0", "9223372036854775807", "9223372036854775808", "4294967296", "0.0000000001", "1e-320", "180.0000001", "-90.0000001"} {
							b := append([]string{}, args...)
							b[i] = nv
							variants = append(variants, b)
						}
					}
				}
				for _, v := range variants {
					k++
					if k%job.NShards != job.Shard || len(v) == 0 {
						continue
					}
					if mutatesBystander(v) {
						continue
					}
					if !check("args:"+strings.ToLower(name), respCmd(v...)) {
						return
					}
				}
			}
		}
		res.Bounds["argument_variants"] = k
		res.States += 2
	})
	if x.Err != "" {
		res.Violate("C16/hang:bad-input", x.Err, nil)
	}
	// ---- the catalogue once more on a server that keeps no log (AppendOnly off): every
	// command must be answered, none may take the process down
	if job.Shard == 0 && job.Replay == nil {
		names, _ := catalogueNames("")
		cat := catalogue()
		x2 := runExec(job, freezeAllBut(), func(x *Exec) {
			in := x.Start("N", x.dir+"/N", 9005, func(o *Options) { o.AppendOnly = false })
			c0 := x.Dial(in.Addr)
			sha := catSetup(c0)
			for _, name := range names {
				if name == "FOLLOW" || name == "SLAVEOF" || name == "REPLCONF" || name == "SHUTDOWN" || name == "QUIT" || name == "CONFIG REWRITE" {
					continue
				}
				for si, shape := range cat[name] {
					args := catSubst(shape, sha)
					done := res.Pending("C16/server-crash:no-log-server:"+strings.ToLower(name), fmt.Sprintf("%v on a server started without an append-only file", args), map[string]any{"nolog": args})
					c := x.Dial(in.Addr)
					c.Send(respCmd(args...))
					vsched.WaitUntilOr(func() bool { return c.c.Avail() > 0 || c.c.EOF() }, int64(5*stdtime.Second))
					vsched.Quiesce()
					c.c.Kill()
					done()
					res.Evaluations++
					res.DistinctS(fmt.Sprint("nolog", name, si))
					if len(vsched.Crashes) > 0 {
						res.Violate("C16/server-crash:no-log-server:"+strings.ToLower(name), fmt.Sprintf("%v on a server started without an append-only file: %s\n%s", args, vsched.Crashes[0].Value, vclip(vsched.Crashes[0].Stack, 1200)), map[string]any{"nolog": args})
						vsched.Crashes = nil
						return
					}
					if r := c0.Do("PING"); r.String() != "+PONG" {
						res.Violate("C16/bystander-affected:no-log-server:"+strings.ToLower(name), fmt.Sprintf("after %v the bystander's PING is answered %s", args, r), map[string]any{"nolog": args})
						return
					}
				}
			}
		})
		if x2.Err != "" {
			res.Violate("C16/hang:no-log-server", x2.Err, nil)
		}
	}
	res.Transitions += res.Evaluations
	res.Validated += res.Evaluations
}

// commands that would legitimately change what the bystander reads
func mutatesBystander(v []string) bool {
	switch strings.ToUpper(v[0]) {
	case "FLUSHDB", "DROP", "RENAME", "RENAMENX", "READONLY", "FOLLOW", "SLAVEOF", "CONFIG", "SHUTDOWN":
		return true
	}
	for _, a := range v {
		if a == "bystander" {
			return true
		}
	}
	return false
}
