//go:build verif

package server

// C06 (deadlines) - a caught-up follower is an exact copy of its leader also
// when objects and channels carry deadlines.
//
// FAULT/SEQ: both servers run their expiry sweepers on the virtual clock.  All
// event sequences of length <= D over
//   T   SET lk t EX 0.5 ...              (leader)
//   P   PERSIST lk t                     (leader)
//   X   EXPIRE lk t 100                  (leader)
//   S   SET lk t ... (no deadline)       (leader)
//   C   SETCHAN lc EX 0.5 ... / H: SETCHAN lc ... (no deadline) (leader)
//   A   0.6 s pass
//   pP pX pS pH: the follower is stopped (SIGSTOP), the leader executes P / X /
//       S / H, 0.6 s pass, the follower continues  (= replication lag longer
//       than the remaining time to live)
//   K   the replication connection is killed;  R  the follower restarts
// Oracle at the end (follower reports caught_up, leader quiescent, 2.5 s more
// have passed): same objects, fields, deadline flags, channels on both.

import (
	"fmt"
	stdtime "time"

	"github.com/tidwall/tile38/internal/vshim/vnet"
	"github.com/tidwall/tile38/internal/vshim/vsched"
)

func init() { checks["c06ttl"] = checkC06TTL }

var c06TTLEvents = []string{"T", "P", "X", "S", "C", "H", "A", "pP", "pX", "pS", "pH", "K", "R"}

func checkC06TTL(job *Job, res *Result) {
	res.Rule = "FAULT: leader and follower with their expiry sweepers on the virtual clock; ALL event sequences of length <= D over {SET EX 0.5, PERSIST, EXPIRE 100, SET without deadline, SETCHAN EX 0.5, SETCHAN without deadline, 0.6 s pass, the same leader commands while the follower is stopped for 0.6 s, connection kill, follower restart}; at the end the follower reports caught_up and 2.5 s more pass; distinct = distinct (event sequence, final leader dump)"
	res.Assumptions = append(res.Assumptions,
		"a stopped follower (SIGSTOP for 0.6 s) stands for a replication lag longer than the remaining time to live",
		"deadline values are not compared (they are re-based when a command is replayed), only which objects and channels exist and whether they carry a deadline")
	depth := 3
	if d, ok := job.Params["ttldepth"].(float64); ok {
		depth = int(d)
	}
	var seqs [][]int
	var gen func(cur []int)
	gen = func(cur []int) {
		if len(cur) > 0 {
			seqs = append(seqs, append([]int(nil), cur...))
		}
		if len(cur) == depth {
			return
		}
		for e := range c06TTLEvents {
			// a sequence is only interesting once something carries a deadline
			if len(cur) == 0 && c06TTLEvents[e] != "T" && c06TTLEvents[e] != "C" {
				continue
			}
			gen(append(cur, e))
		}
	}
	gen(nil)
	var only map[string]any
	if job.Replay != nil {
		mustJSON(job.Replay, &only)
	}
	// the leader's expirer leaves its DEL records in the log buffer; backgroundSyncAOF flushes it once a second
	frozen := freezeAllBut("follow", "Serve#2", "Serve#4", "backgroundExpiring", "backgroundSyncAOF")
	fence := w("NEARBY k9 FENCE POINT 50 50 100")
	for caseNo, seq := range seqs {
		names := make([]string, len(seq))
		for i, e := range seq {
			names[i] = c06TTLEvents[e]
		}
		if only != nil {
			if fmt.Sprint(only["ttl_events"]) != fmt.Sprint(names) {
				continue
			}
		} else if caseNo%job.NShards != job.Shard {
			continue
		}
		if res.OverBudget() {
			res.Cap("time budget hit; sequences are enumerated shortest first")
			return
		}
		viol := func(sig, detail string) {
			res.Violate("C06/ttl:"+sig, fmt.Sprintf("%s  [events %v]", detail, names), map[string]any{"ttl_events": names})
		}
		x := runExec(job, frozen, func(x *Exec) {
			vnet.Window = 65536
			L := x.Start("L", x.dir+"/L", 9001, nil)
			lc := x.Dial(L.Addr)
			lc.Do("SET", "lk", "base", "POINT", "1", "1")
			F := x.Start("F", x.dir+"/F", 9002, nil)
			fc := x.Dial(F.Addr)
			if rep := fc.Do("FOLLOW", "127.0.0.1", "9001"); rep.String() != "+OK" {
				viol("follow", "FOLLOW replied "+rep.String())
				return
			}
			caught := func() bool {
				for i := 0; i < 300; i++ {
					vsched.Sleep(int64(100 * stdtime.Millisecond))
					if followerCaughtUp(fc) {
						return true
					}
				}
				return false
			}
			if !caught() {
				viol("never-caught-up", "the follower did not report caught_up at the start")
				return
			}
			leader := func(ev string) {
				switch ev {
				case "T":
					lc.Do("SET", "lk", "t", "EX", "0.5", "FIELD", "n", "1", "POINT", "2", "2")
				case "P":
					lc.Do("PERSIST", "lk", "t")
				case "X":
					lc.Do("EXPIRE", "lk", "t", "100")
				case "S":
					lc.Do("SET", "lk", "t", "FIELD", "n", "2", "POINT", "3", "3")
				case "C":
					lc.Do(append([]string{"SETCHAN", "lc", "EX", "0.5"}, fence...)...)
				case "H":
					lc.Do(append([]string{"SETCHAN", "lc"}, fence...)...)
				}
			}
			for _, ev := range names {
				switch {
				case ev == "A":
					vsched.Sleep(int64(600 * stdtime.Millisecond))
				case ev == "R": // the follower process stops and starts again on its own log
					fc.Close()
					F.StopProcess()
					F = x.Start("F", x.dir+"/F", 9002, nil)
					fc = x.Dial(F.Addr)
				case ev == "K":
					for _, c := range vnet.All {
						if c.Owner == "F" && !c.Closed() {
							c.Kill()
						}
					}
				case ev[0] == 'p':
					vsched.Paused["F"] = true
					leader(ev[1:])
					vsched.Sleep(int64(600 * stdtime.Millisecond))
					vsched.Paused["F"] = false
				default:
					leader(ev)
				}
				vsched.Sleep(int64(20 * stdtime.Millisecond))
			}
			if !caught() {
				viol("never-caught-up", fmt.Sprintf("the follower did not report caught_up within 30 virtual seconds; SERVER: %v", asMap(fc.Do("SERVER"))))
				return
			}
			vsched.Sleep(int64(2500 * stdtime.Millisecond)) // every 0.5 s deadline has passed, sweepers have run, the log buffer was flushed (1 s period) and streamed
			vsched.Quiesce()
			if !followerCaughtUp(fc) {
				// a reconnect is in progress: wait for it
				if !caught() {
					viol("never-caught-up", "the follower lost caught_up for good")
					return
				}
				vsched.Sleep(int64(300 * stdtime.Millisecond))
				vsched.Quiesce()
			}
			ld, fd := fullDump(lc), fullDump(fc)
			if ld != fd {
				viol("dataset-differs", fmt.Sprintf("follower reports caught_up; leader: %s ; follower: %s", vclip(ld, 300), vclip(fd, 300)))
			}
			res.DistinctS("ttl" + fmt.Sprint(names) + ld)
		})
		if len(x.Crashes) > 0 {
			viol("server-crash", x.Crashes[0].Thread+": "+x.Crashes[0].Value)
		} else if x.Err != "" {
			viol("hang", x.Err)
		}
		res.Evaluations++
		res.Transitions += len(seq) + 1
		res.Validated++
	}
	res.States += len(seqs)
	res.Bounds["ttl_depth"] = depth
	res.Bounds["ttl_events"] = c06TTLEvents
}
