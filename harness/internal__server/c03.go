//go:build verif

package server

// C03 - restart reproduces exactly the acknowledged state.
//
// SEQ+FAULT: BFS over histories of data-modifying commands of every kind
// (keyspace commands, hook / channel commands, scripts, expirations through a
// virtual-time advance).  For every edge, on the real server:
//   (a) a command that changed the visible state must have changed the log;
//   (b) clean stop + restart on the same directory gives the same dump;
//   (c) for EVERY file-operation boundary k of the last command and of the
//       shutdown, a server started on the directory as of k recovers either the
//       state before or after the command (never a partial one), and the state
//       after it once the command was acknowledged.
// The oracle is differential (dump before stop vs after restart); the reference
// model only enumerates and deduplicates histories.

import (
	"os"
	"fmt"
	"path/filepath"
	"strconv"
	"strings"
	stdtime "time"

	"github.com/tidwall/tile38/internal/vshim/vos"
	"github.com/tidwall/tile38/internal/vshim/vsched"
)

func init() { checks["c03"] = checkC03 }

const (
	c03Script2Sets = `tile38.call('SET','k1','s1','POINT',1,1); return tile38.call('SET','k2','s2','STRING','v')`
	c03ScriptMix   = `tile38.call('FSET','k1','a','f',9); return tile38.call('DEL','k1','b')`
)

func c03Alphabet(tier string) []seqSym {
	fenceA := []string{"NEARBY", "k9", "FENCE", "POINT", "50", "50", "100"}
	fenceB := []string{"WITHIN", "k9", "FENCE", "DETECT", "enter,exit", "BOUNDS", "50", "50", "51", "51"}
	a := []seqSym{
		sy("SET", "k1", "a", "POINT", "1", "2"),
		sy("SET", "k1", "b", "STRING", `{"x":1}`),
		sy("SET", "k1", "b", "OBJECT", gFeature),
		sy("SET", "k1", "a", "FIELD", "f", "1", "FIELD", "g", "str", "POINT", "1", "2"),
		sy("SET", "k1", "a", "EX", "100", "POINT", "1", "2"),
		sy("SET", "k1", "c", "EX", "1", "POINT", "7", "7"),
		sy("SET", "k2", "a", "BOUNDS", "1", "2", "3", "4"),
		sy("FSET", "k1", "a", "f", "2"),
		sy("DEL", "k1", "a"),
		sy("PDEL", "k1", "*"),
		sy("DROP", "k1"),
		sy("RENAME", "k1", "k2"),
		sy("RENAMENX", "k1", "k3"),
		sy("FLUSHDB"),
		sy("EXPIRE", "k1", "a", "100"),
		sy("PERSIST", "k1", "a"),
		sy("JSET", "k1", "b", "x", "2"),
		sy("JSET", "k1", "b", "properties.p", "5"),
		sy("JDEL", "k1", "b", "x"),
		sy("JDEL", "k1", "b", "properties.n"),
		sy(append([]string{"SETHOOK", "hk1", "http://127.0.0.1:1/x"}, fenceA...)...),
		sy(append([]string{"SETHOOK", "hk1", "http://127.0.0.1:1/x"}, fenceB...)...),
		sy(append([]string{"SETCHAN", "ch1", "META", "m", "v", "EX", "100"}, fenceA...)...),
		sy(append([]string{"SETCHAN", "ch2", "EX", "1"}, fenceB...)...),
		sy("DELHOOK", "hk1"),
		sy("PDELHOOK", "h*"),
		sy("DELCHAN", "ch1"),
		sy("PDELCHAN", "c*"),
		{Name: "EVAL two SETs", Args: []string{"EVAL", c03Script2Sets, "0"},
			Model: [][]string{{"SET", "k1", "s1", "POINT", "1", "1"}, {"SET", "k2", "s2", "STRING", "v"}}},
		{Name: "EVALNA two SETs", Args: []string{"EVALNA", c03Script2Sets, "0"},
			Model: [][]string{{"SET", "k1", "s1", "POINT", "1", "1"}, {"SET", "k2", "s2", "STRING", "v"}}},
		{Name: "EVAL FSET+DEL", Args: []string{"EVAL", c03ScriptMix, "0"},
			Model: [][]string{{"FSET", "k1", "a", "f", "9"}, {"DEL", "k1", "b"}}},
		sy("@ADVANCE", "2"),
		// an object past its deadline that the sweeper has not removed yet (ticks every 200 ms)
		sy("SET", "k1", "d", "EX", "0.05", "POINT", "7", "7"),
		sy("@ADVANCE", "0.07"),
		sy("SET", "k1", "d", "NX", "POINT", "8", "8"),
		// further writes made from scripts
		{Name: "EVALNA PERSIST", Args: []string{"EVALNA", "return tile38.call('PERSIST','k1','a')", "0"}, Model: [][]string{{"PERSIST", "k1", "a"}}},
		{Name: "EVAL EXPIRE", Args: []string{"EVAL", "return tile38.call('EXPIRE','k1','a',100)", "0"}, Model: [][]string{{"EXPIRE", "k1", "a", "100"}}},
		{Name: "EVALNA DROP+RENAME", Args: []string{"EVALNA", "tile38.call('DROP','k2'); return tile38.pcall('RENAME','k1','k2')", "0"}, Model: [][]string{{"DROP", "k2"}, {"RENAME", "k1", "k2"}}},
	}
	// a JSON document with a deadline, and JSET / JDEL that leave its text unchanged
	a = append(a,
		sy("SET", "k1", "b", "EX", "100", "STRING", `{"x":1}`),
		sy("JSET", "k1", "b", "x", "1"),
		sy("JDEL", "k1", "b", "nosuch"),
	)
	// writes wrapped in TIMEOUT
	a = append(a,
		seqSym{Name: "TIMEOUT 10 SET k1 a", Args: []string{"TIMEOUT", "10", "SET", "k1", "a", "FIELD", "f", "3", "POINT", "4", "4"}, Model: [][]string{{"SET", "k1", "a", "FIELD", "f", "3", "POINT", "4", "4"}}},
		seqSym{Name: "TIMEOUT 10 DEL k1 a", Args: []string{"TIMEOUT", "10", "DEL", "k1", "a"}, Model: [][]string{{"DEL", "k1", "a"}}},
		seqSym{Name: "TIMEOUT 10 EVAL", Args: []string{"TIMEOUT", "10", "EVAL", c03ScriptMix, "0"}, Model: [][]string{{"FSET", "k1", "a", "f", "9"}, {"DEL", "k1", "b"}}},
	)
	// a collection larger than one scan batch of the log rewrite, and the rewrite itself
	fill := seqSym{Name: "@FILL k1 f00..f39", Args: []string{"@FILL", "k1", "40"}}
	for i := 0; i < 40; i++ {
		fill.Model = append(fill.Model, []string{"SET", "k1", fmt.Sprintf("f%02d", i), "POINT", "1", fmt.Sprint(i)})
	}
	a = append(a, fill, seqSym{Name: "AOFSHRINK", Args: []string{"AOFSHRINK"}, Model: [][]string{}})
	// a JSET that is refused (empty path) on a key that does not exist yet: nothing may remain
	a = append(a, seqSym{Name: "JSET k7 x <empty path> 1", Args: []string{"JSET", "k7", "x", "", "1"}, Model: [][]string{}})
	// a channel whose filter names a loaded script by its sha (SCRIPT LOAD first, then SETCHAN ... WHEREEVALSHA)
	shaChan := []string{"SETCHAN", "chsha", "WITHIN", "k9", "WHEREEVALSHA", Sha1Sum(c03FilterScript), "0", "FENCE", "BOUNDS", "50", "50", "51", "51"}
	a = append(a, seqSym{Name: "@SHACHAN SCRIPT LOAD + SETCHAN chsha ... WHEREEVALSHA", Args: append([]string{"@SHACHAN"}, shaChan...), Model: [][]string{shaChan}})
	return a
}

// c03Apply performs one symbol on the live server.
const c03FilterScript = "return FIELDS.speed ~= nil and FIELDS.speed > 10"

func c03Apply(c *Cli, sym seqSym) rv {
	if sym.Args[0] == "@ADVANCE" {
		sec, _ := strconv.ParseFloat(sym.Args[1], 64)
		vsched.Sleep(int64(sec * float64(stdtime.Second)))
		vsched.Quiesce()
		return rv{K: '+', S: "advanced"}
	}
	if sym.Args[0] == "@FILL" {
		var last rv
		for _, cmd := range sym.Model {
			last = c.Do(cmd...)
		}
		return last
	}
	if sym.Args[0] == "@SHACHAN" {
		c.Do("SCRIPT", "LOAD", c03FilterScript)
		return c.Do(sym.Args[1:]...)
	}
	if sym.Args[0] == "AOFSHRINK" {
		r := c.Do("AOFSHRINK")
		vsched.Quiesce() // the rewrite never sleeps: it has finished when nothing is runnable
		return r
	}
	return c.Do(sym.Args...)
}

func fullDump(c *Cli) string {
	d, err := serverCanon(c)
	if err != nil {
		return "DUMP-ERROR " + err.Error()
	}
	return d + " HOOKS=" + c.Do("HOOKS", "*").String() + " CHANS=" + c.Do("CHANS", "*").String()
}

func checkC03(job *Job, res *Result) {
	res.Rule = "SEQ+FAULT: BFS over histories of data-modifying commands (keyspace, hooks/channels, scripts, expiry by virtual-time advance) deduplicated on the reference model; per edge: logged-iff-changed, clean restart equivalence, and recovery from the directory as of EVERY file-operation boundary of the last command and of the shutdown, plus a crash inside the append of the last command (all but its last byte written) followed by a restart, one short write and another restart; plus logs of 80 / 180 KiB restarted three times without a crash, with and without a read-only AOFMD5 and a write in between; distinct = distinct (state after, crash index class) observations"
	res.Assumptions = append(res.Assumptions,
		"a process kill leaves exactly the completed file operations; torn writes are C04, power loss is outside the property",
		"backgroundExpiring and backgroundSyncAOF run (virtual time); other polling loops frozen: they do not touch the dataset or the log",
		"hook endpoints are never contacted: fences sit on key k9 which no command writes")
	depth := 3
	if d, ok := job.Params["depth"].(float64); ok {
		depth = int(d)
	}
	alpha := c03Alphabet(job.Tier)
	owned := map[string]bool{}
	nEdges, nCrash := 0, 0
	stop := false
	var wantPath []string
	if job.Replay != nil {
		var r struct {
			Path []string `json:"path"`
		}
		mustJSON(job.Replay, &r)
		wantPath = r.Path
	}
	names := func(idx []int) []string {
		out := make([]string, len(idx))
		for i, k := range idx {
			out[i] = alpha[k].Name
		}
		return out
	}
	total := seqEnumerate(alpha, depth, func(e seqEdge, src, dst *mState) {
		if stop || int(fnv(e.Dst)%uint64(job.NShards)) != job.Shard {
			return
		}
		full := append(names(e.Path), alpha[e.Sym].Name)
		if wantPath != nil && strings.Join(full, "\n") != strings.Join(wantPath, "\n") {
			return
		}
		if res.OverBudget() {
			res.Cap(fmt.Sprintf("time budget hit at depth %d; all shallower edges were executed", len(e.Path)+1))
			stop = true
			return
		}
		nEdges++
		owned[e.Dst] = true
		sym := alpha[e.Sym]
		cmdName := strings.ToLower(strings.Fields(sym.Name)[0])
		viol := func(sig, detail string) {
			res.Violate("C03/"+sig, detail+"  [history: "+strings.Join(full, " ; ")+"]", map[string]any{"path": full})
		}
		x := runExec(job, freezeAllBut("backgroundExpiring", "backgroundSyncAOF"), func(x *Exec) {
			dir := x.dir + "/L"
			aof := filepath.Clean(filepath.Join(dir, "appendonly.aof"))
			in := x.Start("L", dir, 9001, nil)
			c := x.Dial(in.Addr)
			for _, k := range e.Path {
				c03Apply(c, alpha[k])
			}
			d0 := fullDump(c)
			k0 := len(vos.Log)
			a0 := string(vos.Image(k0)[aof])
			rep := c03Apply(c, sym)
			kAck := len(vos.Log)
			d1 := fullDump(c)
			a1 := string(vos.Image(len(vos.Log))[aof])
			acked := sym.Args[0] != "@ADVANCE" && !rep.IsErr() && rep.K != '!'
			if d1 != d0 && a1 == a0 && acked {
				viol("unlogged:"+cmdName, fmt.Sprintf("%s (reply %s) changed the visible state but nothing was appended to the log; before=%q after=%q", sym.Name, rep, d0, d1))
			}
			c.Close()
			in.Stop()
			kStop := len(vos.Log)
			// (b) clean restart
			in2, serr := x.TryStart("L2", dir, 9002, nil)
			if serr != nil {
				viol("restart-fails:"+cmdName, fmt.Sprintf("the server does not start on its own data directory after a clean stop: %v", serr))
				return
			}
			c2 := x.Dial(in2.Addr)
			d2 := fullDump(c2)
			c2.Close()
			in2.Stop()
			if d2 != d1 {
				viol("restart:"+cmdName, fmt.Sprintf("state after clean restart differs: before stop %q, after restart %q", d1, d2))
			}
			res.Distinct(fnv(d1))
			// (c) every file-operation boundary as a crash point
			for k := k0; k <= kStop; k++ {
				if sym.Args[0] == "@FILL" {
					break // 40 commands, not one: a crash in between legitimately leaves a prefix of them
				}
				cd := fmt.Sprintf("%s/crash%d", x.dir, k)
				if err := vos.Materialise(k, dir, cd); err != nil {
					panic(err)
				}
				nCrash++
				in3, err := x.TryStart(fmt.Sprintf("K%d", k), cd, 9100+k-k0, nil)
				if err != nil {
					viol("crash-recovery-fails:"+cmdName, fmt.Sprintf("server does not start on the directory as of file operation %d/%d (%s): %v", k, kStop, opDesc(k), err))
					continue
				}
				c3 := x.Dial(in3.Addr)
				d3 := fullDump(c3)
				c3.Close()
				in3.Stop()
				switch {
				case d3 == d1:
				case d3 == d0 && (k < kAck || !acked):
				case d3 == d0:
					viol("acked-write-lost-after-crash:"+cmdName, fmt.Sprintf("crash after file operation %d (%s; acknowledged at %d): recovered the state BEFORE the acknowledged command: %q", k, opDesc(k), kAck, d3))
				default:
					viol("partial-after-crash:"+cmdName, fmt.Sprintf("crash after file operation %d (%s): recovered %q which is neither the state before (%q) nor after (%q)", k, opDesc(k), d3, d0, d1))
				}
				res.Distinct(fnv(fmt.Sprintf("%s|%v", d3, k < kAck)))
			}
			// (d) the process dies INSIDE the append of this command (all but its last
			// byte reached the file), restarts, acknowledges one short write and is
			// restarted again: it must come up, with the state it served
			if strings.HasPrefix(a1, a0) && len(a1)-len(a0) > 60 && sym.Args[0] != "@FILL" {
				cd := fmt.Sprintf("%s/torn", x.dir)
				if err := vos.Materialise(k0, dir, cd); err != nil {
					panic(err)
				}
				if err := os.WriteFile(filepath.Join(cd, "appendonly.aof"), []byte(a1[:len(a1)-1]), 0600); err != nil {
					panic(err)
				}
				nCrash++
				in4, err := x.TryStart("T1", cd, 9300, nil)
				if err != nil {
					viol("crash-recovery-fails:torn-append:"+cmdName, fmt.Sprintf("server does not start on a log whose last command lacks its final byte: %v", err))
					return
				}
				c4 := x.Dial(in4.Addr)
				// (a script or a TIMEOUT-wrapped script appends one record per inner
				// command: a tear in the last one legitimately leaves the earlier ones)
				nrec := 0
				for rest := []byte(a1[len(a0):]); len(rest) > 0; nrec++ {
					_, r2, full, err := parseRESP(rest)
					if err != nil || !full {
						break
					}
					rest = r2
				}
				if d4 := fullDump(c4); d4 != d0 && nrec == 1 {
					viol("partial-after-crash:torn-append:"+cmdName, fmt.Sprintf("a command torn inside its append was applied: recovered %q, state before the command %q", d4, d0))
				}
				r := c4.Do("SET", "tt", "t", "STRING", "x")
				dA := fullDump(c4)
				c4.Close()
				in4.Stop()
				in5, err := x.TryStart("T2", cd, 9301, nil)
				if err != nil {
					viol("second-restart-fails:torn-append:"+cmdName, fmt.Sprintf("after a torn append, a restart, SET tt t STRING x (%s) and a clean stop the server does not start: %v", r, err))
					return
				}
				c5 := x.Dial(in5.Addr)
				dB := fullDump(c5)
				c5.Close()
				in5.Stop()
				if dB != dA {
					viol("restart:torn-append:"+cmdName, fmt.Sprintf("after a torn append, a restart and one acknowledged write: served %q, after the next restart %q", dA, dB))
				}
			}
		})
		if len(x.Crashes) > 0 {
			viol("server-crash:"+cmdName, fmt.Sprintf("server thread %s panicked: %s", x.Crashes[0].Thread, x.Crashes[0].Value))
		} else if x.Err != "" {
			viol("hang:"+cmdName, x.Err)
		}
		if nEdges == 1 || nEdges == 500 {
			res.Sample(map[string]any{"history": full, "model_state_after": e.Dst})
		}
	})
	if job.Shard == 0 && job.Replay == nil {
		c03LargeLog(job, res)
	}
	res.Transitions += nEdges
	res.Evaluations += nEdges + nCrash
	res.Validated += nEdges
	res.States += len(owned)
	res.Bounds["depth"] = depth
	res.Bounds["alphabet"] = len(alpha)
	res.Bounds["model_states_total"] = total
	res.Extra["crash_points"] = nCrash
}

func opDesc(k int) string {
	if k == 0 || k > len(vos.Log) {
		return "start"
	}
	o := vos.Log[k-1]
	return fmt.Sprintf("%s %s", o.Kind, filepath.Base(o.Name+o.Name2))
}

// c03LargeLog: logs longer than the loader's 64 KiB read block (a block boundary
// falls inside a command), restarted three times without any crash: the dataset
// and the log file stay what they were, and a read-only AOFMD5 in between
// changes nothing either.
func c03LargeLog(job *Job, res *Result) {
	for _, n := range []int{1100, 2500} {
		for _, md5 := range []bool{false, true} {
			n, md5 := n, md5
			viol := func(sig, detail string) {
				res.Violate("C03/large-log:"+sig, fmt.Sprintf("%s  [%d SETs, AOFMD5 in between: %v]", detail, n, md5), map[string]any{"large_log": n, "aofmd5": md5})
			}
			x := runExec(job, freezeAllBut("backgroundSyncAOF"), func(x *Exec) {
				dir := x.dir + "/L"
				aof := filepath.Clean(filepath.Join(dir, "appendonly.aof"))
				in := x.Start("L", dir, 9001, nil)
				c := x.Dial(in.Addr)
				for i := 0; i < n; i++ {
					c.Do("SET", "big", fmt.Sprintf("object-number-%05d", i), "FIELD", "f", fmt.Sprint(i), "POINT", fmt.Sprint(i%90), fmt.Sprint(i%180))
				}
				want := fullDump(c)
				c.Close()
				in.Stop()
				size0 := len(vos.Image(len(vos.Log))[aof])
				for life := 1; life <= 3; life++ {
					inN, err := x.TryStart(fmt.Sprintf("L%d", life), dir, 9001+life, nil)
					if err != nil {
						viol("restart-fails", fmt.Sprintf("restart %d of an intact %d-byte log fails: %v", life, size0, err))
						return
					}
					cn := x.Dial(inN.Addr)
					if got := fullDump(cn); got != want {
						viol("restart-differs", fmt.Sprintf("after restart %d the dataset differs (%d vs %d bytes of dump)", life, len(got), len(want)))
					}
					if md5 {
						// a read-only look at the middle of the log, then one more write
						if r := cn.Do("AOFMD5", "100", "1000"); r.IsErr() {
							viol("aofmd5", "AOFMD5 100 1000 replied "+r.String())
						}
						cn.Do("SET", "big", fmt.Sprintf("after-md5-%d", life), "POINT", "1", "1")
						want = fullDump(cn)
					}
					cn.Close()
					inN.Stop()
					size := len(vos.Image(len(vos.Log))[aof])
					if !md5 && size != size0 {
						viol("file-changed-by-clean-restart", fmt.Sprintf("the log held %d bytes, after restart %d (no write in between) it holds %d", size0, life, size))
					}
					res.Evaluations++
					res.DistinctS(fmt.Sprint("largelog", n, md5, life))
				}
			})
			if x.Err != "" || len(x.Crashes) > 0 {
				viol("hang-or-crash", fmt.Sprint(x.Err, x.Crashes))
			}
		}
	}
}
