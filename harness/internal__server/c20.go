//go:build verif

package server

// C20 - roaming geofences report exactly the neighbours inside the radius.
//
// SEQ over configurations: neighbour placements (same point, 500 m, 990 m,
// 1010 m, the corner of the search rectangle at ~1400 m, 3000 m) x id pattern
// x NODWELL x movement histories of 1-3 moves; channel, live and webhook
// receivers.  Oracle: haversine distances computed in the harness.

import (
	"fmt"
	"math"
	"regexp"
	"sort"
	"strconv"
	"strings"
	stdtime "time"

	"github.com/tidwall/tile38/internal/vshim/vsched"
)

func init() { checks["c20"] = checkC20 }

const c20R = 6371e3 // sphere radius used by the documentation's "meters"

func hav(lat1, lon1, lat2, lon2 float64) float64 {
	r := math.Pi / 180
	dlat, dlon := (lat2-lat1)*r, (lon2-lon1)*r
	a := math.Sin(dlat/2)*math.Sin(dlat/2) + math.Cos(lat1*r)*math.Cos(lat2*r)*math.Sin(dlon/2)*math.Sin(dlon/2)
	return 2 * c20R * math.Asin(math.Min(1, math.Sqrt(a)))
}

type c20Pt struct{ Lat, Lon float64 }

func mToDeg(m float64) float64 { return m / (c20R * math.Pi / 180) }

var c20Neigh = map[string]c20Pt{
	"nA": {0, 0},
	"nB": {0, mToDeg(500)},
	"nC": {0, mToDeg(990)},
	"nD": {0, mToDeg(1010)},
	"nE": {mToDeg(990), mToDeg(990)}, // inside the search rectangle, outside the circle
	"nF": {0, mToDeg(3000)},
	"xG": {0, mToDeg(300)}, // an id the n* pattern does not match
	"m":  {0, mToDeg(400)}, // the id of the moving object, in another collection
	"rH": {0, mToDeg(300)}, // a 3 km square whose centre is 300 m away: larger than the search rectangle
	"rI": {mToDeg(600), mToDeg(600)},
}

var c20Pos = map[string]c20Pt{
	"T":   {0, 0},
	"T2":  {0, -mToDeg(200)},
	"T3":  {0, mToDeg(1500)}, // a jump of 1.5 radii: the old and the new circle still overlap
	"Far": {0, mToDeg(10000)},
}

var reRoam = regexp.MustCompile(`"(nearby|faraway)":\{"key":"[^"]*","id":"([^"]*)".*?"meters":([0-9.eE+-]+)`)

type c20Config struct {
	// Region: where the whole configuration sits: "" = around (0,0); "antimeridian"
	// = the same offsets around lon 180 (neighbours on both sides of +-180);
	// "pole" = around lat 89.995 (the radius circle covers the pole)
	Region  string   `json:"region,omitempty"`
	RoamKey string   `json:"roam_key"`
	Neigh   []string `json:"neighbours"`
	Pattern string   `json:"pattern"`
	NoDwell bool     `json:"nodwell"`
	Moves   []string `json:"moves"`
}

func checkC20(job *Job, res *Result) {
	res.Rule = "SEQ over configurations: 1-2 (thorough 1-3) neighbours out of 7 placements x id pattern {*, exact, n*, non-matching, [nx]?, ?B} x NODWELL x all move histories of length 1-2 (thorough 1-3) over {T, T2 (200 m away), Far, and moves preceded by DROP+re-add / RENAME cycle / delete-all+mirror of the roamed collection}, repeated positions included, roamed key = fenced key or a separate key; the plain configurations repeated around the antimeridian and next to the pole; a ROAM pattern naming the moving object itself; histories in which the moving object holds a string first / in between; a neighbour in another collection sharing the moving object's id; 4 histories of 104-106 moves on one fence (more notifications than the default LIMIT of a search); receivers channel + live + webhook; expected nearby/faraway sets and metres from haversine distances; distinct = distinct (configuration, expected message list)"
	res.Assumptions = append(res.Assumptions, "metres are compared with a relative tolerance of 1e-6 + 2 mm (sphere of radius 6371 km)")
	names := []string{"nA", "nB", "nC", "nD", "nE", "nF", "xG"}
	maxN, maxMoves := 2, 2
	if job.Tier == "thorough" {
		maxN, maxMoves = 3, 3
	}
	var subsets [][]string
	var rec func(start int, cur []string)
	rec = func(start int, cur []string) {
		if len(cur) > 0 {
			subsets = append(subsets, append([]string(nil), cur...))
		}
		if len(cur) == maxN {
			return
		}
		for i := start; i < len(names); i++ {
			rec(i+1, append(cur, names[i]))
		}
	}
	rec(0, nil)
	var hists [][]string
	var gen func(cur []string)
	gen = func(cur []string) {
		if len(cur) > 0 {
			hists = append(hists, append([]string(nil), cur...))
		}
		if len(cur) == maxMoves {
			return
		}
		for _, p := range []string{"T", "T2", "T3", "Far", "T+drop-readd", "T2+rename-cycle", "T+swap"} {
			if strings.Contains(p, "+") && len(cur) == 0 {
				continue // collection events only after the fence has fired once
			}
			gen(append(cur, p))
		}
	}
	gen(nil)
	var cfgs []c20Config
	for _, ns := range subsets {
		for _, pat := range []string{"*", "nB", "n*", "zz*", "[nx]?", "?B", "m"} { // "m" = the exact id of the moving object itself
			for _, nd := range []bool{false, true} {
				for _, h := range hists {
					events := strings.Contains(strings.Join(h, " "), "+")
					if !events {
						cfgs = append(cfgs, c20Config{"", "fleet", ns, pat, nd, h})
					}
					if events || len(ns) == 1 {
						// the roamed collection is a different key (collection events only make sense there)
						cfgs = append(cfgs, c20Config{"", "others", ns, pat, nd, h})
					}
				}
			}
		}
	}
	// the plain configurations again, around the antimeridian and next to the pole
	nplain := len(cfgs)
	for _, region := range []string{"antimeridian", "pole"} {
		for _, cf := range cfgs[:nplain] {
			if cf.RoamKey != "fleet" || cf.Pattern != "*" || cf.NoDwell || len(cf.Moves) > 2 {
				continue
			}
			cf.Region = region
			cfgs = append(cfgs, cf)
		}
	}
	// long histories on one fence: more notifications than the default LIMIT (100) of a search
	var long []string
	for i := 0; i < 104; i++ {
		long = append(long, []string{"T", "T2"}[i%2])
	}
	long = append(long, "Far", "T")
	for _, rk := range []string{"fleet", "others"} {
		for _, nd := range []bool{false, true} {
			h := long
			if nd {
				// NODWELL reports only the first sighting: leave and return each time
				h = nil
				for i := 0; i < 104; i++ {
					h = append(h, []string{"T", "Far"}[i%2])
				}
			}
			cfgs = append(cfgs, c20Config{"", rk, []string{"nA", "nC"}, "*", nd, h})
		}
	}
	// the moving object held a string before / in between (a string has no position: nothing was near it)
	for _, rk := range []string{"fleet", "others"} {
		for _, h := range [][]string{{"Str", "Far"}, {"Str", "T"}, {"T", "Str", "Far"}, {"Far", "Str", "T"}, {"T", "Str", "T2"}} {
			for _, ns := range [][]string{{"nA"}, {"nA", "nF"}, {"nB", "nD"}} {
				cfgs = append(cfgs, c20Config{"", rk, ns, "*", false, h})
			}
		}
	}
	// extended neighbours that stick out of the 2R x 2R search rectangle
	for _, rk := range []string{"fleet", "others"} {
		for _, h := range [][]string{{"T"}, {"T", "Far"}, {"T", "T2"}, {"Far", "T", "T3"}} {
			for _, ns := range [][]string{{"rH"}, {"rH", "nB"}, {"rI", "rH"}} {
				cfgs = append(cfgs, c20Config{"", rk, ns, "*", false, h})
			}
		}
	}
	// a neighbour in ANOTHER collection that happens to share the moving object's id
	for _, h := range [][]string{{"T"}, {"T", "Far"}, {"T", "T2"}} {
		cfgs = append(cfgs, c20Config{"", "others", []string{"m", "nB"}, "*", false, h})
	}
	var only *c20Config
	if job.Replay != nil {
		only = &c20Config{}
		mustJSON(job.Replay, only)
	}
	ep := newFakeEndpoint(nil)
	defer ep.Close()
	for ci, cfg := range cfgs {
		if only != nil {
			if fmt.Sprint(*only) != fmt.Sprint(cfg) {
				continue
			}
		} else if ci%job.NShards != job.Shard {
			continue
		}
		if res.OverBudget() {
			res.Cap("time budget hit")
			break
		}
		cfg := cfg
		viol := func(sig, detail string) {
			res.Violate("C20/"+sig, fmt.Sprintf("%s  [region %q, roamed key %s, neighbours %v, ROAM pattern %q, nodwell=%v, moves %v]", detail, cfg.Region, cfg.RoamKey, cfg.Neigh, cfg.Pattern, cfg.NoDwell, cfg.Moves), cfg)
		}
		x := runExec(job, freezeAllBut("manager"), func(x *Exec) {
			in := x.Start("L", x.dir+"/L", 9001, nil)
			c := x.Dial(in.Addr)
			rkey := cfg.RoamKey
			// current neighbour positions (collection events may move them)
			place := func(q c20Pt) c20Pt {
				switch cfg.Region {
				case "antimeridian":
					q.Lon += 180
					if q.Lon > 180 {
						q.Lon -= 360
					}
				case "pole":
					// lon offsets become bearings around the pole (x 5000: 0.0045 deg -> 22 deg)
					q.Lat, q.Lon = 89.995-q.Lat, math.Mod(q.Lon*5000, 360)
					if q.Lon > 180 {
						q.Lon -= 360
					}
					if q.Lon < -180 {
						q.Lon += 360
					}
				}
				return q
			}
			pos := map[string]c20Pt{}
			for _, n := range cfg.Neigh {
				pos[n] = place(c20Neigh[n])
			}
			putAll := func(key string) {
				for _, n := range cfg.Neigh {
					if strings.HasPrefix(n, "r") {
						// an extended neighbour: a square of 3 km around its centre (distances are centre to centre)
						h := mToDeg(1500)
						c.Do("SET", key, n, "BOUNDS", fnum(pos[n].Lat-h), fnum(pos[n].Lon-h), fnum(pos[n].Lat+h), fnum(pos[n].Lon+h))
						continue
					}
					c.Do("SET", key, n, "POINT", fnum(pos[n].Lat), fnum(pos[n].Lon))
				}
			}
			putAll(rkey)
			fence := []string{"NEARBY", "fleet", "MATCH", "m", "FENCE"}
			if cfg.NoDwell {
				fence = append(fence, "NODWELL")
			}
			fence = append(fence, "ROAM", rkey, cfg.Pattern, "1000")
			if r := c.Do(append([]string{"SETCHAN", "rch"}, fence...)...); r.IsErr() {
				viol("setchan", r.String())
				return
			}
			c.Do(append([]string{"SETHOOK", "rhk", ep.URL()}, fence...)...)
			sub := x.Dial(in.Addr)
			sub.Send(respCmd("SUBSCRIBE", "rch"))
			live := x.Dial(in.Addr)
			live.Send(respCmd(fence...))
			vsched.Quiesce()
			recvPayloads(sub)
			recvPayloads(live)
			hookSeen := len(ep.OK())
			var prev *c20Pt
			for mi, mv := range cfg.Moves {
				if i := strings.Index(mv, "+"); i >= 0 {
					// something happens to the roamed collection between two moves; what was
					// near before is judged on the positions at the time of the previous move
					switch mv[i+1:] {
					case "drop-readd":
						c.Do("DROP", rkey)
						putAll(rkey)
					case "rename-cycle":
						c.Do("RENAME", rkey, "tmpkey")
						c.Do("RENAME", "tmpkey", rkey)
					case "swap":
						// every neighbour is deleted (the collection vanishes) and comes back mirrored to the west
						for _, n := range cfg.Neigh {
							c.Do("DEL", rkey, n)
						}
						for _, n := range cfg.Neigh {
							q := pos[n]
							pos[n] = c20Pt{q.Lat, -q.Lon}
						}
						putAll(rkey)
					}
					vsched.Quiesce()
					recvPayloads(sub)
					recvPayloads(live)
					hookSeen = len(ep.OK())
					mv = mv[:i]
				}
				if mv == "Str" {
					// the moving object is overwritten by a string: it has no position any more
					c.Do("SET", "fleet", "m", "STRING", "not a position")
					vsched.Quiesce()
					vsched.Sleep(int64(300 * stdtime.Millisecond))
					vsched.Quiesce()
					for recv, msgs := range map[string][]string{"channel": recvPayloads(sub), "live": recvPayloads(live), "webhook": ep.OK()[hookSeen:]} {
						for _, raw := range msgs {
							if strings.Contains(raw, `"detect":"roam"`) {
								viol("roam-message-for-a-string", fmt.Sprintf("move %d: SET fleet m STRING: %s received %s", mi, recv, vclip(raw, 200)))
							}
						}
					}
					hookSeen = len(ep.OK())
					prev = nil
					continue
				}
				p := place(c20Pos[mv])
				c.Do("SET", "fleet", "m", "POINT", fnum(p.Lat), fnum(p.Lon))
				vsched.Quiesce()
				// expected
				type ent struct {
					kind, id string
					m        float64
				}
				var want []ent
				for _, n := range cfg.Neigh {
					if !mGlob(cfg.Pattern, n) {
						continue
					}
					q := pos[n]
					dNew := hav(p.Lat, p.Lon, q.Lat, q.Lon)
					wasIn := false
					if prev != nil {
						// "within the radius before" is evaluated as the server does: the
						// previous position of the moving object against the neighbour's CURRENT position
						wasIn = hav(prev.Lat, prev.Lon, q.Lat, q.Lon) <= 1000
					}
					if dNew <= 1000 {
						if !(cfg.NoDwell && wasIn) {
							want = append(want, ent{"nearby", n, dNew})
						}
					} else if wasIn {
						want = append(want, ent{"faraway", n, dNew})
					}
				}
				sort.Slice(want, func(i, j int) bool {
					if want[i].kind != want[j].kind {
						return want[i].kind > want[j].kind // nearby before faraway
					}
					return want[i].id < want[j].id
				})
				vsched.WaitUntilOr(func() bool { return len(ep.OK())-hookSeen >= len(want) }, int64(2*stdtime.Second))
				vsched.Quiesce()
				okb := ep.OK()
				got := map[string][]string{"channel": recvPayloads(sub), "live": recvPayloads(live), "webhook": okb[hookSeen:]}
				hookSeen = len(okb)
				var wantS []string
				for _, e := range want {
					wantS = append(wantS, e.kind+":"+e.id)
				}
				for _, recv := range []string{"channel", "live", "webhook"} {
					var ents []ent
					for _, raw := range got[recv] {
						for _, mm := range reRoam.FindAllStringSubmatch(raw, -1) {
							f, _ := strconv.ParseFloat(mm[3], 64)
							ents = append(ents, ent{mm[1], mm[2], f})
						}
						if !strings.Contains(raw, `"detect":"roam"`) {
							viol("not-a-roam-message", fmt.Sprintf("move %d to %s: %s received %s", mi, mv, recv, vclip(raw, 200)))
						}
					}
					sort.Slice(ents, func(i, j int) bool {
						if ents[i].kind != ents[j].kind {
							return ents[i].kind > ents[j].kind
						}
						return ents[i].id < ents[j].id
					})
					var gotS []string
					for _, e := range ents {
						gotS = append(gotS, e.kind+":"+e.id)
					}
					if strings.Join(gotS, " ") != strings.Join(wantS, " ") {
						// classify the first difference for a specific signature
						sig := "wrong-entries"
						for _, g := range ents {
							found := false
							for _, wv := range want {
								found = found || (wv.kind == g.kind && wv.id == g.id)
							}
							if !found {
								q := pos[g.id]
								d := hav(p.Lat, p.Lon, q.Lat, q.Lon)
								switch {
								case g.kind == "nearby" && d > 1000:
									sig = fmt.Sprintf("nearby-outside-radius:%s", g.id)
								case g.kind == "nearby":
									sig = "nearby-unexpected:" + g.id
								default:
									sig = "faraway-unexpected:" + g.id
								}
								break
							}
						}
						if sig == "wrong-entries" && len(gotS) < len(wantS) {
							sig = "entry-missing"
						}
						viol(sig, fmt.Sprintf("move %d to %s: %s received [%s], haversine distances give [%s]", mi, mv, recv, strings.Join(gotS, " "), strings.Join(wantS, " ")))
						continue
					}
					for i, e := range ents {
						if math.Abs(e.m-want[i].m) > want[i].m*1e-6+0.002 {
							viol("meters", fmt.Sprintf("move %d to %s: %s reports %s %s at %.3f m, true distance %.3f m", mi, mv, recv, e.kind, e.id, e.m, want[i].m))
						}
					}
				}
				res.DistinctS(fmt.Sprint(cfg.Region, cfg.Neigh, cfg.Pattern, cfg.NoDwell, cfg.Moves[:mi+1], wantS))
				pp := p
				prev = &pp
			}
		})
		if len(x.Crashes) > 0 {
			viol("server-crash", x.Crashes[0].Value)
		} else if x.Err != "" {
			viol("hang", x.Err)
		}
		res.Evaluations += len(cfg.Moves)
		res.Transitions += len(cfg.Moves)
		res.Validated += len(cfg.Moves)
		res.States++
		if ci < 2 {
			res.Sample(cfg)
		}
	}
	res.Bounds["configurations"] = len(cfgs)
	if job.Shard == 0 && job.Replay == nil {
		c20Scales(job, res)
	}
}

// c20Scales: the radius on a scale of its own - from a quarter of a metre to 2000 km, one
// neighbour at 0.4 r (reported) and one at 1.5 r (not reported), at three latitudes.
func c20Scales(job *Job, res *Result) {
	for _, r := range []float64{0.1, 0.25, 0.28, 0.3, 1, 25, 1000, 2e6} {
		for _, lat := range []float64{0, 33, 70} {
			r, lat := r, lat
			viol := func(sig, detail string) {
				res.Violate("C20/scale:"+sig, fmt.Sprintf("%s  [radius %g m at latitude %g]", detail, r, lat), map[string]any{"radius": r, "lat": lat})
			}
			x := runExec(job, freezeAllBut(), func(x *Exec) {
				in := x.Start("L", x.dir+"/L", 9001, nil)
				c := x.Dial(in.Addr)
				c.Do("SETCHAN", "roam", "NEARBY", "fleet", "FENCE", "ROAM", "fleet", "*", fnum(r))
				sub := x.Dial(in.Addr)
				sub.Send(respCmd("SUBSCRIBE", "roam"))
				vsched.Quiesce()
				deg := func(m float64) float64 { return m / c20R * 180 / math.Pi }
				c.Do("SET", "fleet", "near", "POINT", fnum(lat+deg(0.4*r)), "-112")
				c.Do("SET", "fleet", "far", "POINT", fnum(lat-deg(1.5*r)), "-112")
				vsched.Quiesce()
				drainMessages(sub)
				c.Do("SET", "fleet", "m", "POINT", fnum(lat), "-112")
				vsched.Quiesce()
				var ids []string
				for _, m := range drainMessages(sub) {
					for _, g := range reRoam.FindAllStringSubmatch(m, -1) {
						ids = append(ids, g[1]+":"+g[2])
					}
				}
				res.Evaluations++
				res.DistinctS(fmt.Sprint("scale", r, lat, ids))
				if strings.Join(ids, " ") != "nearby:near" {
					viol("neighbours", fmt.Sprintf("a neighbour at 0.4 r and one at 1.5 r: the fence reported %v, expected [nearby:near]", ids))
				}
			})
			if len(x.Crashes) > 0 || x.Err != "" {
				viol("hang-or-crash", fmt.Sprint(x.Err, x.Crashes))
			}
		}
	}
}
