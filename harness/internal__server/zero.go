//go:build verif

package server

import "github.com/tidwall/tile38/internal/vshim/vsync"

var syncMutexZero vsync.Mutex
