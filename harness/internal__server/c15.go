//go:build verif

package server

// C15 - follower, read-only, password and protected-mode gates hold for every
// command.
//
// SEQ over the configuration x command matrix: every catalogue command x
// argument shape, directly and wrapped in TIMEOUT / EVAL / EVALRO / EVALNA
// (and over HTTP with / without / with a wrong Authorization header for the
// password modes) x {read-only, follower caught up, follower never caught up,
// password & unauthenticated, wrong password, authenticated, protected-mode
// loopback / non-loopback}.  Self-calibrating: an instance is data-modifying
// iff it changes the internal dump on a plain leader from the same state.

import (
	"encoding/json"
	"fmt"
	"net/url"
	"os"
	"path/filepath"
	"strings"
	stdtime "time"

	"github.com/tidwall/tile38/internal/vshim/vsched"
)

func init() { checks["c15"] = checkC15 }

const c15Marker = "s3cr3t"

type c15Inst struct {
	Cmd     string   // catalogue command name
	Shape   int      // shape index
	Wrapper string   // direct timeout eval evalro evalna
	Args    []string // resolved wire arguments (after sha substitution)
}

func c15Wrap(wrapper string, args []string) []string {
	switch wrapper {
	case "timeout":
		return append([]string{"TIMEOUT", "1"}, args...)
	case "eval", "evalro", "evalna":
		return []string{strings.ToUpper(wrapper), luaCall("call", args), "0"}
	}
	return args
}

func c15Setup(c *Cli) map[string]string {
	sha := catSetup(c)
	c.Do("SET", "k1", c15Marker+"id", "FIELD", "f", "1", "STRING", c15Marker+"value")
	return sha
}

// whether a wrapper makes sense for a command
func c15Wrappable(name, wrapper string) bool {
	if wrapper == "direct" {
		return true
	}
	switch name {
	case "EVAL", "EVALSHA", "EVALRO", "EVALROSHA", "EVALNA", "EVALNASHA", "TIMEOUT", "AUTH", "OUTPUT", "QUIT", "BOGUSCMD", "HELLO", "COMMAND":
		return false
	}
	if wrapper != "timeout" {
		switch name {
		case "PING", "ECHO", "CLIENT", "FOLLOW", "SLAVEOF", "REPLCONF", "AOFSHRINK", "READONLY", "CONFIG GET", "CONFIG SET", "CONFIG REWRITE", "SCRIPT LOAD", "SCRIPT EXISTS", "SCRIPT FLUSH", "PUBLISH", "GC", "AOFMD5":
			return false
		}
	}
	return true
}

var c15ObjectReads = map[string]bool{"GET": true, "FGET": true, "EXISTS": true, "FEXISTS": true, "TTL": true, "TYPE": true, "BOUNDS": true, "KEYS": true, "JGET": true,
	"SCAN": true, "SEARCH": true, "NEARBY": true, "WITHIN": true, "INTERSECTS": true}

var c15Open = map[string]bool{"PING": true, "ECHO": true, "QUIT": true, "OUTPUT": true, "HEALTHZ": true, "AUTH": true}

func isRefusal(v rv) bool {
	// RESP error, closed connection, or (after an OUTPUT json on this connection) a JSON error document
	return v.K == '-' || v.K == '!' || (v.K == '$' && strings.HasPrefix(v.S, `{"ok":false`))
}

func checkC15(job *Job, res *Result) {
	res.Rule = "SEQ over the matrix: catalogue command x shape x wrapper {direct, TIMEOUT, EVAL, EVALRO, EVALNA} (+ HTTP Authorization variants) x mode {READONLY yes, follower caught up, follower never caught up, requirepass unauthenticated, wrong password, connection opened before the password was set, authenticated, protected-mode loopback, protected-mode 192.0.2.7}; 'data-modifying' is calibrated per instance on a plain leader; distinct = distinct (mode, command, wrapper, modifies?, reply class)"
	res.Assumptions = append(res.Assumptions,
		"the dataset is what internalDump covers (collections, indexes, hooks, channels, group maps); CONFIG / READONLY / FOLLOW / SCRIPT LOAD change server settings, not the dataset",
		"object reads and searches = GET FGET EXISTS FEXISTS TTL TYPE BOUNDS KEYS JGET SCAN SEARCH NEARBY WITHIN INTERSECTS")
	repo, _ := job.Params["repo"].(string)
	names, uncat := catalogueNames(repo)
	res.Extra["uncatalogued"] = uncat
	cat := catalogue()
	wrappers := []string{"direct", "timeout", "eval", "evalro", "evalna"}
	// ---- instances of this shard
	var insts []c15Inst
	n := 0
	for _, name := range names {
		for si, shape := range cat[name] {
			n++
			if n%job.NShards != job.Shard {
				continue
			}
			for _, wr := range wrappers {
				if c15Wrappable(name, wr) {
					insts = append(insts, c15Inst{Cmd: name, Shape: si, Wrapper: wr, Args: shape})
				}
			}
		}
	}
	// ---- calibration on a plain leader: fresh server per instance
	modifies := map[int]bool{}
	for i, it := range insts {
		if it.Cmd == "FOLLOW" || it.Cmd == "SLAVEOF" || it.Cmd == "REPLCONF" || it.Cmd == "AOFSHRINK" {
			continue
		}
		it := it
		x := runExec(job, freezeAllBut(), func(x *Exec) {
			in := x.Start("L", x.dir+"/L", 9001, nil)
			c := x.Dial(in.Addr)
			sha := c15Setup(c)
			before, _ := internalDump(in.S)
			c.Do(c15Wrap(it.Wrapper, catSubst(it.Args, sha))...)
			vsched.Quiesce()
			after, _ := internalDump(in.S)
			modifies[i] = before != after
		})
		if x.Err != "" {
			res.EngineError = fmt.Sprintf("calibration %v: %s", it, x.Err)
			return
		}
		res.Evaluations++
	}
	nmod := 0
	for _, m := range modifies {
		if m {
			nmod++
		}
	}
	res.Extra["instances"] = len(insts)
	res.Extra["modifying_instances"] = nmod

	type modeT struct {
		name  string
		start func(x *Exec) (target *Inst, cli func() *Cli)
	}
	viol := func(sig, detail string, it c15Inst, mode string) {
		res.Violate("C15/"+sig, fmt.Sprintf("%s  [mode %s, %s via %s: %v]", detail, mode, it.Cmd, it.Wrapper, it.Args), map[string]any{"mode": mode, "cmd": it.Args, "wrapper": it.Wrapper})
	}
	// population of a directory through a plain leader
	populate := func(x *Exec, dir string, port int) {
		in := x.Start("P", dir, port, nil)
		c := x.Dial(in.Addr)
		c15Setup(c)
		c.Close()
		in.Stop()
	}
	shaOf := func(c *Cli) map[string]string {
		return map[string]string{"@W": Sha1Sum(catScriptW), "@R": Sha1Sum(catScriptR), "@F": Sha1Sum("return FIELDS.f == 1")}
	}
	runMode := func(mode string, frozen func(string) bool, setup func(x *Exec) (*Inst, func() *Cli), judge func(it c15Inst, i int, rep rv, changed bool, c *Cli)) {
		x := runExec(job, frozen, func(x *Exec) {
			target, mk := setup(x)
			if target == nil {
				return
			}
			c := mk()
			for i, it := range insts {
				if it.Cmd == "FOLLOW" || it.Cmd == "SLAVEOF" || it.Cmd == "REPLCONF" || it.Cmd == "AOFSHRINK" || it.Cmd == "READONLY" || it.Cmd == "CONFIG SET" || it.Cmd == "CONFIG REWRITE" || it.Cmd == "AUTH" || it.Cmd == "QUIT" {
					if !(it.Cmd == "AUTH" && strings.HasPrefix(mode, "password")) {
						continue // would change the mode under test
					}
				}
				before, _ := internalDump(target.S)
				aof0 := target.S.aofsz
				rep := c.Do(c15Wrap(it.Wrapper, catSubst(it.Args, shaOf(c)))...)
				vsched.Quiesce()
				after, _ := internalDump(target.S)
				changed := before != after || target.S.aofsz != aof0
				judge(it, i, rep, changed, c)
				res.Evaluations++
				res.Transitions++
				res.Validated++
				res.DistinctS(fmt.Sprint(mode, it.Cmd, it.Wrapper, modifies[i], replyClass(rep.String())))
				if rep.K == '!' || c.c.EOF() {
					c = mk() // the connection was closed by the server: continue on a new one
				}
			}
		})
		if x.Err != "" || len(x.Crashes) > 0 {
			res.Violate("C15/hang-or-crash:"+mode, fmt.Sprint(x.Err, x.Crashes), map[string]any{"mode": mode})
		}
		res.States++
	}

	// ---- READONLY yes
	runMode("readonly", freezeAllBut(), func(x *Exec) (*Inst, func() *Cli) {
		in := x.Start("L", x.dir+"/L", 9001, nil)
		c := x.Dial(in.Addr)
		c15Setup(c)
		c.Do("READONLY", "yes")
		return in, func() *Cli { return x.Dial(in.Addr) }
	}, func(it c15Inst, i int, rep rv, changed bool, c *Cli) {
		if changed {
			viol("readonly-server-changed:"+strings.ToLower(it.Cmd)+":"+it.Wrapper, "a READONLY server's dataset or log changed (reply "+vclip(rep.String(), 100)+")", it, "readonly")
		} else if modifies[i] && !isRefusal(rep) && !strings.Contains(rep.String(), "read only") && !strings.Contains(rep.String(), "ERR") {
			viol("readonly-not-refused:"+strings.ToLower(it.Cmd)+":"+it.Wrapper, "a data-modifying command was answered "+vclip(rep.String(), 100)+" instead of being refused", it, "readonly")
		}
	})

	// ---- follower, caught up
	follower := func(caught bool) func(x *Exec) (*Inst, func() *Cli) {
		return func(x *Exec) (*Inst, func() *Cli) {
			fdir := x.dir + "/F"
			if caught {
				l := x.Start("L", x.dir+"/L", 9001, nil)
				lc := x.Dial(l.Addr)
				c15Setup(lc)
				f := x.Start("F", fdir, 9002, nil)
				fc := x.Dial(f.Addr)
				fc.Do("FOLLOW", "127.0.0.1", "9001")
				ok := false
				for i := 0; i < 100 && !ok; i++ {
					vsched.Sleep(int64(100 * stdtime.Millisecond))
					ok = followerCaughtUp(fc)
				}
				vsched.Sleep(int64(300 * stdtime.Millisecond))
				if !ok {
					res.EngineError = "follower did not catch up in setup"
					return nil, nil
				}
				return f, func() *Cli { return x.Dial(f.Addr) }
			}
			// never caught up: its own data on disk, configured to follow a host that is down
			populate(x, fdir, 9003)
			cfgp := filepath.Join(fdir, "config")
			b, _ := os.ReadFile(cfgp)
			s := strings.TrimSpace(string(b))
			s = strings.TrimSuffix(s, "}") + `,"follow_host":"127.0.0.1","follow_port":9099}`
			os.WriteFile(cfgp, []byte(s), 0600)
			f := x.Start("F", fdir, 9002, nil)
			return f, func() *Cli { return x.Dial(f.Addr) }
		}
	}
	for _, caught := range []bool{true, false} {
		mode := "follower-never-caught-up"
		if caught {
			mode = "follower-caught-up"
		}
		caught := caught
		runMode(mode, freezeAllBut("follow", "Serve#2", "Serve#4"), follower(caught), func(it c15Inst, i int, rep rv, changed bool, c *Cli) {
			lc := strings.ToLower(it.Cmd)
			if changed {
				viol("follower-changed:"+lc+":"+it.Wrapper, "the follower's dataset or log changed (reply "+vclip(rep.String(), 100)+")", it, mode)
			} else if modifies[i] && !isRefusal(rep) && !strings.Contains(rep.String(), "ERR") && !strings.Contains(rep.String(), "not the leader") {
				viol("follower-not-refused:"+lc+":"+it.Wrapper, "a data-modifying command was answered "+vclip(rep.String(), 100)+" instead of being refused", it, mode)
			}
			// TEST reads stored objects when one of its two sides is GET key id
			testOfStored := false
			if it.Cmd == "TEST" {
				for _, a := range it.Args[1:] {
					testOfStored = testOfStored || strings.EqualFold(a, "GET")
				}
			}
			if !caught && (c15ObjectReads[it.Cmd] || testOfStored) && (it.Wrapper == "direct" || it.Wrapper == "timeout") {
				if !isRefusal(rep) {
					viol("never-caught-up-follower-served-read:"+lc+":"+it.Wrapper, "a follower that never caught up answered "+vclip(rep.String(), 120), it, mode)
				}
			}
			if !caught && strings.Contains(rep.String(), c15Marker) {
				viol("never-caught-up-follower-leaked-data:"+lc+":"+it.Wrapper, "reply contains dataset bytes: "+vclip(rep.String(), 160), it, mode)
			}
		})
	}

	// ---- requirepass
	password := func(authWith string) func(x *Exec) (*Inst, func() *Cli) {
		return func(x *Exec) (*Inst, func() *Cli) {
			in := x.Start("L", x.dir+"/L", 9001, nil)
			c := x.Dial(in.Addr)
			c15Setup(c)
			c.Do("CONFIG", "SET", "requirepass", "secret")
			c.Close()
			return in, func() *Cli {
				n := x.Dial(in.Addr)
				if authWith != "" {
					n.Do("AUTH", authWith)
				}
				return n
			}
		}
	}
	// a connection that was opened and used before the password was set at run time
	passwordLater := func(x *Exec) (*Inst, func() *Cli) {
		in := x.Start("L", x.dir+"/L", 9001, nil)
		c := x.Dial(in.Addr)
		c15Setup(c)
		old := x.Dial(in.Addr)
		old.Do("GET", "k1", "a")
		old.Do("SET", "k1", "pre", "POINT", "1", "1")
		c.Do("CONFIG", "SET", "requirepass", "secret")
		c.Close()
		first := true
		return in, func() *Cli {
			if first {
				first = false
				return old
			}
			return x.Dial(in.Addr)
		}
	}
	for _, pm := range []struct {
		mode  string
		setup func(x *Exec) (*Inst, func() *Cli)
	}{{"password-unauthenticated", password("")}, {"password-wrong", password("nope")}, {"password-set-after-connect", passwordLater}} {
		pm := pm
		runMode(pm.mode, freezeAllBut(), pm.setup, func(it c15Inst, i int, rep rv, changed bool, c *Cli) {
			lc := strings.ToLower(it.Cmd)
			if changed {
				viol("unauthenticated-changed-data:"+lc+":"+it.Wrapper, "an unauthenticated connection changed the dataset or log (reply "+vclip(rep.String(), 100)+")", it, pm.mode)
			}
			if strings.Contains(rep.String(), c15Marker) {
				viol("unauthenticated-obtained-data:"+lc+":"+it.Wrapper, "reply contains dataset bytes: "+vclip(rep.String(), 160), it, pm.mode)
			}
			open := c15Open[it.Cmd] && it.Wrapper == "direct"
			if it.Cmd == "AUTH" {
				// AUTH secret legitimately authenticates: re-open an unauthenticated connection afterwards
				if len(it.Args) == 2 && it.Args[1] == "secret" {
					c.c.Kill()
				} else if !isRefusal(rep) {
					viol("wrong-password-accepted", "AUTH with a wrong / missing password replied "+rep.String(), it, pm.mode)
				}
				return
			}
			if !open && !isRefusal(rep) {
				viol("unauthenticated-not-refused:"+lc+":"+it.Wrapper, "answered "+vclip(rep.String(), 120)+" without authentication", it, pm.mode)
			}
		})
	}
	// authenticated: behaves like a leader for a sample (sanity of the mode set-up)
	runMode("password-authenticated", freezeAllBut(), password("secret"), func(it c15Inst, i int, rep rv, changed bool, c *Cli) {
		if it.Cmd == "GET" && it.Shape == 0 && it.Wrapper == "direct" && isRefusal(rep) {
			viol("authenticated-refused", "GET after AUTH secret replied "+rep.String(), it, "password-authenticated")
		}
		if it.Cmd == "AUTH" {
			c.c.Kill()
		}
	})

	// ---- HTTP Authorization variants (password set)
	if job.Shard == 0 {
		x := runExec(job, freezeAllBut(), func(x *Exec) {
			in := x.Start("L", x.dir+"/L", 9001, nil)
			c := x.Dial(in.Addr)
			c15Setup(c)
			c.Do("CONFIG", "SET", "requirepass", "secret")
			for _, req := range [][]string{w("GET k1 a"), w("SET k1 viahttp POINT 1 1"), w("SCAN k1"), w("DEL k1 a"), w("KEYS *"), w("SERVER"), w("PING")} {
				for _, hdr := range []string{"", "Authorization: nope\r\n", "Authorization: secret\r\n"} {
					before, _ := internalDump(in.S)
					h := x.Dial(in.Addr)
					h.Send([]byte("GET /" + url.PathEscape(strings.Join(req, " ")) + " HTTP/1.1\r\nHost: x\r\n" + hdr + "\r\n"))
					vsched.WaitUntilOr(func() bool { return h.c.EOF() || h.c.Avail() > 0 }, int64(5*stdtime.Second))
					vsched.Quiesce()
					body := string(h.c.Drain())
					after, _ := internalDump(in.S)
					it := c15Inst{Cmd: req[0], Wrapper: "http[" + strings.TrimSpace(hdr) + "]", Args: req}
					authd := strings.Contains(hdr, "secret")
					if !authd {
						if before != after {
							viol("http-unauthenticated-changed-data:"+strings.ToLower(req[0]), "dataset changed", it, "password-http")
						}
						if strings.Contains(body, c15Marker) || (strings.Contains(body, `"ok":true`) && req[0] != "PING") {
							viol("http-unauthenticated-not-refused:"+strings.ToLower(req[0]), "answered "+vclip(body, 200), it, "password-http")
						}
					} else if !strings.Contains(body, `"ok":true`) {
						viol("http-authenticated-refused:"+strings.ToLower(req[0]), "answered "+vclip(body, 200), it, "password-http")
					}
					res.Evaluations++
					res.DistinctS("http" + req[0] + hdr)
				}
			}
		})
		if x.Err != "" {
			res.Violate("C15/hang:password-http", x.Err, nil)
		}
		// ---- FOLLOW with leaderauth: wrong / unnecessary / right password of the leader
		for _, fa := range []struct{ name, leaderPass, auth string; wantOK bool }{
			{"leader has no password, follower sends one", "", "secret", false},
			{"leader has a password, follower sends a wrong one", "pw", "wrong", false},
			{"leader has a password, follower sends none", "pw", "", false},
			{"leader has a password, follower sends it", "pw", "pw", true},
		} {
			fa := fa
			x := runExec(job, freezeAllBut("follow", "Serve#2", "Serve#4"), func(x *Exec) {
				L := x.Start("L", x.dir+"/L", 9001, nil)
				lc := x.Dial(L.Addr)
				lc.Do("SET", "k1", "a", "POINT", "1", "2")
				if fa.leaderPass != "" {
					lc.Do("CONFIG", "SET", "requirepass", fa.leaderPass)
				}
				F := x.Start("F", x.dir+"/F", 9002, nil)
				fc := x.Dial(F.Addr)
				if fa.auth != "" {
					fc.Do("CONFIG", "SET", "leaderauth", fa.auth)
				}
				rep := fc.Do("FOLLOW", "127.0.0.1", "9001")
				vsched.Quiesce()
				it := c15Inst{Cmd: "FOLLOW", Wrapper: fa.name, Args: w("FOLLOW 127.0.0.1 9001")}
				if len(vsched.Crashes) > 0 {
					viol("follow-auth-crash", "FOLLOW crashed the server: "+vsched.Crashes[0].Value, it, "leaderauth")
					return
				}
				if p := x.Dial(F.Addr).Do("PING"); p.String() != "+PONG" {
					viol("follow-auth-server-gone", "after FOLLOW (reply "+vclip(rep.String(), 80)+") a new connection's PING replied "+p.String(), it, "leaderauth")
				}
				if fa.wantOK != (rep.String() == "+OK") {
					viol("follow-auth-reply", fmt.Sprintf("FOLLOW replied %s, success expected: %v", vclip(rep.String(), 100), fa.wantOK), it, "leaderauth")
				}
				res.Evaluations++
				res.DistinctS("leaderauth" + fa.name)
			})
			if x.Err != "" {
				res.Violate("C15/hang-or-crash:leaderauth", x.Err+" ["+fa.name+"]", nil)
			}
		}
		// ---- passwords that are nearly right
		long := strings.Repeat("0123456789abcdef", 5) // 80 characters
		for _, pw := range []string{"s3cret", long, "x"} {
			pw := pw
			x := runExec(job, freezeAllBut(), func(x *Exec) {
				dir := x.dir + "/L"
				os.MkdirAll(dir, 0700)
				cfgb, _ := json.Marshal(map[string]string{"requirepass": pw})
				os.WriteFile(filepath.Join(dir, "config"), cfgb, 0600)
				in := x.Start("L", dir, 9001, nil)
				admin := x.Dial(in.Addr)
				if r := admin.Do("AUTH", pw); r.String() != "+OK" {
					viol("right-password-refused", fmt.Sprintf("AUTH with the configured password (%d characters) replied %s", len(pw), r), c15Inst{Cmd: "AUTH"}, "near-miss")
					return
				}
				admin.Do("SET", "k1", c15Marker+"id", "POINT", "1", "1")
				cands := []string{pw + "\x00", pw + "\x00\x00\x00", pw[:len(pw)-1], pw + "x", strings.ToUpper(pw), pw[:len(pw)-1] + "~", "\x00" + pw, pw + pw}
				if len(pw) > 64 {
					cands = append(cands, pw[:64], pw[:64]+"a-different-tail", pw[:64]+strings.Repeat("\x00", len(pw)-64))
				}
				for _, wrong := range cands {
					if wrong == pw || strings.TrimSpace(wrong) == pw {
						continue
					}
					c := x.Dial(in.Addr)
					before, _ := internalDump(in.S)
					r1 := c.Do("AUTH", wrong)
					r2 := c.Do("GET", "k1", c15Marker+"id")
					r3 := c.Do("SET", "k1", "intruder", "POINT", "2", "2")
					after, _ := internalDump(in.S)
					it := c15Inst{Cmd: "AUTH", Wrapper: fmt.Sprintf("password of %d characters, candidate %q", len(pw), vclip(wrong, 90))}
					if !r1.IsErr() || !r2.IsErr() || !r3.IsErr() || strings.Contains(r2.String(), "coordinates") {
						viol("wrong-password-accepted", fmt.Sprintf("AUTH replied %s, then GET replied %s and SET %s", r1, vclip(r2.String(), 80), r3), it, "near-miss")
					}
					if before != after {
						viol("wrong-password-accepted", "a connection that sent a wrong password changed the dataset", it, "near-miss")
					}
					c.Close()
					res.Evaluations++
					res.DistinctS(fmt.Sprint("nearmiss", len(pw), len(wrong), wrong == strings.ToUpper(pw)))
				}
			})
			if x.Err != "" {
				res.Violate("C15/hang:near-miss", x.Err, nil)
			}
		}
		// ---- the password outlives restarts: three lives of one data directory
		for _, org := range []struct {
			name, cfg string
			cmds      [][]string
		}{
			{"config file", `{"requirepass":"pw"}`, nil},
			{"config file with other settings", `{"requirepass":"pw","leaderauth":"la","protected-mode":"no","keepalive":"300"}`, nil},
			{"config set + rewrite", ``, [][]string{{"CONFIG", "SET", "requirepass", "pw"}, {"AUTH", "pw"}, {"CONFIG", "REWRITE"}}},
			{"config set + rewrite over a file", `{"requirepass":"old"}`, [][]string{{"AUTH", "old"}, {"CONFIG", "SET", "requirepass", "pw"}, {"AUTH", "pw"}, {"CONFIG", "REWRITE"}}},
		} {
			org := org
			x := runExec(job, freezeAllBut(), func(x *Exec) {
				dir := x.dir + "/L"
				os.MkdirAll(dir, 0700)
				if org.cfg != "" {
					os.WriteFile(filepath.Join(dir, "config"), []byte(org.cfg), 0600)
				}
				for life := 1; life <= 3; life++ {
					in := x.Start(fmt.Sprint("L", life), dir, 9000+life, nil)
					c := x.Dial(in.Addr)
					it := c15Inst{Cmd: "GET", Wrapper: fmt.Sprintf("%s, start #%d", org.name, life), Args: w("GET k1 id")}
					if life == 1 {
						for _, cmd := range org.cmds {
							if r := c.Do(cmd...); r.IsErr() {
								viol("password-setup", fmt.Sprintf("%v replied %s", cmd, r), it, "restarts")
							}
						}
						c.Close()
						c = x.Dial(in.Addr)
					}
					before, _ := internalDump(in.S)
					r1 := c.Do("SET", "k1", "unauth", "POINT", "1", "1")
					r2 := c.Do("GET", "k1", c15Marker+"id")
					r3 := c.Do("SCAN", "k1")
					after, _ := internalDump(in.S)
					for _, r := range []rv{r1, r2, r3} {
						if !r.IsErr() || !strings.Contains(r.String(), "uthentication required") {
							viol("password-lost-after-restart", fmt.Sprintf("an unauthenticated connection got %s", vclip(r.String(), 120)), it, "restarts")
						}
					}
					if before != after {
						viol("password-lost-after-restart", "an unauthenticated connection changed the dataset", it, "restarts")
					}
					if r := c.Do("AUTH", "pw"); r.String() != "+OK" {
						viol("password-changed-by-restart", fmt.Sprintf("AUTH pw replied %s", r), it, "restarts")
					}
					if life == 1 {
						c.Do("SET", "k1", c15Marker+"id", "POINT", "1", "1")
					} else if r := c.Do("GET", "k1", c15Marker+"id"); r.IsErr() || r.Null {
						viol("data-lost-after-restart", fmt.Sprintf("GET after AUTH replied %s", r), it, "restarts")
					}
					if org.name == "config file with other settings" {
						for _, kv := range [][2]string{{"leaderauth", "la"}, {"protected-mode", "no"}, {"keepalive", "300"}} {
							if r := c.Do("CONFIG", "GET", kv[0]); !strings.Contains(r.String(), kv[1]) {
								viol("setting-lost-after-restart", fmt.Sprintf("CONFIG GET %s replied %s, the file said %s", kv[0], vclip(r.String(), 80), kv[1]), it, "restarts")
							}
						}
					}
					c.Close()
					in.Stop()
					vsched.Paused[in.Name] = true
					res.Evaluations++
					res.DistinctS(fmt.Sprint("restarts", org.name, life))
				}
			})
			if x.Err != "" {
				res.Violate("C15/hang:restarts", x.Err+" ["+org.name+"]", nil)
			}
		}
		// ---- the read-only mode outlives restarts: ALL sequences of length <= 4 over
		// {READONLY yes, READONLY no, restart}, each followed by one more restart; after
		// every step a write is refused exactly when the last READONLY said yes
		{
			var seqs [][]int
			var gen func(cur []int)
			gen = func(cur []int) {
				if len(cur) > 0 {
					seqs = append(seqs, append([]int(nil), cur...))
				}
				if len(cur) == 4 {
					return
				}
				for e := 0; e < 3; e++ {
					gen(append(cur, e))
				}
			}
			gen(nil)
			evn := []string{"READONLY yes", "READONLY no", "restart"}
			for _, seq := range seqs {
				seq := append(append([]int(nil), seq...), 2)
				var names []string
				for _, e := range seq {
					names = append(names, evn[e])
				}
				x := runExec(job, freezeAllBut(), func(x *Exec) {
					dir := x.dir + "/L"
					life := 1
					in := x.Start("L1", dir, 9001, nil)
					c := x.Dial(in.Addr)
					ro := false
					it := c15Inst{Cmd: "SET", Wrapper: "read-only mode across restarts: " + strings.Join(names, ", "), Args: w("SET k1 probe POINT 1 1")}
					for step, e := range seq {
						switch e {
						case 0, 1:
							ro = e == 0
							if r := c.Do(strings.Fields(evn[e])...); r.String() != "+OK" {
								viol("readonly-setup", fmt.Sprintf("%s replied %s", evn[e], r), it, "readonly-restarts")
							}
						case 2:
							c.Close()
							in.Stop()
							vsched.Paused[in.Name] = true
							life++
							in = x.Start(fmt.Sprint("L", life), dir, 9000+life, nil)
							c = x.Dial(in.Addr)
						}
						before, _ := internalDump(in.S)
						r := c.Do("SET", "k1", fmt.Sprint("probe", step), "POINT", "1", "1")
						after, _ := internalDump(in.S)
						res.Evaluations++
						if refused := r.IsErr() && strings.Contains(r.String(), "read only"); refused != ro || (ro && before != after) {
							viol("readonly-mode-not-kept", fmt.Sprintf("after step %d (%s) the last READONLY said yes=%v, but SET replied %s (dataset changed: %v)", step+1, evn[e], ro, r, before != after), it, "readonly-restarts")
							break
						}
					}
					res.DistinctS(fmt.Sprint("ro-restarts", ro, len(seq)))
				})
				if x.Err != "" {
					res.Violate("C15/hang:readonly-restarts", x.Err+" ["+strings.Join(names, ", ")+"]", nil)
				}
			}
		}
		// ---- protected mode decided at run time: the password / protected-mode settings change while the server runs
		for _, tr := range []struct{ name, cfg string; cmds [][]string; wantDenied bool }{
			{"password removed", `{"requirepass":"pw"}`, [][]string{{"AUTH", "pw"}, {"CONFIG", "SET", "requirepass", ""}}, true},
			{"protected-mode switched on", `{"protected-mode":"no"}`, [][]string{{"CONFIG", "SET", "protected-mode", "yes"}}, true},
			{"protected-mode switched off", ``, [][]string{{"CONFIG", "SET", "protected-mode", "no"}}, false},
			{"password set", ``, [][]string{{"CONFIG", "SET", "requirepass", "pw2"}}, false},
		} {
			tr := tr
			x := runExec(job, freezeAllBut(), func(x *Exec) {
				dir := x.dir + "/L"
				os.MkdirAll(dir, 0700)
				if tr.cfg != "" {
					os.WriteFile(filepath.Join(dir, "config"), []byte(tr.cfg), 0600)
				}
				in := x.Start("L", dir, 9001, func(o *Options) { o.ProtectedMode = "yes"; o.Host = "" })
				in.Addr = ":9001"
				lc := x.DialFrom(":9001", "127.0.0.1:50000")
				// before the transition the opposite must hold for a non-loopback peer
				probe := func() (denied bool, got string) {
					c := x.DialFrom(":9001", "192.0.2.9:50002")
					c.Send(respCmd("PING"))
					vsched.WaitUntilOr(func() bool { return c.c.EOF() || c.c.Avail() > 0 }, int64(2*stdtime.Second))
					vsched.Quiesce()
					got = string(c.c.Drain())
					c.c.Kill()
					return strings.HasPrefix(got, "-DENIED"), got
				}
				before, gotB := probe()
				if before == tr.wantDenied {
					viol("protected-mode-initial-state", fmt.Sprintf("before the transition %q a non-loopback peer got %s", tr.name, vclip(gotB, 80)), c15Inst{Cmd: "PING", Wrapper: tr.name}, "protected")
				}
				for _, cmd := range tr.cmds {
					if r := lc.Do(cmd...); r.IsErr() {
						viol("protected-mode-transition", fmt.Sprintf("%v replied %s", cmd, r), c15Inst{Cmd: cmd[0], Wrapper: tr.name}, "protected")
					}
				}
				after, gotA := probe()
				if after != tr.wantDenied {
					viol("protected-mode-not-re-evaluated", fmt.Sprintf("after the transition %q a new non-loopback peer got %s (denied expected: %v)", tr.name, vclip(gotA, 80), tr.wantDenied), c15Inst{Cmd: "PING", Wrapper: tr.name}, "protected")
				}
				res.Evaluations++
				res.DistinctS("protected-transition" + tr.name)
			})
			if x.Err != "" {
				res.Violate("C15/hang:protected-transition", x.Err, nil)
			}
		}
		// ---- protected mode
		for _, from := range []string{"127.0.0.1:50001", "192.0.2.7:50001", "[::1]:50001",
			"[fe80::1%eth0]:50001", "[2001:db8::1]:50001", "10.0.0.5:50001", "[::ffff:192.0.2.7]:50001", "[fe80::1%lo]:50001", "169.254.1.1:50001", "1.127.0.0.1:50001"[2:], "128.0.0.1:50001"} {
			from := from
			x := runExec(job, freezeAllBut(), func(x *Exec) {
				in := x.Start("L", x.dir+"/L", 9001, func(o *Options) { o.ProtectedMode = "yes"; o.Host = "" })
				in.Addr = ":9001"
				lc := x.DialFrom(":9001", "127.0.0.1:50000")
				c15Setup(lc)
				before, _ := internalDump(in.S)
				c := x.DialFrom(":9001", from)
				c.Send(respCmd("SET", "k1", "fromoutside", "POINT", "1", "1"))
				c.Send(respCmd("GET", "k1", c15Marker+"id"))
				vsched.WaitUntilOr(func() bool { return c.c.EOF() }, int64(2*stdtime.Second))
				vsched.Quiesce()
				got := string(c.c.Drain())
				after, _ := internalDump(in.S)
				loop := strings.HasPrefix(from, "127.0.0.1:") || strings.HasPrefix(from, "[::1]:")
				it := c15Inst{Cmd: "SET", Wrapper: "from " + from, Args: w("SET k1 fromoutside POINT 1 1")}
				if loop {
					if !strings.Contains(got, "+OK") {
						viol("protected-mode-refused-loopback", "a loopback peer got "+vclip(got, 120), it, "protected")
					}
				} else {
					if before != after {
						viol("protected-mode-peer-changed-data", "a non-loopback peer changed the dataset", it, "protected")
					}
					if !strings.HasPrefix(got, "-DENIED") || strings.Contains(got, c15Marker) || strings.Contains(got, "+OK") {
						viol("protected-mode-not-denied", "a non-loopback peer got "+vclip(got, 160), it, "protected")
					}
					if !c.c.EOF() {
						viol("protected-mode-connection-left-open", "the connection of a non-loopback peer was not closed", it, "protected")
					}
					if c.c.Peer.Avail() == 0 && !c.c.Consumed() {
						// unread bytes remain queued at the server side: it did not read them (as required)
					} else if c.c.Consumed() {
						viol("protected-mode-read-before-refusing", "the server read the peer's bytes before refusing", it, "protected")
					}
				}
				res.Evaluations++
				res.DistinctS("protected" + from)
			})
			if x.Err != "" {
				res.Violate("C15/hang:protected", x.Err, nil)
			}
		}
	}
}
