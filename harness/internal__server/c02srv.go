//go:build verif

package server

// C02 (server part): WITHIN / INTERSECTS key IDS <area> for every area KIND
// (bounds, circle, sector, tile, quadkey, geohash, GET reference, GeoJSON
// object, each optionally CLIPBY'd) return exactly the ids for which
// TEST GET key id WITHIN|INTERSECTS <area> answers 1; SPARSE only thins.

import (
	"fmt"
	"sort"
	"strings"

	"github.com/tidwall/tile38/internal/vshim/vsched"
)

func init() { checks["c02srv"] = checkC02Srv }

func checkC02Srv(job *Job, res *Result) {
	res.Rule = "SEQ over inputs: 3 datasets (12 objects of every geometry kind at awkward coordinates; the same after overwrites / moves / deletes; 90 grid objects) x 42 areas of 8 kinds (+ 11 CLIPBY combinations, 5 of them with two or three CLIPBY clauses; 6 areas of other kinds clipped by a box: every WITHIN result lies within both) x {WITHIN, INTERSECTS}: search result = set of ids for which TEST on the single object answers 1; SPARSE 1..3 subset of it; distinct = distinct (dataset, command, area, result)"
	res.Assumptions = append(res.Assumptions, "objects with an empty geometry are never a search result", "TEST has no CLIPBY: a bounds area clipped by bounds is compared with TEST on the intersection rectangle")
	objs := [][]string{
		w("p0 POINT 0 0"), w("pn POINT 33.000000123 -115.00000987"), w("ps POINT -33.000000123 115.00000987"), w("pe POINT 90 180"), w("pw POINT -90 -180"),
		w("r1 BOUNDS -1 -1 1 1"), w("r2 BOUNDS -37.8000001 -122.4000001 -37.7999999 -122.3999999"),
		{"line", "OBJECT", `{"type":"LineString","coordinates":[[-2,-2],[2,2]]}`},
		{"hole", "OBJECT", `{"type":"Polygon","coordinates":[[[-3,-3],[3,-3],[3,3],[-3,3],[-3,-3]],[[-1,-1],[1,-1],[1,1],[-1,1],[-1,-1]]]}`},
		{"mp", "OBJECT", `{"type":"MultiPoint","coordinates":[[10,10],[-10,-10]]}`},
		{"feat", "OBJECT", `{"type":"Feature","geometry":{"type":"Point","coordinates":[7,7]},"properties":{"a":1}}`},
		{"empty", "OBJECT", gEmpty},
		// a stored circle (a point feature with a radius) is a geometry like any other
		{"circ", "OBJECT", `{"type":"Feature","geometry":{"type":"Point","coordinates":[7.5,7.5]},"properties":{"type":"Circle","radius":60000,"radius_units":"m"}}`},
		// rectangles reaching across the gap between two disjoint query boxes
		w("span BOUNDS 4 4 7 7"), w("span2 BOUNDS 2 2 7 7"),
		// points just inside a circle at its east / west extremes (the circle reaches further
		// in longitude than the bounding box of its 64-gon, increasingly so towards the poles)
		w("ce POINT 45 1.2718"), w("cw POINT 45 -1.2718"), w("cp POINT 79.6 25.5"), w("cq POINT 79.6 -25.5"), w("cn POINT 45.8992 0"), w("cs POINT 44.1008 0"),
	}
	areas := [][]string{
		w("CIRCLE 45 0 100000"), w("CIRCLE 80 0 500000"), w("CIRCLE 45 0 99000"), w("CIRCLE 80 0 480000"),
		w("BOUNDS -90 -180 90 180"), w("BOUNDS -1 -1 1 1"), w("BOUNDS 0 0 0 0"), w("BOUNDS -0.5 -0.5 0.5 0.5"), w("BOUNDS 33.000000123 -115.00000987 33.1 -115"),
		w("BOUNDS 32 -116 33.000000123 -115.00000987"), w("BOUNDS -37.8000001 -122.3999999 -37.7 -122.3"), w("BOUNDS 89.9 179.9 90 180"), w("BOUNDS 6 6 8 8"),
		w("CIRCLE 0 0 200000"), w("CIRCLE 33 -115 10000"), w("CIRCLE 7 7 1"), w("CIRCLE 0 0 0.5"), w("CIRCLE 10 10 100"),
		w("SECTOR 0 0 300000 0 90"), w("SECTOR 0 0 300000 180 270"), w("SECTOR 7 7 1000 0 359"), w("SECTOR 33 -115 50000 270 90"),
		w("TILE 0 0 0"), w("TILE 1 1 1"), w("TILE 0 0 1"), w("TILE 512 512 10"), w("TILE 184 409 10"),
		w("QUADKEY 0"), w("QUADKEY 3"), w("QUADKEY 1202"), w("QUADKEY 0231"),
		w("HASH s0"), w("HASH 9m"), w("HASH s00000000000"), w("HASH 7zzzzzzzzzzz"), w("HASH kpbpbpbpbpbp"),
		// boxes without a limit on one or all sides, and beyond the range of the index's 32-bit coordinates
		w("BOUNDS -10 -inf 10 +inf"), w("BOUNDS -inf -inf +inf +inf"), w("BOUNDS -inf -1 +inf 1"), w("BOUNDS -1 -1 1 1e39"), w("BOUNDS -1e39 -1e39 8 8"),
		w("GET areas box"), w("GET areas tri"), w("GET areas pt"), w("GET areas line"),
		{"OBJECT", `{"type":"Polygon","coordinates":[[[-4,-4],[4,-4],[0,4],[-4,-4]]]}`}, {"OBJECT", `{"type":"Polygon","coordinates":[[[-0.5,-0.5],[0.5,-0.5],[0.5,0.5],[-0.5,0.5],[-0.5,-0.5]]]}`},
		{"OBJECT", `{"type":"LineString","coordinates":[[-5,-5],[12,12]]}`}, {"OBJECT", `{"type":"Point","coordinates":[0,0]}`},
		{"OBJECT", `{"type":"MultiPolygon","coordinates":[[[[6,6],[9,6],[9,9],[6,9],[6,6]]],[[[-11,-11],[-9,-11],[-9,-9],[-11,-9],[-11,-11]]]]}`},
		{"OBJECT", `{"type":"Feature","geometry":{"type":"Polygon","coordinates":[[[-2,-2],[2,-2],[2,2],[-2,2],[-2,-2]]]},"properties":{}}`},
	}
	type clip struct{ area, by, inter []string }
	clips := []clip{
		{w("BOUNDS -10 -10 10 10"), w("BOUNDS 0 0 3 3"), w("BOUNDS 0 0 3 3")},
		{w("BOUNDS -10 -10 10 10"), w("BOUNDS -1 -1 1 1"), w("BOUNDS -1 -1 1 1")},
		{w("BOUNDS 0 0 10 10"), w("BOUNDS 5 5 20 20"), w("BOUNDS 5 5 10 10")},
		{w("BOUNDS -90 -180 90 180"), w("BOUNDS 32 -116 33.000000123 -115.00000987"), w("BOUNDS 32 -116 33.000000123 -115.00000987")},
		{w("BOUNDS -5 -5 5 5"), w("BOUNDS 6 6 8 8"), nil}, // disjoint: nothing
		{w("BOUNDS 6 6 8 8"), w("BOUNDS 7 7 7 7"), w("BOUNDS 7 7 7 7")},
		// several CLIPBY clauses: the area is clipped by each in turn
		{w("BOUNDS -10 -10 10 10"), w("BOUNDS 0 0 5 5 CLIPBY BOUNDS 3 3 9 9"), w("BOUNDS 3 3 5 5")},
		{w("BOUNDS -10 -10 10 10"), w("BOUNDS 3 3 9 9 CLIPBY BOUNDS 0 0 5 5"), w("BOUNDS 3 3 5 5")},
		{w("BOUNDS -10 -10 10 10"), w("BOUNDS -1 -1 1 1 CLIPBY BOUNDS -10 -10 10 10"), w("BOUNDS -1 -1 1 1")},
		{w("BOUNDS -90 -180 90 180"), w("BOUNDS -3 -3 3 3 CLIPBY BOUNDS -20 -20 0 0 CLIPBY BOUNDS -1 -50 50 50"), w("BOUNDS -1 -3 0 0")},
		{w("BOUNDS -90 -180 90 180"), w("BOUNDS 0 0 3 3 CLIPBY BOUNDS 6 6 8 8"), nil},
		// a stored point as the area: clipped away entirely, or kept
		{w("GET areas pt"), w("BOUNDS 20 20 30 30"), nil},
		{w("GET areas pt"), w("BOUNDS 32 -116 34 -114"), w("GET areas pt")},
	}
	x := runExec(job, freezeAllBut(), func(x *Exec) {
		in := x.Start("L", x.dir+"/L", 9001, nil)
		c := x.Dial(in.Addr)
		c.Do("SET", "areas", "box", "BOUNDS", "-2", "-2", "2", "2")
		c.Do("SET", "areas", "tri", "OBJECT", `{"type":"Polygon","coordinates":[[[-4,-4],[4,-4],[0,4],[-4,-4]]]}`)
		c.Do("SET", "areas", "pt", "POINT", "33.000000123", "-115.00000987")
		c.Do("SET", "areas", "line", "OBJECT", `{"type":"LineString","coordinates":[[-5,-5],[12,12]]}`)
		load := func(key string, variant int) []string {
			var ids []string
			switch variant {
			case 0, 1:
				if variant == 1 { // reached through overwrites, kind changes, moves and deletes
					for i, o := range objs {
						c.Do("SET", key, o[0], "OBJECT", gEmpty)
						c.Do("SET", key, o[0], "POINT", fmt.Sprint(50+i), fmt.Sprint(50+i))
						c.Do("SET", key, "tmp"+o[0], "BOUNDS", "-1", "-1", "1", "1")
					}
					for _, o := range objs {
						c.Do("DEL", key, "tmp"+o[0])
					}
					// ids that held geometries in the middle of everything and hold strings now
					c.Do("SET", key, "wasgeo1", "POINT", "0", "0")
					c.Do("SET", key, "wasgeo2", "BOUNDS", "-1", "-1", "1", "1")
					c.Do("SET", key, "wasgeo3", "OBJECT", `{"type":"LineString","coordinates":[[-5,-5],[12,12]]}`)
					c.Do("SET", key, "wasgeo1", "STRING", "a string now")
					c.Do("SET", key, "wasgeo2", "STRING", "a string now")
					c.Do("SET", key, "wasgeo3", "STRING", "a string now")
					c.Do("DEL", key, "wasgeo3")
				}
				for _, o := range objs {
					c.Do(append([]string{"SET", key, o[0]}, o[1:]...)...)
					ids = append(ids, o[0])
				}
			case 2:
				for i := 0; i < 90; i++ {
					id := fmt.Sprintf("g%02d", i)
					c.Do("SET", key, id, "POINT", fnum(float64(i/10)*0.7-3), fnum(float64(i%10)*0.7-3))
					ids = append(ids, id)
				}
			}
			return ids
		}
		caseNo := 0
		for variant := 0; variant < 3; variant++ {
			key := fmt.Sprintf("ds%d", variant)
			ids := load(key, variant)
			run := func(cmd string, area []string, testArea []string, label string) {
				caseNo++
				if caseNo%job.NShards != job.Shard {
					return
				}
				r := c.Do(append([]string{cmd, key, "LIMIT", "100000", "IDS"}, area...)...)
				got, ok := idsOf(r)
				if !ok {
					res.Violate("C02/search-failed:"+strings.ToLower(area[0]), fmt.Sprintf("%s %s IDS %v -> %s", cmd, key, area, vclip(r.String(), 120)), nil)
					return
				}
				var want []string
				if testArea != nil {
					for _, id := range ids {
						t := c.Do(append([]string{"TEST", "GET", key, id, cmd}, testArea...)...)
						if t.String() == ":1" && id != "empty" {
							want = append(want, id)
						} else if t.K != ':' {
							res.Violate("C02/test-failed:"+strings.ToLower(area[0]), fmt.Sprintf("TEST GET %s %s %s %v -> %s", key, id, cmd, testArea, vclip(t.String(), 120)), nil)
							return
						}
					}
				}
				sort.Strings(got)
				sort.Strings(want)
				res.Evaluations++
				res.DistinctS(fmt.Sprint(variant, cmd, area, got))
				if strings.Join(got, " ") != strings.Join(want, " ") {
					kind := "loses"
					if len(got) > len(want) {
						kind = "invents"
					}
					res.Violate(fmt.Sprintf("C02/search-vs-test:%s:%s:%s", kind, strings.ToLower(cmd), label),
						fmt.Sprintf("%s %s IDS %v returns %v, TEST says %v  [dataset variant %d]", cmd, key, area, got, want, variant), map[string]any{"cmd": cmd, "area": area, "variant": variant})
				}
				for sp := 1; sp <= 3; sp++ {
					sr := c.Do(append([]string{cmd, key, "LIMIT", "100000", "SPARSE", fmt.Sprint(sp), "IDS"}, area...)...)
					sg, ok := idsOf(sr)
					if !ok {
						continue
					}
					inWant := map[string]bool{}
					for _, id := range want {
						inWant[id] = true
					}
					for _, id := range sg {
						if !inWant[id] {
							res.Violate("C02/sparse-adds-non-matching:"+strings.ToLower(cmd), fmt.Sprintf("%s %s SPARSE %d IDS %v returns %s which TEST rejects", cmd, key, sp, area, id), nil)
						}
					}
				}
			}
			for _, cmd := range []string{"WITHIN", "INTERSECTS"} {
				for _, a := range areas {
					run(cmd, a, a, strings.ToLower(a[0]))
				}
				for _, cl := range clips {
					run(cmd, append(append(append([]string{}, cl.area...), "CLIPBY"), cl.by...), cl.inter, "clipby")
				}
				// any area kind clipped by a box: whatever is returned lies inside BOTH
				// (for WITHIN: X within A-clipped-by-B  <=>  X within A and X within B)
				if cmd == "WITHIN" {
					for _, cj := range [][2][]string{
						{w("CIRCLE 0 0 600000"), w("BOUNDS 0 0 3 3")}, {w("CIRCLE 5 5 500000"), w("BOUNDS 0 0 2.5 2.5")},
						{w("SECTOR 0 0 600000 0 90"), w("BOUNDS 0 0 2 2")}, {w("HASH s0"), w("BOUNDS 0 0 3 3")}, {w("TILE 1 1 1"), w("BOUNDS -5 -5 5 5")},
						{{"OBJECT", `{"type":"Polygon","coordinates":[[[-4,-4],[4,-4],[0,4],[-4,-4]]]}`}, w("BOUNDS -1 -1 1 1")},
					} {
						caseNo++
						if caseNo%job.NShards != job.Shard {
							continue
						}
						area := append(append(append([]string{}, cj[0]...), "CLIPBY"), cj[1]...)
						got, ok := idsOf(c.Do(append([]string{cmd, key, "LIMIT", "100000", "IDS"}, area...)...))
						if !ok {
							continue
						}
						res.Evaluations++
						res.DistinctS(fmt.Sprint(variant, cmd, area, got))
						for _, id := range got {
							for _, part := range cj {
								if t := c.Do(append([]string{"TEST", "GET", key, id, cmd}, part...)...); t.String() != ":1" {
									res.Violate("C02/clipby:returns-object-outside:"+strings.ToLower(cj[0][0]), fmt.Sprintf("%s %s IDS %v returns %s, but TEST GET %s %s WITHIN %v -> %s  [dataset variant %d]", cmd, key, area, id, key, id, part, t, variant), map[string]any{"cmd": cmd, "area": area, "variant": variant})
								}
							}
						}
					}
				}
			}
			res.States++
		}
		if len(vsched.Crashes) > 0 {
			res.Violate("C02/server-crash", vsched.Crashes[0].Value, nil)
		}
	})
	if x.Err != "" {
		res.Violate("C02/hang", x.Err, nil)
	}
	res.Transitions = res.Evaluations
	res.Validated = res.Evaluations
}
