//go:build verif

package server

// C09 - AOFSHRINK preserves the dataset, concurrently with writes and across
// crashes.
//
// c09seq   (SEQ over a dataset catalogue): shrink, wait, compare the live dump,
//          restart on the shrunk file and on an un-shrunk copy (differential).
// c09sched (SCHED): the shrink goroutine takes Server.mu once per batch; each of
//          those acquisitions is a scheduling point, so writers are interleaved
//          at every batch boundary.  All schedules within the preemption bound;
//          oracle: live dump after completion = model of all acknowledged writes
//          and restart on the shrunk file = live dump.
// c09fault (FAULT): every file-operation boundary of a shrink (scan phase, final
//          swap) as a crash point; recovery must give the acknowledged state.

import (
	"encoding/binary"
	"fmt"
	"os"
	"path/filepath"
	"strconv"
	"strings"
	stdtime "time"

	"github.com/tidwall/tile38/internal/vshim/vos"
	"github.com/tidwall/tile38/internal/vshim/vsched"
)

func init() {
	checks["c09seq"] = checkC09Seq
	checks["c09sched"] = checkC09Sched
	checks["c09fault"] = checkC09Fault
}

// waitShrink issues AOFSHRINK and waits until the rewrite has finished.
func waitShrink(in *Inst, c *Cli) string {
	r := c.Do("AOFSHRINK")
	ok := vsched.WaitUntilOr(func() bool { return !in.S.shrinking && vsched.AliveNamed(in.Name, "aofshrink") == 0 }, int64(60*stdtime.Second))
	vsched.Quiesce()
	if !ok {
		return "shrink did not finish"
	}
	return r.String()
}

// ttlDump lists the remaining whole seconds of every object with a deadline.
func ttlDump(c *Cli) map[string]int {
	out := map[string]int{}
	keys := c.Do("KEYS", "*")
	for _, k := range keys.A {
		ids, _ := idsOf(c.Do("SCAN", k.S, "LIMIT", "1000000", "IDS"))
		for _, id := range ids {
			t := c.Do("TTL", k.S, id)
			if n, err := strconv.Atoi(t.S); err == nil && n >= 0 {
				out[k.S+"/"+id] = n
			}
		}
	}
	return out
}

type c09Dataset struct {
	Name string
	Cmds [][]string
	// Advance: seconds of virtual time that pass right before the rewrite (sweeper frozen):
	// objects may then be past their deadline and still present
	Advance float64
}

func c09Datasets(tier string) []c09Dataset {
	var ds []c09Dataset
	many := func(nkeys, nids int) [][]string {
		var out [][]string
		for k := 0; k < nkeys; k++ {
			for i := 0; i < nids; i++ {
				out = append(out, []string{"SET", fmt.Sprintf("col%02d", k), fmt.Sprintf("id%03d", i), "FIELD", "n", fmt.Sprint(i + 1), "POINT", fmt.Sprint(k), fmt.Sprint(i % 90)})
			}
		}
		return out
	}
	ds = append(ds, c09Dataset{Name: "empty", Cmds: nil})
	ds = append(ds, c09Dataset{Name: "9-collections", Cmds: many(9, 2)})
	ds = append(ds, c09Dataset{Name: "17-collections", Cmds: many(17, 1)})
	ds = append(ds, c09Dataset{Name: "33-ids", Cmds: many(1, 33)})
	ds = append(ds, c09Dataset{Name: "65-ids", Cmds: many(2, 65)})
	// an object past its deadline that the sweeper has not removed yet, with ids before and after it
	// a snapshot larger than the rewrite's 4 MiB write chunk
	var bigc [][]string
	for i := 0; i < 2400; i++ {
		bigc = append(bigc, []string{"SET", "big", fmt.Sprintf("s%04d", i), "STRING", strings.Repeat(string(rune('a'+i%26)), 2048)})
	}
	ds = append(ds, c09Dataset{Name: "5-MiB", Cmds: bigc})
	ds = append(ds, c09Dataset{Name: "past-deadline", Advance: 0.07, Cmds: [][]string{
		w("SET kp a POINT 1 1"), w("SET kp b POINT 1 2"), w("SET kp c EX 0.05 POINT 1 3"), w("SET kp d POINT 1 4"), w("SET kp e FIELD n 5 POINT 1 5"), w("SET kp f STRING tail"),
		w("SET kq a EX 0.05 STRING first"), w("SET kq b POINT 2 2"),
	}})
	fence := func(k string) []string { return w("NEARBY " + k + " FENCE POINT 50 50 100") }
	ds = append(ds, c09Dataset{Name: "kinds", Cmds: [][]string{
		w("SET k1 p POINT 1 2"), w("SET k1 pz POINT 1 2 3"), w("SET k1 b BOUNDS 1 2 3 4"), w("SET k1 h HASH 9tbnwg"),
		{"SET", "k1", "poly", "OBJECT", gPoly}, {"SET", "k1", "feat", "OBJECT", gFeature}, {"SET", "k1", "empty", "OBJECT", gEmpty}, {"SET", "k1", "line", "OBJECT", gLine},
		{"SET", "k1", "mp", "OBJECT", `{"type":"MultiPoint","coordinates":[[1,1],[2,2]]}`},
		w("SET k1 s STRING hello"), {"SET", "k1", "sj", "STRING", `{"x":1}`}, {"SET", "k1", "sq", "STRING", "quote\" back\\slash \r\n nl \x00 nul \xff"},
		{"SET", "k1", "sp ace", "STRING", "id with space"},
	}})
	ds = append(ds, c09Dataset{Name: "fields", Cmds: [][]string{
		w("SET k1 a FIELD n 1 FIELD neg -1.5 FIELD big 1e300 POINT 1 2"),
		w("SET k1 b FIELD s str FIELD S UPPER POINT 1 2"),
		{"SET", "k1", "c", "FIELD", "j", `{"x":[1,2,{"y":"z"}]}`, "FIELD", "t", "true", "FIELD", "f", "false", "FIELD", "nul", "null", "POINT", "1", "2"},
		w("SET k1 d FIELD nan NaN FIELD pinf +Inf FIELD ninf -Inf POINT 1 2"),
		{"SET", "k1", "e", "FIELD", "esc", "quo\"te\\ \n", "FIELD", "sp", "with space", "FIELD", "numstr", "007", "POINT", "1", "2"},
		w("SET k1 f FIELD zero 0 FIELD one 1 STRING withfields"),
		// string-kind fields whose text looks like another kind (given as quoted JSON strings)
		{"SET", "k1", "g", "FIELD", "qnum", `"123"`, "FIELD", "qtrue", `"true"`, "FIELD", "qobj", `"{\"a\":1}"`, "FIELD", "qpad", `" padded "`, "FIELD", "qnull", `"null"`, "FIELD", "qempty", `""`, "POINT", "1", "2"},
		w("FSET k1 a later 42"),
		// a string field that is not valid UTF-8
		{"SET", "k1", "u", "FIELD", "tag", "ab\xff\xfecd", "FIELD", "latin", "caf\xe9", "POINT", "1", "2"},
		// field names with surrounding blanks (a name is trimmed when it is stored)
		{"SET", "k1", "h", "FIELD", " padded", "1", "FIELD", " z", "5", "FIELD", "lat ", "6", "POINT", "1", "2"},
		{"FSET", "k1", "a", " lon", "7"},
	}})
	ds = append(ds, c09Dataset{Name: "deadlines", Cmds: [][]string{
		w("SET k1 soon EX 0.05 POINT 1 2"), w("SET k1 sec EX 1 POINT 1 2"), w("SET k1 far EX 100 POINT 1 2"), w("SET k1 str EX 100 STRING v"),
		w("SET k1 keep POINT 1 2"), w("EXPIRE k1 keep 50.5"), w("SET k2 x EX 100 POINT 1 2"), w("PERSIST k2 x"),
	}})
	ds = append(ds, c09Dataset{Name: "hooks", Cmds: [][]string{
		append(w("SETHOOK h1 http://127.0.0.1:1/a"), fence("k9")...),
		append(w("SETHOOK h2 http://127.0.0.1:1/a,http://127.0.0.1:1/b META m1 v1 META m2 v2 EX 100"), w("WITHIN k9 FENCE DETECT enter,exit BOUNDS 50 50 51 51")...),
		append(w("SETCHAN c1"), fence("k9")...),
		append(w("SETCHAN c2 META a b EX 100"), w("INTERSECTS k9 FENCE COMMANDS set,del OBJECT "+gPoly)...),
		append(w("SETCHAN c3"), w("NEARBY k9 FENCE ROAM k8 * 100")...),
		append(w("SETCHAN c4"), w("WITHIN k9 MATCH a* WHERE f 1 2 FENCE NODWELL CIRCLE 50 50 100")...),
		w("SET k9 inside POINT 50 50"),
	}})
	ds = append(ds, c09Dataset{Name: "history", Cmds: [][]string{
		w("SET k1 a POINT 1 2"), w("SET k1 a POINT 3 4"), w("SET k1 b POINT 1 2"), w("DEL k1 b"), w("SET k2 x STRING v"), w("RENAME k2 k3"),
		w("SET k4 y POINT 1 1"), w("DROP k4"), {"JSET", "k3", "x2", "p", "1"}, w("PDEL k1 zz*"),
	}})
	return ds
}

func c09Populate(c *Cli, cmds [][]string) {
	for _, cmd := range cmds {
		c.Do(cmd...)
	}
}

// ttlOK: deadlines not shortened beyond rounding (0.1 s) and not lengthened.
func ttlCompare(before, after map[string]int) string {
	for k, b := range before {
		a, ok := after[k]
		if !ok {
			return fmt.Sprintf("%s had %d s left before, no deadline after", k, b)
		}
		if a < b-1 || a > b {
			return fmt.Sprintf("%s had %d s left before, %d s after", k, b, a)
		}
	}
	for k := range after {
		if _, ok := before[k]; !ok {
			return fmt.Sprintf("%s has a deadline after but had none before", k)
		}
	}
	return ""
}

func checkC09Seq(job *Job, res *Result) {
	res.Rule = "SEQ: dataset catalogue crossing the scan-batch constants (9/17 collections, 33/65 ids), every object kind, every field kind, deadlines, hooks/channels of every fence kind; per dataset: AOFSHRINK to completion, live dump unchanged, restart on the shrunk log = restart on an un-shrunk copy = dump before; distinct = distinct (dataset, dump)"
	res.Assumptions = append(res.Assumptions, "virtual time does not pass during the shrink, so deadlines may differ only by the 0.1 s rounding the rewrite applies",
		"objects with less than 1 s to live are excluded from the restart comparison (they may legitimately expire)")
	for di, d := range c09Datasets(job.Tier) {
		if di%job.NShards != job.Shard {
			continue
		}
		d := d
		viol := func(sig, detail string) {
			res.Violate("C09/"+sig+":"+d.Name, detail+"  [dataset "+d.Name+"]", map[string]any{"dataset": d.Name})
		}
		x := runExec(job, freezeAllBut(), func(x *Exec) {
			dir := x.dir + "/L"
			in := x.Start("L", dir, 9001, nil)
			c := x.Dial(in.Addr)
			c09Populate(c, d.Cmds)
			before := fullDump(c)
			ttlBefore := ttlDump(c)
			// un-shrunk copy for the differential restart
			c.Close()
			in.Stop()
			copyDir(dir, x.dir+"/U")
			in = x.Start("L1", dir, 9002, nil)
			c = x.Dial(in.Addr)
			if r := fullDump(c); r != before {
				viol("restart-before-shrink", fmt.Sprintf("plain restart differs: %s vs %s", vclip(r, 300), vclip(before, 300)))
			}
			szBefore := c.Do("SERVER")
			if d.Advance > 0 {
				vsched.Sleep(int64(d.Advance * float64(stdtime.Second)))
				vsched.Quiesce()
			}
			if r := waitShrink(in, c); r != "+OK" {
				viol("shrink", "AOFSHRINK -> "+r)
			}
			live := fullDump(c)
			if live != before {
				viol("live-state-changed", fmt.Sprintf("the shrink changed what the server serves: %s vs %s", vclip(live, 300), vclip(before, 300)))
			}
			_ = szBefore
			c.Close()
			in.Stop()
			in2, serr := x.TryStart("L2", dir, 9003, nil)
			if serr != nil {
				viol("restart-fails-on-shrunk-log", fmt.Sprintf("the server does not start on the shrunk log: %v", serr))
				return
			}
			c2 := x.Dial(in2.Addr)
			after := fullDump(c2)
			ttlAfter := ttlDump(c2)
			c2.Close()
			in2.Stop()
			in3 := x.Start("U", x.dir+"/U", 9004, nil)
			c3 := x.Dial(in3.Addr)
			unshrunk := fullDump(c3)
			c3.Close()
			in3.Stop()
			if after != unshrunk {
				viol("shrunk-vs-unshrunk-restart", fmt.Sprintf("restart on the shrunk log: %s ; on the un-shrunk copy: %s", vclip(after, 400), vclip(unshrunk, 400)))
			}
			if after != before {
				viol("restart-after-shrink", fmt.Sprintf("restart on the shrunk log: %s ; before: %s", vclip(after, 400), vclip(before, 400)))
			}
			if why := ttlCompare(ttlBefore, ttlAfter); why != "" {
				viol("deadline", why)
			}
			res.DistinctS(d.Name + after)
			if di < 2 {
				res.Sample(map[string]any{"dataset": d.Name, "commands": len(d.Cmds), "dump_bytes": len(after)})
			}
		})
		if x.Err != "" || len(x.Crashes) > 0 {
			viol("hang-or-crash", fmt.Sprint(x.Err, x.Crashes))
		}
		res.Evaluations++
		res.Transitions++
		res.Validated++
		res.States++
	}
}

func copyDir(src, dst string) {
	os.MkdirAll(dst, 0700)
	ents, _ := os.ReadDir(src)
	for _, e := range ents {
		if e.IsDir() {
			continue
		}
		b, err := os.ReadFile(filepath.Join(src, e.Name()))
		if err == nil {
			os.WriteFile(filepath.Join(dst, e.Name()), b, 0600)
		}
	}
}

// ---------------------------------------------------------------- SCHED

type c09Params struct {
	// QuickBound, if > 0, lowers the preemption bound of this scenario in the quick tier
	QuickBound int       `json:"quick_bound,omitempty"`
	// NoModel: the reference model does not implement the commands of this scenario
	// (array paths of JSET / JDEL); only "restart on the shrunk log = what the server served" is decided
	NoModel bool `json:"no_model,omitempty"`
	Name    string       `json:"name"`
	Pre     [][]string   `json:"pre"`
	Writers [][][]string `json:"writers"`
}

func c09Run(job *Job, p c09Params, prefix []int) (out schedOut) {
	x := runExec(job, freezeAllBut(), func(x *Exec) {
		dir := x.dir + "/L"
		in := x.Start("L", dir, 9001, nil)
		c0 := x.Dial(in.Addr)
		c09Populate(c0, p.Pre)
		model := newMState()
		for _, cmd := range p.Pre {
			mApply(model, cmd)
		}
		n := len(p.Writers)
		clis := make([]*Cli, n)
		for i := range clis {
			clis[i] = x.Dial(in.Addr)
		}
		vsched.Quiesce()
		// release: AOFSHRINK on c0 and every writer's pipeline at once
		c0.c.Inject(respCmd("AOFSHRINK"))
		for i, wr := range p.Writers {
			var seg []byte
			for _, cmd := range wr {
				seg = append(seg, respCmd(cmd...)...)
			}
			clis[i].c.Inject(seg)
		}
		vsched.Prefix = prefix
		vsched.Exploring = true
		started := false
		done := vsched.WaitUntilOr(func() bool {
			if in.S.shrinking {
				started = true
			}
			if c0.c.Avail() == 0 {
				return false
			}
			for i, wr := range p.Writers {
				if countReplies(clis[i]) < len(wr) {
					return false
				}
			}
			return !in.S.shrinking && vsched.AliveNamed("L", "aofshrink") == 0
		}, int64(60*stdtime.Second))
		vsched.Quiesce()
		vsched.Exploring = false
		_ = started
		out.Trace = append([]vsched.ChoicePoint(nil), vsched.Trace...)
		out.Diverged = vsched.Diverged
		if len(vsched.Crashes) > 0 {
			out.VSig = "C09/server-crash:" + p.Name
			out.VDetail = vsched.Crashes[0].Value
			return
		}
		if !done {
			out.VSig = "C09/no-completion:" + p.Name
			out.VDetail = "shrink or a writer did not complete: " + vsched.Dump()
			out.Obs = "INCOMPLETE"
			return
		}
		// single writer connections are sequential, several writers touch disjoint keys:
		// the acknowledged state is the model after all writes in any order
		var replies []string
		for i, wr := range p.Writers {
			for _, cmd := range wr {
				r, _ := clis[i].ReadReply()
				exp := mApply(model, cmd)
				replies = append(replies, r.String())
				if !mMatch(exp, r) && !p.NoModel {
					out.VSig = "C09/reply:" + p.Name
					out.VDetail = fmt.Sprintf("%v replied %s, model %s", cmd, r, exp)
				}
			}
		}
		c := x.Dial(in.Addr)
		live, _ := serverCanon(c)
		liveFull := fullDump(c)
		want := model.canon()
		if i := strings.Index(want, "@"); i >= 0 {
			want = want[:i] // hooks / channels are compared through the restart dump
		}
		reported := asMap(c.Do("SERVER"))["aof_size"]
		c.Close()
		in.Stop()
		// the size the server reports for its log is the size of the file: a rewrite
		// that lets buffered commands reach the new file a second time breaks this
		if fi, err := os.Stat(filepath.Join(dir, "appendonly.aof")); err == nil && reported != fmt.Sprint(fi.Size()) && out.VSig == "" {
			out.VSig = "C09/aof-size-vs-file:" + p.Name
			out.VDetail = fmt.Sprintf("SERVER reported aof_size %s, appendonly.aof holds %d bytes after the rewrite and the concurrent writes (commands written twice?)", reported, fi.Size())
		}
		in2, serr := x.TryStart("L2", dir, 9002, nil)
		if serr != nil {
			out.Obs = "RESTART-FAILS"
			out.VSig = "C09/restart-fails-on-shrunk-log:" + p.Name
			out.VDetail = fmt.Sprintf("the server does not start on the log the rewrite produced: %v", serr)
			return
		}
		c2 := x.Dial(in2.Addr)
		after, _ := serverCanon(c2)
		afterFull := fullDump(c2)
		c2.Close()
		out.Obs = fmt.Sprintf("%v | live=%d after=%d", replies, fnv(live)%100000, fnv(after)%100000)
		if out.VSig != "" {
			return
		}
		if live != want && !p.NoModel {
			out.VSig = "C09/live-state:" + p.Name
			out.VDetail = fmt.Sprintf("after shrink + writers the server serves %s, acknowledged writes give %s", vclip(live, 500), vclip(want, 500))
			return
		}
		if afterFull != liveFull {
			sig := "C09/restart-loses-concurrent-write:" + p.Name
			// classify: is the whole difference confined to collections moved by a
			// RENAME / RENAMENX issued while the rewrite was scanning?
			moved := map[string]bool{}
			for _, wr := range p.Writers {
				for _, cmd := range wr {
					if len(cmd) == 3 && strings.HasPrefix(strings.ToUpper(cmd[0]), "RENAME") {
						moved[cmd[1]], moved[cmd[2]] = true, true
					}
				}
			}
			if len(moved) > 0 && canonWithout(live, moved) == canonWithout(after, moved) && strings.HasSuffix(afterFull, liveFull[len(live):]) {
				sig = "C09/rename-during-shrink-lost-on-restart:" + p.Name
			}
			out.VSig = sig
			out.VDetail = fmt.Sprintf("restart on the shrunk log gives %s ; the server served %s", vclip(afterFull, 600), vclip(liveFull, 600))
		}
	})
	if strings.HasPrefix(x.Err, "deadlock") && out.VSig == "" {
		out.VSig = "C09/deadlock:" + p.Name
		out.VDetail = x.Err
		out.Obs = "DEADLOCK"
	} else if x.Err != "" {
		out.Err = x.Err
	}
	return out
}

// countReplies counts complete RESP values buffered on a client without consuming them.
func countReplies(c *Cli) int {
	c.buf = append(c.buf, c.c.Drain()...)
	n := 0
	b := c.buf
	for {
		_, rest, ok, err := parseRESP(b)
		if err != nil || !ok {
			return n
		}
		n++
		b = rest
	}
}

func c09SchedScenarios(tier string) []c09Params {
	// three collections (one key batch), the middle one is the writers' target
	pre := [][]string{w("SET ka a POINT 1 1"), w("SET kb a FIELD f 1 POINT 2 2"), w("SET kb b POINT 2 3"), w("SET kc a POINT 3 3")}
	one := func(cmds ...string) [][]string {
		var out [][]string
		for _, c := range cmds {
			out = append(out, w(c))
		}
		return out
	}
	S := func(name string, writers ...[][]string) c09Params { return c09Params{Name: name, Pre: pre, Writers: writers} }
	var big [][]string
	big = append(big, w("SET ka a POINT 1 1"))
	for i := 0; i < 40; i++ {
		big = append(big, w(fmt.Sprintf("SET kb id%02d POINT 2 %d", i, i)))
	}
	big = append(big, w("SET kc a POINT 3 3"), w("SET kc b POINT 3 4"), w("SET kd zz POINT 4 4"))
	var tenKeys [][]string
	for i := 0; i < 11; i++ {
		tenKeys = append(tenKeys, w(fmt.Sprintf("SET c%02d a POINT 1 %d", i, i)), w(fmt.Sprintf("SET c%02d b POINT 2 %d", i, i)))
	}
	scs := []c09Params{
		{Name: "drop-collection-between-its-id-batches", Pre: big, Writers: [][][]string{one("DROP kb")}},
		// the rewrite takes collection keys eight at a time: the last key of a batch vanishes before the next batch is taken
		{QuickBound: 1, Name: "drop-last-collection-of-a-key-batch", Pre: tenKeys, Writers: [][][]string{one("DROP c07")}},
		{QuickBound: 1, Name: "rename-last-collection-of-a-key-batch", Pre: tenKeys, Writers: [][][]string{one("RENAME c07 zz")}},
		{QuickBound: 1, Name: "second-aofshrink-while-running", Pre: pre, Writers: [][][]string{one("AOFSHRINK", "SET ka z POINT 9 9", "DEL kb b")}},
		S("fset-then-del-ahead-of-cursor", one("FSET kc a f 3", "DEL kc a")),
		S("set-new-key-before-cursor", one("SET k0 n POINT 9 9")),
		S("set-new-key-after-cursor", one("SET kz n POINT 9 9")),
		S("set-existing", one("SET kb a POINT 5 5")),
		S("fset-del", one("FSET kb a f 7", "DEL kb b")),
		S("pdel-drop", one("PDEL kb *", "DROP kc")),
		S("rename-to-scanned-side", one("RENAME kc k0")),
		S("rename-to-unscanned-side", one("RENAME ka kz")),
		S("rename-over-existing", one("RENAME kc ka")),
		{Name: "rename-over-existing-with-more-ids", Pre: append(append([][]string{}, pre...), w("SET ka x POINT 1 9"), w("SET ka y POINT 1 8")), Writers: [][][]string{one("RENAME kc ka")}},
		S("renamenx", one("RENAMENX kb k0")),
		S("jset-expire", append(one("EXPIRE kb a 100"), []string{"JSET", "kb", "j", "x", "1"})),
		S("flushdb", one("FLUSHDB", "SET kb z POINT 1 1")),
		// one name used for a hook, deleted, then used for a channel while the rewrite scans (and the other way round)
		{QuickBound: 1, Name: "hook-then-channel-of-the-same-name", Pre: pre, Writers: [][][]string{one("SETHOOK nx http://127.0.0.1:1/x NEARBY k9 FENCE POINT 50 50 100", "DELHOOK nx", "SETCHAN nx NEARBY k9 FENCE POINT 50 50 100")}},
		{QuickBound: 1, Name: "channel-then-hook-of-the-same-name", Pre: pre, Writers: [][][]string{one("SETCHAN ny NEARBY k9 FENCE POINT 50 50 100", "DELCHAN ny", "SETHOOK ny http://127.0.0.1:1/x NEARBY k9 FENCE POINT 50 50 100")}},
		// commands whose effect depends on the document they meet (array element removal / append)
		{Name: "jdel-array-element-ahead-of-cursor", Pre: append(append([][]string{}, pre...), []string{"SET", "kc", "j", "STRING", `{"list":["a","b","c"]}`}), Writers: [][][]string{one("JDEL kc j list.0")}, NoModel: true},
		// the same edits on an array inside a GeoJSON Feature (JSET / JDEL re-enter SET for geometries)
		{Name: "jset-array-append-in-feature-ahead-of-cursor", Pre: append(append([][]string{}, pre...), []string{"SET", "kc", "g", "OBJECT", `{"type":"Feature","geometry":{"type":"Point","coordinates":[1,2]},"properties":{"tags":["a","b"]}}`}), Writers: [][][]string{one("JSET kc g properties.tags.-1 c")}, NoModel: true},
		{Name: "jdel-array-element-in-feature-ahead-of-cursor", Pre: append(append([][]string{}, pre...), []string{"SET", "kc", "g", "OBJECT", `{"type":"Feature","geometry":{"type":"Point","coordinates":[1,2]},"properties":{"tags":["a","b","c"]}}`}), Writers: [][][]string{one("JDEL kc g properties.tags.0")}, NoModel: true},
		{Name: "jset-array-append-ahead-of-cursor", Pre: append(append([][]string{}, pre...), []string{"SET", "kc", "j", "STRING", `{"list":["a","b","c"]}`}), Writers: [][][]string{one("JSET kc j list.-1 d")}, NoModel: true},
		S("sethook-delhook", [][]string{append(w("SETCHAN ch1"), w("NEARBY k9 FENCE POINT 50 50 100")...), w("DELCHAN ch1"), append(w("SETCHAN ch2"), w("NEARBY k9 FENCE POINT 50 50 100")...)}),
	}
	if tier == "thorough" {
		scs = append(scs,
			S("two-writers", one("SET ka b POINT 1 2", "DEL ka a"), one("SET kc b POINT 3 4", "RENAME kc kd")),
			S("rename-chain", one("RENAME ka kz", "RENAME kz k0")),
			S("drop-recreate", one("DROP kb", "SET kb n POINT 7 7")),
		)
	}
	return scs
}

func checkC09Sched(job *Job, res *Result) {
	res.Rule = "SCHED: AOFSHRINK released together with 1-2 writer connections (1-3 commands) on a 3-collection dataset; every schedule within the preemption bound at the lock/file operations of the real shrink goroutine; oracle: served state = acknowledged writes, restart on the shrunk log = served state; distinct = distinct (scenario, replies, dumps)"
	if job.Replay != nil {
		replaySched(job, res, func(params []byte, sched []int) schedOut {
			var p c09Params
			mustJSON(params, &p)
			return c09Run(job, p, sched)
		})
		return
	}
	bound := 2
	if b, ok := job.Params["bound"].(float64); ok {
		bound = int(b)
	}
	only, _ := job.Params["only"].(string)
	for _, p := range c09SchedScenarios(job.Tier) {
		p := p
		if only != "" && only != p.Name {
			continue
		}
		sc := schedScenario{Name: "c09." + p.Name, Params: p, Run: func(prefix []int) schedOut { return c09Run(job, p, prefix) }}
		b := bound
		if job.Tier != "thorough" && p.QuickBound > 0 && p.QuickBound < b {
			b = p.QuickBound
		}
		st := exploreSched(job, res, sc, b)
		res.Extra[sc.Name] = map[string]any{"execs": st.Execs, "outcomes": len(st.Outcomes), "max_choice_points": st.MaxPoints}
		if p.Name == "set-existing" {
			res.Sample(map[string]any{"scenario": sc.Name, "params": p, "outcomes": len(st.Outcomes)})
		}
		if res.EngineError != "" {
			return
		}
	}
}

// ---------------------------------------------------------------- FAULT

func checkC09Fault(job *Job, res *Result) {
	res.Rule = "FAULT: for datasets of the catalogue, one write before and one during-free shrink; the directory as of EVERY completed file operation from the AOFSHRINK command to the end of the rewrite is started as a crashed server; recovered state must equal the acknowledged state; distinct = distinct (dataset, operation kind at the crash point)"
	dsets := c09Datasets(job.Tier)
	caseNo := 0
	for _, d := range dsets {
		if d.Name == "deadlines" {
			continue // TTL re-basing makes dumps time dependent; covered by c09seq
		}
		d := d
		var nops int
		// first pass: learn the operation log length (deterministic)
		var k0 int
		var want string
		x := runExec(job, freezeAllBut(), func(x *Exec) {
			in := x.Start("L", x.dir+"/L", 9001, nil)
			c := x.Dial(in.Addr)
			c09Populate(c, d.Cmds)
			want = fullDump(c)
			k0 = len(vos.Log)
			waitShrink(in, c)
			nops = len(vos.Log)
		})
		if x.Err != "" {
			res.EngineError = x.Err
			return
		}
		res.States += nops - k0 + 1
		for k := k0; k <= nops; k++ {
			caseNo++
			if caseNo%job.NShards != job.Shard {
				continue
			}
			k := k
			xx := runExec(job, freezeAllBut(), func(x *Exec) {
				dir := x.dir + "/L"
				in := x.Start("L", dir, 9001, nil)
				c := x.Dial(in.Addr)
				c09Populate(c, d.Cmds)
				waitShrink(in, c)
				desc := opDesc(k)
				cd := x.dir + "/crash"
				if err := vos.Materialise(k, dir, cd); err != nil {
					panic(err)
				}
				viol := func(sig, detail string) {
					res.Violate("C09/"+sig, fmt.Sprintf("%s  [dataset %s, crash after file operation %d of %d: %s; directory then holds %v]", detail, d.Name, k, nops, desc, listDir(cd)),
						map[string]any{"dataset": d.Name, "k": k})
				}
				// the same crash image in a data directory that was once migrated from
				// the legacy log format: the legacy file "aof" is still there (a
				// migration never removes it) and must not come back to life
				ld := x.dir + "/crash-legacy"
				if err := vos.Materialise(k, dir, ld); err != nil {
					panic(err)
				}
				os.WriteFile(filepath.Join(ld, "aof"), legacyAOF("set legacyk old point 1 1"), 0600)
				if inL, err := x.TryStart("KL", ld, 9105, nil); err != nil {
					viol("crash-recovery-fails:legacy-file-present", fmt.Sprintf("server does not start: %v", err))
				} else {
					cl := x.Dial(inL.Addr)
					gotL := fullDump(cl)
					cl.Close()
					inL.Stop()
					if gotL != want {
						viol("crash-loses-data:legacy-file-present", fmt.Sprintf("with a stale legacy log file 'aof' in the directory: recovered %s ; acknowledged state %s", vclip(gotL, 300), vclip(want, 300)))
					}
				}
				in3, err := x.TryStart("K", cd, 9100, nil)
				if err != nil {
					viol("crash-recovery-fails:"+strings.Fields(desc)[0], fmt.Sprintf("server does not start: %v", err))
					return
				}
				c3 := x.Dial(in3.Addr)
				got := fullDump(c3)
				c3.Close()
				if got != want {
					viol("crash-loses-data:after-"+strings.ReplaceAll(desc, " ", "-"), fmt.Sprintf("recovered %s ; acknowledged state %s", vclip(got, 300), vclip(want, 300)))
				}
				res.DistinctS(d.Name + "|" + desc)
				// life goes on after the crash: the dataset shrinks, the log is
				// rewritten again (over whatever the interrupted rewrite left
				// behind), and a restart must reproduce the served state
				if fi, err := os.Stat(filepath.Join(cd, "appendonly.aof-shrink")); err == nil && fi.Size() > 0 {
					c4 := x.Dial(in3.Addr)
					c4.Do("FLUSHDB")
					c4.Do("SET", "after", "crash", "POINT", "1", "1")
					if r := waitShrink(in3, c4); r != "+OK" {
						viol("second-shrink", "AOFSHRINK after crash recovery -> "+r)
					}
					served := fullDump(c4)
					c4.Close()
					in3.Stop()
					in4, err := x.TryStart("K2", cd, 9101, nil)
					if err != nil {
						viol("restart-after-second-shrink-fails", fmt.Sprintf("after crash, recovery, FLUSHDB + SET, AOFSHRINK: the server does not start: %v", err))
						return
					}
					c5 := x.Dial(in4.Addr)
					if again := fullDump(c5); again != served {
						viol("second-shrink-restart", fmt.Sprintf("after crash, recovery, FLUSHDB + SET, AOFSHRINK, restart: %s ; served %s", vclip(again, 300), vclip(served, 300)))
					}
					c5.Close()
					res.DistinctS(d.Name + "|second-shrink|" + desc)
				}
			})
			if xx.Err != "" || len(xx.Crashes) > 0 {
				res.Violate("C09/crash-recovery-hangs", fmt.Sprint(xx.Err, xx.Crashes, " dataset ", d.Name, " k=", k), map[string]any{"dataset": d.Name, "k": k})
			}
			res.Evaluations++
			res.Transitions++
			res.Validated++
		}
	}
}

func listDir(d string) []string {
	var out []string
	ents, _ := os.ReadDir(d)
	for _, e := range ents {
		fi, _ := e.Info()
		sz := int64(-1)
		if fi != nil {
			sz = fi.Size()
		}
		out = append(out, fmt.Sprintf("%s(%d)", e.Name(), sz))
	}
	return out
}

// canonWithout removes the collections named in skip from a canonical dump.
func canonWithout(canon string, skip map[string]bool) string {
	var sb strings.Builder
	for canon != "" {
		i := strings.Index(canon, "{")
		j := strings.Index(canon, "}")
		if i < 0 || j < i {
			break
		}
		// "}" may occur inside JSON values: find the "}" that is followed by a key or the end
		depth := 0
		j = -1
		for p := i; p < len(canon); p++ {
			if canon[p] == '{' {
				depth++
			} else if canon[p] == '}' {
				depth--
				if depth == 0 {
					j = p
					break
				}
			}
		}
		if j < 0 {
			break
		}
		if !skip[canon[:i]] {
			sb.WriteString(canon[:j+1])
		}
		canon = canon[j+1:]
	}
	return sb.String()
}

// legacyAOF encodes commands in the pre-1.0 log format read by migrateAOF:
// uint32 length, the command line, the same length again, a zero byte.
func legacyAOF(lines ...string) []byte {
	var out []byte
	for _, l := range lines {
		n := make([]byte, 4)
		binary.LittleEndian.PutUint32(n, uint32(len(l)))
		out = append(out, n...)
		out = append(out, l...)
		out = append(out, n...)
		out = append(out, 0)
	}
	return out
}
