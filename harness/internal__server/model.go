//go:build verif

package server

// Reference model of the keyspace: collection -> id -> (object, fields,
// has-deadline).  Deliberately boring: maps, strings, a 60-line ordered JSON
// editor.  Reply conventions (which reply shape a command uses) follow the
// command documentation; semantic content comes from the maps.

import (
	"unicode/utf8"
	"regexp"
	"math"
	"fmt"
	"sort"
	"strconv"
	"strings"

	"github.com/mmcloughlin/geohash"
)

type mObj struct {
	Kind   byte // 'g' geometry, 'e' empty geometry, 's' string
	Val    string
	Fields map[string]string // name -> data; zero values are absent
	Dead   bool              // has a deadline
	TTL    float64           // seconds given at the time it was set (informational)
	// Zombie: past its deadline but possibly not swept yet (the sweeper runs every
	// 200 ms); only used to keep such states apart when deduplicating histories.
	Zombie bool
}

func (o *mObj) clone() *mObj {
	c := *o
	c.Fields = map[string]string{}
	for k, v := range o.Fields {
		c.Fields[k] = v
	}
	return &c
}

type mHook struct {
	Spec string
	Dead bool
	TTL  float64
}

type mState struct {
	Cols  map[string]map[string]*mObj
	Hooks map[string]*mHook // "h:name" / "c:name" -> definition
	// Timed: deadlines are part of the state (C14); Now is the model clock (s).
	Timed bool
	Now   float64
	// Expired lists what the last @advance removed ("key id" / "c:name").
	Expired []string
	// RO: READONLY yes is in effect (data-modifying commands are refused)
	RO bool
}

func newMState() *mState {
	return &mState{Cols: map[string]map[string]*mObj{}, Hooks: map[string]*mHook{}}
}

func (s *mState) clone() *mState {
	c := newMState()
	for k, col := range s.Cols {
		nc := map[string]*mObj{}
		for id, o := range col {
			nc[id] = o.clone()
		}
		c.Cols[k] = nc
	}
	for k, h := range s.Hooks {
		hh := *h
		c.Hooks[k] = &hh
	}
	c.Timed, c.Now = s.Timed, s.Now
	c.RO = s.RO
	return c
}

func (o *mObj) fieldsStr() string {
	var parts []string
	for _, f := range sortedKeys(o.Fields) {
		parts = append(parts, f+"="+o.Fields[f])
	}
	return strings.Join(parts, ",")
}

// canon is the canonical visible form of the state (also the dedup key).
func (s *mState) canon() string {
	var sb strings.Builder
	for _, k := range sortedKeys(s.Cols) {
		sb.WriteString(k + "{")
		col := s.Cols[k]
		for _, id := range sortedKeys(col) {
			o := col[id]
			d := "-"
			if o.Dead {
				d = "T"
			}
			if o.Zombie {
				d = "Z"
			}
			fmt.Fprintf(&sb, "%s=%s|%s|%s;", id, o.Val, o.fieldsStr(), d)
		}
		sb.WriteString("}")
	}
	for _, k := range sortedKeys(s.Hooks) {
		h := s.Hooks[k]
		d := "-"
		if h.Dead {
			d = "T"
		}
		sb.WriteString("@" + k + "=" + h.Spec + "|" + d + ";")
	}
	return sb.String() // (RO is a server setting, not part of the visible dataset)
}

// canonTimed adds remaining lifetimes and the sweeper phase (C14 dedup key).
func (s *mState) canonTimed() string {
	var sb strings.Builder
	sb.WriteString(s.canon())
	fmt.Fprintf(&sb, "#phase=%d", int(s.Now*1000+0.5)%200)
	if s.RO {
		sb.WriteString(",RO") // a server setting, but one that decides what the next symbols do
	}
	for _, k := range sortedKeys(s.Cols) {
		for _, id := range sortedKeys(s.Cols[k]) {
			if o := s.Cols[k][id]; o.Dead {
				fmt.Fprintf(&sb, ",%s/%s:%d", k, id, int(o.TTL*1000+0.5))
			}
		}
	}
	for _, k := range sortedKeys(s.Hooks) {
		if h := s.Hooks[k]; h.Dead {
			fmt.Fprintf(&sb, ",%s:%d", k, int(h.TTL*1000+0.5))
		}
	}
	return sb.String()
}

// ---- object catalogue -------------------------------------------------------

func fnum(v float64) string { return strconv.FormatFloat(v, 'f', -1, 64) }

// mParseObject interprets the object part of a SET; returns kind, canonical
// string, number of args consumed, error class.
func mParseObject(a []string) (kind byte, val string, n int, errc string) {
	switch strings.ToLower(a[0]) {
	case "string":
		if len(a) < 2 {
			return 0, "", 0, "~err:wrong number of arguments"
		}
		return 's', a[1], 2, ""
	case "point":
		if len(a) < 3 {
			return 0, "", 0, "~err:wrong number of arguments"
		}
		lat, e1 := strconv.ParseFloat(a[1], 64)
		lon, e2 := strconv.ParseFloat(a[2], 64)
		n = 3
		var z float64
		hasZ := false
		if len(a) > 3 {
			if zz, e := strconv.ParseFloat(a[3], 64); e == nil {
				if math.IsNaN(zz) || math.IsInf(zz, 0) {
					return 0, "", 0, "~err:invalid argument '" + a[3] + "'"
				}
				z, hasZ, n = zz, true, 4
			}
		}
		// coordinates are finite numbers
		if e1 == nil && (math.IsNaN(lat) || math.IsInf(lat, 0)) {
			e1 = strconv.ErrSyntax
		}
		if e2 == nil && (math.IsNaN(lon) || math.IsInf(lon, 0)) {
			e2 = strconv.ErrSyntax
		}
		if e1 != nil {
			return 0, "", 0, "~err:invalid argument '" + a[1] + "'"
		}
		if e2 != nil {
			return 0, "", 0, "~err:invalid argument '" + a[2] + "'"
		}
		if hasZ {
			return 'g', `{"type":"Point","coordinates":[` + fnum(lon) + "," + fnum(lat) + "," + fnum(z) + `]}`, n, ""
		}
		return 'g', `{"type":"Point","coordinates":[` + fnum(lon) + "," + fnum(lat) + `]}`, n, ""
	case "bounds":
		if len(a) < 5 {
			return 0, "", 0, "~err:wrong number of arguments"
		}
		var v [4]float64
		for i := 0; i < 4; i++ {
			f, e := strconv.ParseFloat(a[1+i], 64)
			if e != nil || math.IsNaN(f) || math.IsInf(f, 0) {
				return 0, "", 0, "~err:invalid argument '" + a[1+i] + "'"
			}
			v[i] = f
		}
		minx, miny, maxx, maxy := fnum(v[1]), fnum(v[0]), fnum(v[3]), fnum(v[2])
		return 'g', `{"type":"Polygon","coordinates":[[[` + minx + "," + miny + "],[" + maxx + "," + miny + "],[" + maxx + "," + maxy + "],[" + minx + "," + maxy + "],[" + minx + "," + miny + `]]]}`, 5, ""
	case "hash":
		if len(a) < 2 {
			return 0, "", 0, "~err:wrong number of arguments"
		}
		lat, lon := geohash.Decode(a[1])
		return 'g', `{"type":"Point","coordinates":[` + fnum(lon) + "," + fnum(lat) + `]}`, 2, ""
	case "object":
		if len(a) < 2 {
			return 0, "", 0, "~err:wrong number of arguments"
		}
		j := a[1]
		if !strings.HasPrefix(j, "{") || !strings.Contains(j, `"type"`) {
			return 0, "", 0, "~err:"
		}
		k := byte('g')
		if strings.Contains(j, `"geometries":[]`) || strings.Contains(j, `"features":[]`) || strings.Contains(j, `"coordinates":[]`) {
			k = 'e'
		}
		return k, j, 2, ""
	}
	return 0, "", 0, "~err:invalid argument '" + a[0] + "'"
}

// mFieldVal canonicalises a field value the way the documentation describes:
// numbers stay numbers (as written), anything else is a string; "0" is absent.
func mFieldZero(v string) bool {
	f, err := strconv.ParseFloat(strings.TrimSpace(v), 64)
	return err == nil && f == 0 && strings.TrimSpace(v) == "0"
}

func mReserved(f string) bool { return f == "z" || f == "lat" || f == "lon" }

// ---- command interpreter -----------------------------------------------------

const (
	eKey  = "~err:key not found"
	eID   = "~err:id not found"
	eNArg = "~err:wrong number of arguments"
)

func (s *mState) obj(key, id string) *mObj {
	if c := s.Cols[key]; c != nil {
		return c[id]
	}
	return nil
}

func (s *mState) put(key, id string, o *mObj) {
	if s.Cols[key] == nil {
		s.Cols[key] = map[string]*mObj{}
	}
	s.Cols[key][id] = o
}

func (s *mState) del(key, id string) bool {
	c := s.Cols[key]
	if c == nil || c[id] == nil {
		return false
	}
	delete(c, id)
	if len(c) == 0 {
		delete(s.Cols, key)
	}
	return true
}

func mObjReply(o *mObj, withfields bool) string {
	v := strconv.Quote(o.Val)
	if !withfields {
		return v
	}
	if len(o.Fields) == 0 {
		return "[" + v + "]"
	}
	var fv []string
	for _, f := range sortedKeys(o.Fields) {
		fv = append(fv, strconv.Quote(f), strconv.Quote(o.Fields[f]))
	}
	return "[" + v + " [" + strings.Join(fv, " ") + "]]"
}

// mApply applies one command to the state (in place) and returns the expected
// RESP reply in the notation of rv.String(), or a "~" matcher.
func mApply(s *mState, a []string) string {
	cmd := strings.ToLower(a[0])
	if cmd == "readonly" {
		if len(a) != 2 {
			return eNArg
		}
		switch strings.ToLower(a[1]) {
		case "yes":
			s.RO = true
		case "no":
			s.RO = false
		default:
			return "~err:invalid argument"
		}
		return "+OK"
	}
	if s.RO {
		switch cmd {
		case "set", "fset", "del", "pdel", "drop", "rename", "renamenx", "flushdb", "expire", "persist", "jset", "jdel",
			"sethook", "setchan", "delhook", "delchan", "pdelhook", "pdelchan":
			return "~err:read only"
		}
	}
	switch cmd {
	case "set":
		if len(a) < 3 {
			return eNArg
		}
		key, id := a[1], a[2]
		fields := [][2]string{}
		var nx, xx, hasEx bool
		var ex float64
		var kind byte
		var val string
		for i := 3; i < len(a); {
			switch strings.ToLower(a[i]) {
			case "field":
				if i+2 >= len(a) {
					return eNArg
				}
				if mReserved(a[i+1]) {
					return "~err:invalid argument '" + a[i+1] + "'"
				}
				fields = append(fields, [2]string{a[i+1], a[i+2]})
				i += 3
			case "ex":
				if i+1 >= len(a) {
					return eNArg
				}
				f, err := strconv.ParseFloat(a[i+1], 64)
				if err != nil || math.IsNaN(f) {
					return "~err:invalid argument '" + a[i+1] + "'"
				}
				hasEx, ex = true, f
				i += 2
			case "nx":
				if xx {
					return "~err:invalid argument"
				}
				nx = true
				i++
			case "xx":
				if nx {
					return "~err:invalid argument"
				}
				xx = true
				i++
			default:
				k, v, n, errc := mParseObject(a[i:])
				if errc != "" {
					return errc
				}
				kind, val = k, v
				i += n
			}
		}
		if kind == 0 {
			return eNArg
		}
		old := s.obj(key, id)
		if xx && old == nil {
			return "<nil>"
		}
		if nx && old != nil {
			return "<nil>"
		}
		if s.Timed && ex < 0 {
			ex = 0 // a deadline in the past: overdue as of now (the sweeper's window starts now)
		}
		o := &mObj{Kind: kind, Val: val, Fields: map[string]string{}, Dead: hasEx, TTL: ex}
		if old != nil {
			for k, v := range old.Fields {
				o.Fields[k] = v
			}
		}
		for _, f := range fields {
			if mFieldZero(f[1]) {
				delete(o.Fields, f[0])
			} else {
				o.Fields[f[0]] = f[1]
			}
		}
		s.put(key, id, o)
		return "+OK"
	case "fset":
		if len(a) < 5 {
			return eNArg
		}
		key, id := a[1], a[2]
		xx := false
		var fields [][2]string
		for i := 3; i < len(a); {
			if strings.ToLower(a[i]) == "xx" {
				xx = true
				i++
				continue
			}
			if i+1 >= len(a) {
				return eNArg
			}
			if mReserved(a[i]) {
				return "~err:invalid argument '" + a[i] + "'"
			}
			fields = append(fields, [2]string{a[i], a[i+1]})
			i += 2
		}
		if s.Cols[key] == nil {
			return eKey
		}
		o := s.obj(key, id)
		if o == nil {
			if xx {
				return ":0"
			}
			return eID
		}
		n := 0
		for _, f := range fields {
			cur, has := o.Fields[f[0]]
			if mFieldZero(f[1]) {
				if has {
					delete(o.Fields, f[0])
					n++
				}
			} else if !has || cur != f[1] {
				o.Fields[f[0]] = f[1]
				n++
			}
		}
		return ":" + strconv.Itoa(n)
	case "del":
		if len(a) < 3 {
			return eNArg
		}
		e404 := false
		for _, x := range a[3:] {
			if strings.ToLower(x) != "erron404" {
				return "~err:invalid argument '" + x + "'"
			}
			e404 = true
		}
		if s.Cols[a[1]] == nil {
			if e404 {
				return eKey
			}
			return ":0"
		}
		if s.del(a[1], a[2]) {
			return ":1"
		}
		if e404 {
			return eID
		}
		return ":0"
	case "pdel":
		if len(a) != 3 {
			return eNArg
		}
		n := 0
		if c := s.Cols[a[1]]; c != nil {
			for _, id := range sortedKeys(c) {
				if mGlob(a[2], id) {
					s.del(a[1], id)
					n++
				}
			}
		}
		return ":" + strconv.Itoa(n)
	case "drop":
		if len(a) != 2 {
			return eNArg
		}
		if s.Cols[a[1]] == nil {
			return ":0"
		}
		delete(s.Cols, a[1])
		return ":1"
	case "rename", "renamenx":
		if len(a) != 3 {
			return eNArg
		}
		c := s.Cols[a[1]]
		if c == nil {
			return eKey
		}
		// refused, and nothing changes, while a hook or channel is defined on either key
		for _, hk := range sortedKeys(s.Hooks) {
			if k := s.Hooks[hk].fenceKey(); k != "" && (k == a[1] || k == a[2]) {
				return "~err:key has"
			}
		}
		nx := cmd == "renamenx"
		if nx && s.Cols[a[2]] != nil {
			return ":0"
		}
		delete(s.Cols, a[1])
		s.Cols[a[2]] = c
		if nx {
			return ":1"
		}
		return "+OK"
	case "flushdb":
		if len(a) != 1 {
			return eNArg
		}
		s.Cols = map[string]map[string]*mObj{}
		s.Hooks = map[string]*mHook{}
		return "+OK"
	case "expire":
		if len(a) != 4 {
			return eNArg
		}
		f, err := strconv.ParseFloat(a[3], 64)
		if err != nil || math.IsNaN(f) {
			return "~err:invalid argument '" + a[3] + "'"
		}
		o := s.obj(a[1], a[2])
		if o == nil {
			return ":0"
		}
		if s.Timed && f < 0 {
			f = 0
		}
		o.Dead, o.TTL = true, f
		return ":1"
	case "persist":
		if len(a) != 3 {
			return eNArg
		}
		o := s.obj(a[1], a[2])
		if o == nil || !o.Dead {
			return ":0"
		}
		o.Dead = false
		return ":1"
	case "jset":
		if len(a) != 5 && len(a) != 6 {
			return eNArg
		}
		raw, str := false, false
		if len(a) == 6 {
			switch strings.ToLower(a[5]) {
			case "raw":
				raw = true
			case "str":
				str = true
			default:
				return "~err:invalid argument '" + a[5] + "'"
			}
		}
		v := a[4]
		if !raw && !str {
			if mIsJSONNumber(v) || v == "true" || v == "false" || v == "null" {
				raw = true
			}
		}
		if !raw {
			v = strconv.Quote(v)
		}
		o := s.obj(a[1], a[2])
		cur := ""
		if o != nil {
			cur = o.Val
		}
		if _, isObj := jSplitObject(cur); !isObj {
			cur = "" // a value that is not a JSON document is replaced by a new document
		}
		nj, ok := mJSONSet(cur, strings.Split(a[3], "."), v)
		if !ok {
			return "~any"
		}
		if o != nil && o.Kind != 's' {
			// geometry: behaves as SET key id OBJECT <new json> (keeps fields, drops the deadline)
			o.Val, o.Dead = nj, false
			return "+OK"
		}
		no := &mObj{Kind: 's', Val: nj, Fields: map[string]string{}}
		if o != nil {
			no.Fields = o.Fields
		}
		s.put(a[1], a[2], no)
		return "+OK"
	case "jdel":
		if len(a) != 4 {
			return eNArg
		}
		if s.Cols[a[1]] == nil {
			return ":0"
		}
		o := s.obj(a[1], a[2])
		if o == nil {
			return ":0"
		}
		nj, ok := mJSONDel(o.Val, strings.Split(a[3], "."))
		if !ok || nj == o.Val {
			return ":0"
		}
		if o.Kind != 's' {
			o.Val, o.Dead = nj, false
			return "+OK" // re-enters SET: the SET reply is returned
		}
		o.Val, o.Dead = nj, false
		return ":1"
	case "sethook", "setchan":
		pre := "h:"
		i := 3
		if cmd == "setchan" {
			pre, i = "c:", 2
		}
		if len(a) <= i {
			return eNArg
		}
		h := &mHook{}
		rest := a[i:]
		for j := 0; j+1 < len(rest); j++ {
			if strings.ToLower(rest[j]) == "ex" {
				if f, err := strconv.ParseFloat(rest[j+1], 64); err == nil && !math.IsNaN(f) {
					if s.Timed && f < 0 {
						f = 0
					}
					h.Dead, h.TTL = true, f
				}
			}
		}
		h.Spec = strings.Join(a[2:], " ")
		old := s.Hooks[pre+a[1]]
		s.Hooks[pre+a[1]] = h
		if old != nil && old.Spec == h.Spec && !h.Dead {
			return ":0"
		}
		if old != nil && old.Spec == h.Spec && old.Dead && old.TTL > 5e9 && h.TTL > 5e9 {
			return ":0" // both deadlines are clamped to the end of the representable range: nothing changed
		}
		return ":1"
	case "delhook", "delchan":
		if len(a) != 2 {
			return eNArg
		}
		pre := "h:"
		if cmd == "delchan" {
			pre = "c:"
		}
		if s.Hooks[pre+a[1]] == nil {
			return ":0"
		}
		delete(s.Hooks, pre+a[1])
		return ":1"
	case "pdelhook", "pdelchan":
		if len(a) != 2 {
			return eNArg
		}
		pre := "h:"
		if cmd == "pdelchan" {
			pre = "c:"
		}
		n := 0
		for _, k := range sortedKeys(s.Hooks) {
			if strings.HasPrefix(k, pre) && mGlob(a[1], k[2:]) {
				delete(s.Hooks, k)
				n++
			}
		}
		return ":" + strconv.Itoa(n)
	case "@advance":
		dt, _ := strconv.ParseFloat(a[1], 64)
		s.Expired = nil
		step := func(d float64) (limbo bool) {
			s.Now += d
			for _, k := range sortedKeys(s.Cols) {
				for _, id := range sortedKeys(s.Cols[k]) {
					o := s.Cols[k][id]
					if o.Dead {
						o.TTL -= d
						if s.Timed && o.TTL <= 0 && o.TTL > -0.4 {
							limbo = true
						}
					}
				}
			}
			for _, k := range sortedKeys(s.Hooks) {
				h := s.Hooks[k]
				if h.Dead {
					h.TTL -= d
					if s.Timed && h.TTL <= 0 && h.TTL > -0.4 {
						limbo = true
					}
				}
			}
			return
		}
		limbo := step(dt)
		for n := 0; limbo && n < 100; n++ {
			// settle: never observe an object inside the sweeper's 0.4 s window
			limbo = step(0.05)
		}
		for _, k := range sortedKeys(s.Cols) {
			for _, id := range sortedKeys(s.Cols[k]) {
				if o := s.Cols[k][id]; o.Dead && o.TTL <= 0 {
					if !s.Timed && o.TTL > -0.4 {
						o.Zombie = true // inside the sweeper's window: may or may not be gone
						continue
					}
					s.Expired = append(s.Expired, k+" "+id)
					s.del(k, id)
				}
			}
		}
		for _, k := range sortedKeys(s.Hooks) {
			if h := s.Hooks[k]; h.Dead && h.TTL <= 0 {
				s.Expired = append(s.Expired, k)
				delete(s.Hooks, k)
			}
		}
		return "~any"
	// ---- reads
	case "get":
		if len(a) < 3 {
			return eNArg
		}
		wf := false
		for _, x := range a[3:] {
			switch strings.ToLower(x) {
			case "withfields":
				wf = true
			case "object":
			default:
				return "~any"
			}
		}
		o := s.obj(a[1], a[2])
		if o == nil {
			return "<nil>"
		}
		return mObjReply(o, wf)
	case "fget":
		if len(a) < 4 {
			return eNArg
		}
		if s.Cols[a[1]] == nil {
			return eKey
		}
		o := s.obj(a[1], a[2])
		if o == nil {
			return eID
		}
		if v, ok := o.Fields[a[3]]; ok {
			return strconv.Quote(v)
		}
		return `"0"`
	case "exists":
		if len(a) != 3 {
			return eNArg
		}
		if s.Cols[a[1]] == nil {
			return eKey
		}
		if s.obj(a[1], a[2]) != nil {
			return ":1"
		}
		return ":0"
	case "fexists":
		if len(a) != 4 {
			return eNArg
		}
		if s.Cols[a[1]] == nil {
			return eKey
		}
		o := s.obj(a[1], a[2])
		if o == nil {
			return eID
		}
		if _, ok := o.Fields[a[3]]; ok {
			return ":1"
		}
		return ":0"
	case "ttl":
		if len(a) != 3 {
			return eNArg
		}
		o := s.obj(a[1], a[2])
		if o == nil {
			return ":-2"
		}
		if !o.Dead {
			return ":-1"
		}
		if s.Timed && o.TTL > 5e9 {
			return "~ttl" // a deadline beyond the representable range is clamped: some large number
		}
		if s.Timed {
			return ":" + strconv.Itoa(int(math.Max(o.TTL, 0)))
		}
		return "~ttl"
	case "type":
		if len(a) != 2 {
			return eNArg
		}
		if s.Cols[a[1]] == nil {
			return "+none"
		}
		return "+hash"
	case "keys":
		if len(a) != 2 {
			return eNArg
		}
		var ks []string
		for _, k := range sortedKeys(s.Cols) {
			if mGlob(a[1], k) {
				ks = append(ks, strconv.Quote(k))
			}
		}
		return "[" + strings.Join(ks, " ") + "]"
	case "scan":
		if len(a) < 2 {
			return "~any"
		}
		// options understood: MATCH pattern (repeatable), ASC, DESC, IDS
		var pats []string
		desc, idsOnly := false, false
		for i := 2; i < len(a); i++ {
			switch strings.ToLower(a[i]) {
			case "match":
				if i+1 >= len(a) {
					return "~any"
				}
				pats = append(pats, a[i+1])
				i++
			case "asc":
			case "desc":
				desc = true
			case "ids":
				idsOnly = true
			default:
				return "~any"
			}
		}
		var items []string
		c := s.Cols[a[1]]
		order := sortedKeys(c)
		if desc {
			for i, j := 0, len(order)-1; i < j; i, j = i+1, j-1 {
				order[i], order[j] = order[j], order[i]
			}
		}
		for _, id := range order {
			o := c[id]
			if len(pats) > 0 {
				hit := false
				for _, p := range pats {
					hit = hit || mGlob(p, id)
				}
				if !hit {
					continue
				}
			}
			if idsOnly {
				items = append(items, strconv.Quote(id))
				continue
			}
			it := strconv.Quote(id) + " " + strconv.Quote(o.Val)
			if len(o.Fields) > 0 {
				var fv []string
				for _, f := range sortedKeys(o.Fields) {
					fv = append(fv, strconv.Quote(f), strconv.Quote(o.Fields[f]))
				}
				it += " [" + strings.Join(fv, " ") + "]"
			}
			items = append(items, "["+it+"]")
		}
		return "[:0 [" + strings.Join(items, " ") + "]]"
	case "jget":
		if len(a) < 3 || len(a) > 5 {
			return eNArg
		}
		o := s.obj(a[1], a[2])
		if o == nil {
			return "<nil>"
		}
		if !strings.HasPrefix(o.Val, "{") {
			return "~any" // JGET on a value that is not a JSON document is not specified
		}
		if len(a) == 3 {
			return strconv.Quote(o.Val)
		}
		v, ok := mJSONGet(o.Val, strings.Split(a[3], "."))
		if !ok {
			return "<nil>"
		}
		if len(a) == 4 && strings.HasPrefix(v, `"`) {
			u, err := strconv.Unquote(v)
			if err == nil {
				v = u
			}
		}
		return strconv.Quote(v)
	}
	return "~any"
}

// mMatch compares a model expectation with an actual reply.
func mMatch(exp string, got rv) bool {
	switch {
	case exp == "~any":
		return true
	case exp == "~ttl":
		if got.K != ':' {
			return false
		}
		n, err := strconv.Atoi(got.S)
		return err == nil && n >= 0
	case strings.HasPrefix(exp, "~err:"):
		return got.K == '-' && strings.Contains(got.S, exp[5:])
	}
	return got.String() == exp
}

// mGlob: independent glob matcher (* ? [set] [^set] ranges, \ escape).
func mGlob(p, s string) bool {
	if p == "" {
		return s == ""
	}
	switch p[0] {
	case '*':
		for i := 0; i <= len(s); i++ {
			if mGlob(p[1:], s[i:]) {
				return true
			}
		}
		return false
	case '?':
		// one character, not one byte
		_, n := utf8.DecodeRuneInString(s)
		return s != "" && mGlob(p[1:], s[n:])
	case '[':
		if s == "" {
			return false
		}
		sr, sn := utf8.DecodeRuneInString(s)
		i := 1
		neg := false
		if i < len(p) && (p[i] == '^' || p[i] == '!') {
			neg = true
			i++
		}
		ok := false
		first := true
		for i < len(p) && (p[i] != ']' || first) {
			first = false
			if p[i] == '\\' && i+1 < len(p) {
				i++
			}
			lo, n := utf8.DecodeRuneInString(p[i:])
			i += n
			hi := lo
			if i+1 < len(p) && p[i] == '-' && p[i+1] != ']' {
				hi, n = utf8.DecodeRuneInString(p[i+1:])
				i += 1 + n
			}
			if lo <= sr && sr <= hi {
				ok = true
			}
		}
		if i >= len(p) {
			return false // unterminated class
		}
		return ok != neg && mGlob(p[i+1:], s[sn:])
	case '\\':
		if len(p) > 1 {
			return s != "" && s[0] == p[1] && mGlob(p[2:], s[1:])
		}
	}
	return s != "" && s[0] == p[0] && mGlob(p[1:], s[1:])
}

// ---- ordered JSON editing (objects only, dotted paths) -----------------------

type jPair struct {
	K string
	V string // raw
}

// jSplitObject splits a raw JSON object into ordered pairs; ok=false if raw is
// not an object.
func jSplitObject(raw string) ([]jPair, bool) {
	raw = strings.TrimSpace(raw)
	if len(raw) < 2 || raw[0] != '{' || raw[len(raw)-1] != '}' {
		return nil, false
	}
	var out []jPair
	i := 1
	skipWS := func() {
		for i < len(raw) && (raw[i] == ' ' || raw[i] == '\n' || raw[i] == '\t' || raw[i] == '\r') {
			i++
		}
	}
	readVal := func() (string, bool) {
		st := i
		depth := 0
		for i < len(raw) {
			c := raw[i]
			switch {
			case c == '"':
				i++
				for i < len(raw) && raw[i] != '"' {
					if raw[i] == '\\' {
						i++
					}
					i++
				}
				i++
				if depth == 0 {
					return raw[st:i], true
				}
				continue
			case c == '{' || c == '[':
				depth++
			case c == '}' || c == ']':
				if depth == 0 {
					return raw[st:i], i > st
				}
				depth--
				if depth == 0 {
					i++
					return raw[st:i], true
				}
			case c == ',' && depth == 0:
				return raw[st:i], i > st
			}
			i++
		}
		return "", false
	}
	for {
		skipWS()
		if i >= len(raw) {
			return nil, false
		}
		if raw[i] == '}' {
			return out, true
		}
		if raw[i] != '"' {
			return nil, false
		}
		ks, ok := readVal()
		if !ok {
			return nil, false
		}
		k, err := strconv.Unquote(ks)
		if err != nil {
			return nil, false
		}
		skipWS()
		if i >= len(raw) || raw[i] != ':' {
			return nil, false
		}
		i++
		skipWS()
		v, ok := readVal()
		if !ok {
			return nil, false
		}
		out = append(out, jPair{k, strings.TrimSpace(v)})
		skipWS()
		if i < len(raw) && raw[i] == ',' {
			i++
		}
	}
}

func jJoin(ps []jPair) string {
	var parts []string
	for _, p := range ps {
		parts = append(parts, strconv.Quote(p.K)+":"+p.V)
	}
	return "{" + strings.Join(parts, ",") + "}"
}

func mJSONGet(raw string, path []string) (string, bool) {
	for _, k := range path {
		ps, ok := jSplitObject(raw)
		if !ok {
			return "", false
		}
		found := false
		for _, p := range ps {
			if p.K == k {
				raw, found = p.V, true
				break
			}
		}
		if !found {
			return "", false
		}
	}
	return raw, true
}

func mJSONSet(raw string, path []string, val string) (string, bool) {
	if len(path) == 0 {
		return val, true
	}
	var ps []jPair
	if strings.TrimSpace(raw) != "" {
		var ok bool
		ps, ok = jSplitObject(raw)
		if !ok {
			return "", false
		}
	}
	for i := range ps {
		if ps[i].K == path[0] {
			nv, ok := mJSONSet(ps[i].V, path[1:], val)
			if !ok {
				return "", false
			}
			ps[i].V = nv
			return jJoin(ps), true
		}
	}
	nv, ok := mJSONSet("", path[1:], val)
	if !ok {
		return "", false
	}
	ps = append(ps, jPair{path[0], nv})
	return jJoin(ps), true
}

func mJSONDel(raw string, path []string) (string, bool) {
	ps, ok := jSplitObject(raw)
	if !ok {
		return raw, false
	}
	for i := range ps {
		if ps[i].K == path[0] {
			if len(path) == 1 {
				ps = append(ps[:i:i], ps[i+1:]...)
				return jJoin(ps), true
			}
			nv, ok := mJSONDel(ps[i].V, path[1:])
			if !ok {
				return raw, false
			}
			ps[i].V = nv
			return jJoin(ps), true
		}
	}
	return raw, true
}

var _ = sort.Strings

// fenceKey: the collection a hook / channel definition watches (the token after
// NEARBY / WITHIN / INTERSECTS in its specification).
func (h *mHook) fenceKey() string {
	f := strings.Fields(h.Spec)
	for i := 0; i+1 < len(f); i++ {
		switch strings.ToUpper(f[i]) {
		case "NEARBY", "WITHIN", "INTERSECTS":
			return f[i+1]
		}
	}
	return ""
}

var reJSONNumber = regexp.MustCompile(`^-?(0|[1-9][0-9]*)(\.[0-9]+)?([eE][+-]?[0-9]+)?$`)

// mIsJSONNumber: the number grammar of JSON (what JSET stores unquoted).
func mIsJSONNumber(v string) bool { return reJSONNumber.MatchString(v) }
