//go:build verif

package server

// C18 - scripts are atomic, honour their read-only variants, and are sandboxed.
//
// c18sched (SCHED): EVAL with two writes against other connections' reads and
//   writes - linearizable with the whole script as ONE step; EVALNA with each
//   call as a step of its own (never finer).
// c18seq (SEQ): every catalogue command shape that modifies data when issued
//   through EVAL is refused by EVALRO / EVALROSHA and changes nothing.
// c18box (explicit enumeration of everything reachable from a pooled state's
//   globals): reachable names are a subset of the documented allow-list, no Go
//   function of a forbidden library is reachable, new globals cannot be
//   created, and after EVERY sequence of <= 3 script-related commands no pooled
//   state retains KEYS / ARGV / EVAL_CMD / DEADLINE / ID / FIELDS / PROPERTIES.

import (
	"fmt"
	"os"
	"path/filepath"
	"strconv"
	"reflect"
	"runtime"
	"sort"
	"strings"

	"github.com/tidwall/tile38/internal/vshim/vos"
	lua "github.com/yuin/gopher-lua"
)

func init() {
	checks["c18sched"] = checkC18Sched
	checks["c18seq"] = checkC18Seq
	checks["c18box"] = checkC18Box
}

func c18Scenarios(tier string) []c07Params {
	pre := [][]string{w("SET k a FIELD f 1 POINT 1 1"), w("SET k b POINT 2 2")}
	scr := "tile38.call('SET','k','a','POINT',7,7); return tile38.call('SET','k','b','POINT',8,8)"
	scrModel := [][]string{w("SET k a POINT 7 7"), w("SET k b POINT 8 8")}
	scrRW := "local v = tile38.call('GET','k','a'); tile38.call('SET','k','c','STRING',v); return tile38.call('DEL','k','a')"
	scrRWModel := [][]string{{"SET", "k", "c", "STRING", `{"type":"Point","coordinates":[1,1]}`}, w("DEL k a")}
	two := func(a, b string) [][]string { return [][]string{w(a), w(b)} }
	one := func(a string) [][]string { return [][]string{w(a)} }
	scs := []c07Params{
		{Name: "eval-vs-gets", Pre: pre, Conns: [][][]string{{{"EVAL", scr, "0"}}, two("GET k a", "GET k b")}, Model: map[string][][]string{"0.0": scrModel}, Prop: "C18"},
		{Name: "eval-vs-scan", Pre: pre, Conns: [][][]string{{{"EVAL", scr, "0"}}, one("SCAN k")}, Model: map[string][][]string{"0.0": scrModel}, Prop: "C18"},
		{Name: "eval-vs-set", Pre: pre, Conns: [][][]string{{{"EVAL", scr, "0"}}, two("SET k a POINT 3 3", "GET k b")}, Model: map[string][][]string{"0.0": scrModel}, Prop: "C18"},
		{Name: "evalna-vs-gets", Pre: pre, Conns: [][][]string{{{"EVALNA", scr, "0"}}, two("GET k a", "GET k b")}, Model: map[string][][]string{"0.0": scrModel}, NonAtomic: map[string]bool{"0.0": true}, Prop: "C18"},
		{Name: "evalna-vs-eval", Pre: pre, Conns: [][][]string{{{"EVALNA", "tile38.call('SET','k','a','POINT',9,9); return tile38.call('SET','k','b','POINT',9,9)", "0"}}, {{"EVAL", scr, "0"}}},
			Model: map[string][][]string{"0.0": {w("SET k a POINT 9 9"), w("SET k b POINT 9 9")}, "1.0": scrModel}, NonAtomic: map[string]bool{"0.0": true}, Prop: "C18"},
		{Name: "evalro-vs-set", Pre: pre, Conns: [][][]string{{{"EVALRO", "return {tile38.call('GET','k','a'), tile38.call('GET','k','a')}", "0"}}, one("SET k a POINT 3 3")}, Prop: "C18"},
		// the sha flavours take their locks on their own path through the dispatcher
		{Name: "evalsha-vs-gets", Pre: append(append([][]string{}, pre...), []string{"SCRIPT", "LOAD", scr}), Conns: [][][]string{{{"EVALSHA", Sha1Sum(scr), "0"}}, two("GET k a", "GET k b")}, Model: map[string][][]string{"0.0": scrModel}, Prop: "C18"},
		{Name: "evalrosha-vs-set", Pre: append(append([][]string{}, pre...), []string{"SCRIPT", "LOAD", "return {tile38.call('GET','k','a'), tile38.call('GET','k','a')}"}), Conns: [][][]string{{{"EVALROSHA", Sha1Sum("return {tile38.call('GET','k','a'), tile38.call('GET','k','a')}"), "0"}}, one("SET k a POINT 3 3")}, Prop: "C18"},
	}
	// the same script under a TIMEOUT prefix: still one indivisible step under the exclusive lock
	scs = append(scs,
		c07Params{Name: "timeout-eval-vs-gets", Pre: pre, Conns: [][][]string{{{"TIMEOUT", "5", "EVAL", scr, "0"}}, two("GET k a", "GET k b")}, Model: map[string][][]string{"0.0": scrModel}, Prop: "C18"},
		c07Params{Name: "timeout-eval-vs-scan", Pre: pre, Conns: [][][]string{{{"TIMEOUT", "5", "EVAL", "tile38.call('SET','k','n1','POINT',7,7); return tile38.call('SET','k','n2','POINT',8,8)", "0"}}, one("SCAN k")}, Model: map[string][][]string{"0.0": {w("SET k n1 POINT 7 7"), w("SET k n2 POINT 8 8")}}, Prop: "C18"},
	)
	// two read-only scripts at once (shared lock, interpreters from one pool, one script
	// cache): function-entry scheduling points, one preemption (thorough: two)
	roA := "return {tile38.call('GET','k','a'), ARGV[1]}"
	roB := "return {tile38.call('GET','k','b'), ARGV[1]}"
	scs = append(scs,
		c07Params{Name: "fine:evalro-vs-evalro", Pre: pre, Conns: [][][]string{{{"EVALRO", roA, "0", "argA"}}, {{"EVALRO", roB, "0", "argB"}}}, Model: map[string][][]string{"0.0": {}, "1.0": {}}, Fine: true, Prop: "C18"},
		c07Params{Name: "fine:evalro-vs-whereeval", Pre: pre, Conns: [][][]string{{{"EVALRO", roA, "0", "argA"}}, {{"SCAN", "k", "WHEREEVAL", "return FIELDS.f == 1 and ARGV[1] == 'x'", "1", "x", "IDS"}}}, Model: map[string][][]string{"0.0": {}}, Fine: true, Prop: "C18"},
	)
	if tier == "thorough" {
		scs = append(scs,
			c07Params{Name: "eval-rw-vs-set", Pre: pre, Conns: [][][]string{{{"EVAL", scrRW, "0"}}, one("SET k a POINT 1 1"), one("GET k c")}, Model: map[string][][]string{"0.0": scrRWModel}, Prop: "C18"},
			c07Params{Name: "eval-vs-eval", Pre: pre, Conns: [][][]string{{{"EVAL", scr, "0"}}, {{"EVAL", "tile38.call('SET','k','b','POINT',9,9); return tile38.call('SET','k','a','POINT',9,9)", "0"}}},
				Model: map[string][][]string{"0.0": scrModel, "1.0": {w("SET k b POINT 9 9"), w("SET k a POINT 9 9")}}, Prop: "C18"},
			c07Params{Name: "evalro-vs-evalna", Pre: pre, Conns: [][][]string{{{"EVALRO", "return {tile38.call('GET','k','a'), tile38.call('GET','k','a')}", "0"}}, {{"EVALNA", scr, "0"}}},
				Model: map[string][][]string{"0.0": {}, "1.0": scrModel}, NonAtomic: map[string]bool{"1.0": true}, Prop: "C18"},
			c07Params{Name: "evalna-vs-set", Pre: pre, Conns: [][][]string{{{"EVALNA", scr, "0"}}, two("SET k a POINT 3 3", "SET k b POINT 4 4")}, Model: map[string][][]string{"0.0": scrModel}, NonAtomic: map[string]bool{"0.0": true}, Prop: "C18"},
		)
	}
	return scs
}

func checkC18Sched(job *Job, res *Result) {
	res.Rule = "SCHED: every schedule within the preemption bound of an EVAL / EVALNA / EVALRO script against 1-2 other connections; linearizability with the script as one step (EVALNA: one step per call); distinct = distinct (scenario, replies, final state)"
	res.Assumptions = append(res.Assumptions, "the evalro-vs-set scenario asserts that both reads of one EVALRO see the same state (script under the shared lock excludes writers)")
	if job.Replay != nil {
		replaySched(job, res, func(params []byte, sched []int) schedOut {
			var p c07Params
			mustJSON(params, &p)
			if strings.HasPrefix(p.Name, "readers:") {
				var rp c11SchedParams
				mustJSON(params, &rp)
				return c11SchedRun(job, rp, sched)
			}
			return c07Run(job, p, sched)
		})
		return
	}
	bound := 2
	if b, ok := job.Params["bound"].(float64); ok {
		bound = int(b)
	}
	for _, p := range c18Scenarios(job.Tier) {
		p := p
		sc := schedScenario{Name: "c18." + p.Name, Params: p, Run: func(prefix []int) schedOut {
			o := c07Run(job, p, prefix)
			if strings.HasPrefix(p.Name, "fine:evalro") && o.VSig == "" && o.Err == "" {
				// every script gets its own argument back, not the other call's
				if strings.Contains(o.Obs, "0.0=") && !strings.Contains(o.Obs, "argA") || strings.Contains(o.Obs, "1.0=") && p.Name == "fine:evalro-vs-evalro" && !strings.Contains(o.Obs, "argB") {
					o.VSig = "C18/script-arguments-mixed-up:" + p.Name
					o.VDetail = "a script did not get its own ARGV back: " + o.Obs
				}
			}
			if p.Name == "evalro-vs-set" && o.VSig == "" && o.Err == "" {
				// both GETs inside one EVALRO must agree
				if i := strings.Index(o.Obs, "0.0=["); i >= 0 {
					body := o.Obs[i+5:]
					if j := strings.Index(body, "]@"); j >= 0 {
						parts := strings.SplitN(body[:j], `" "`, 2)
						if len(parts) == 2 && strings.Trim(parts[0], `"`) != strings.Trim(parts[1], `"`) {
							o.VSig = "C18/evalro-not-atomic"
							o.VDetail = "the two GETs of one EVALRO saw different values: " + o.Obs
						}
					}
				}
			}
			return o
		}}
		if p.Name == "evalro-vs-set" {
			p.Model = map[string][][]string{"0.0": {}}
		}
		b := bound
		if p.Fine {
			b = bound - 1
		}
		st := exploreSched(job, res, sc, b)
		res.Extra[sc.Name] = map[string]any{"execs": st.Execs, "outcomes": len(st.Outcomes), "max_choice_points": st.MaxPoints}
		if res.EngineError != "" {
			return
		}
	}
	// (last: at the thorough bound they take whatever budget the scenarios above leave)
	// lock-free read-only scripts share the interpreter pool: one of them under a TIMEOUT
	// (its interpreter carries a context until the call has been cleaned up), function-entry
	// and after-deferred-call scheduling points, two preemptions; every reply must be the
	// reply the same command gets alone
	for _, p := range []c11SchedParams{
		{Name: "readers:timeout-evalna-vs-evalna", Fine: true, Prop: "C18", Conns: [][][]string{
			{{"TIMEOUT", "5", "EVALNA", "return tile38.call('GET','k','a')", "0"}},
			{{"EVALNA", "local a = tile38.call('GET','k','a'); local b = tile38.call('GET','k','b'); return {a, b}", "0"}}}},
		{Name: "readers:timeout-evalna-vs-timeout-evalna", Fine: true, Prop: "C18", Conns: [][][]string{
			{{"TIMEOUT", "5", "EVALNA", "return tile38.call('GET','k','a')", "0"}},
			{{"TIMEOUT", "5", "EVALNA", "local a = tile38.call('GET','k','a'); local b = tile38.call('GET','k','b'); return {a, b}", "0"}}}},
	} {
		p := p
		sc := schedScenario{Name: "c18." + p.Name, Params: p, Run: func(prefix []int) schedOut { return c11SchedRun(job, p, prefix) }}
		st := exploreSched(job, res, sc, bound)
		res.Extra[sc.Name] = map[string]any{"execs": st.Execs, "outcomes": len(st.Outcomes), "max_choice_points": st.MaxPoints}
		if res.EngineError != "" {
			return
		}
	}
}

func luaQuote(s string) string {
	s = strings.ReplaceAll(s, `\`, `\\`)
	s = strings.ReplaceAll(s, `'`, `\'`)
	s = strings.ReplaceAll(s, "\n", `\n`)
	return "'" + s + "'"
}

func luaCall(fn string, args []string) string {
	q := make([]string, len(args))
	for i, a := range args {
		q[i] = luaQuote(a)
	}
	return "return tile38." + fn + "(" + strings.Join(q, ",") + ")"
}

func checkC18Seq(job *Job, res *Result) {
	res.Rule = "SEQ: every catalogue command x shape, wrapped in tile38.call / tile38.pcall; shapes that modify the internal state through EVAL (self-calibrating) must be reproduced by a restart after EVAL / EVALNA / EVALSHA, and must be refused through EVALRO and EVALROSHA (also when the script first assigns another flavour to the EVAL_CMD global) with an error and leave the state unchanged; distinct = distinct (command, modifies?, refused?) classes"
	repo, _ := job.Params["repo"].(string)
	names, _ := catalogueNames(repo)
	cat := catalogue()
	n := 0
	for _, name := range names {
		switch name {
		case "EVAL", "EVALSHA", "EVALRO", "EVALROSHA", "EVALNA", "EVALNASHA", "FOLLOW", "SLAVEOF", "REPLCONF", "AOFSHRINK", "TIMEOUT", "AUTH", "OUTPUT", "CLIENT", "PING", "ECHO":
			continue // not callable / not dataset commands inside scripts
		}
		for si, shape := range cat[name] {
			n++
			if n%job.NShards != job.Shard {
				continue
			}
			shape := shape
			for _, fn := range []string{"call", "pcall"} {
				modifies := false
				var dumpAfterSetup string
				// 1. calibrate through EVAL on a fresh server
				runExec(job, freezeAllBut(), func(x *Exec) {
					in := x.Start("L", x.dir+"/L", 9001, nil)
					c := x.Dial(in.Addr)
					sha := catSetup(c)
					before, _ := internalDump(in.S)
					dumpAfterSetup = before
					c.Do("EVAL", luaCall(fn, catSubst(shape, sha)), "0")
					after, _ := internalDump(in.S)
					modifies = before != after
				})
				res.Distinct(fnv(fmt.Sprintf("%s|%v", name, modifies)))
				if !modifies {
					res.Evaluations++
					continue
				}
				// 1b. every write a script makes is logged: a restart reproduces the state
				// (not asked of deadlines that have passed by the time of the restart)
				shortTTL := false
				for ai, a := range shape {
					if (strings.EqualFold(a, "EXPIRE") && ai+3 < len(shape)+1 && len(shape) >= 4) || strings.EqualFold(a, "EX") {
						idx := ai + 1
						if strings.EqualFold(a, "EXPIRE") {
							idx = ai + 3
						}
						if idx < len(shape) {
							if f, err := strconv.ParseFloat(shape[idx], 64); err == nil && f < 10 {
								shortTTL = true
							}
						}
					}
				}
				for _, variant := range []string{"EVAL", "EVALNA", "EVALSHA", "EVAL+error", "EVALNA+error", "EVALSHA+error"} {
					if shortTTL {
						break
					}
					variant, fails := strings.TrimSuffix(variant, "+error"), strings.HasSuffix(variant, "+error")
					x := runExec(job, freezeAllBut(), func(x *Exec) {
						in := x.Start("L", x.dir+"/L", 9001, nil)
						c := x.Dial(in.Addr)
						sha := catSetup(c)
						script := luaCall(fn, catSubst(shape, sha))
						if fails {
							// the script fails after its write: nothing is rolled back, so the
							// write stays visible - and has to be in the log like any other
							script = strings.TrimPrefix(script, "return ") + " error('failing after the write')"
						}
						if variant == "EVALSHA" {
							c.Do("EVALSHA", c.Do("SCRIPT", "LOAD", script).S, "0")
						} else {
							c.Do(variant, script, "0")
						}
						live := fullDump(c)
						c.Close()
						in.Stop()
						in2, err := x.TryStart("L2", x.dir+"/L", 9002, nil)
						if err != nil {
							res.Violate(fmt.Sprintf("C18/restart-fails-after-script:%s", strings.ToLower(name)), fmt.Sprintf("after %s with tile38.%s(%v) the server does not restart: %v", variant, fn, shape, err), map[string]any{"cmd": shape, "variant": variant, "fn": fn})
							return
						}
						c2 := x.Dial(in2.Addr)
						if again := fullDump(c2); again != live {
							res.Violate(fmt.Sprintf("C18/script-write-not-reproduced-by-restart:%s:%s", strings.ToLower(name), strings.ToLower(variant)),
								fmt.Sprintf("%s with tile38.%s(%v) (script failing afterwards: %v): state before the restart %s, after %s", variant, fn, shape, fails, vclip(live, 300), vclip(again, 300)), map[string]any{"cmd": shape, "variant": variant, "fn": fn, "fails": fails})
						}
					})
					if x.Err != "" {
						res.EngineError = x.Err
						return
					}
					res.Evaluations++
					res.Transitions++
					res.Validated++
				}
				// 2. the same through the read-only variants
				for _, variant := range []string{"EVALRO", "EVALROSHA", "EVALRO+EVAL_CMD=eval", "EVALRO+EVAL_CMD=evalna", "EVALROSHA+EVAL_CMD=evalsha"} {
					variant, tamper := variant, ""
					if i := strings.Index(variant, "+EVAL_CMD="); i >= 0 {
						// the script assigns to the global the host uses to tell the flavours apart
						tamper = "EVAL_CMD='" + variant[i+10:] + "'; "
						variant = variant[:i]
					}
					x := runExec(job, freezeAllBut(), func(x *Exec) {
						in := x.Start("L", x.dir+"/L", 9001, nil)
						c := x.Dial(in.Addr)
						sha := catSetup(c)
						script := tamper + luaCall(fn, catSubst(shape, sha))
						var rep rv
						before, _ := internalDump(in.S)
						if variant == "EVALRO" {
							rep = c.Do("EVALRO", script, "0")
						} else {
							h := c.Do("SCRIPT", "LOAD", script).S
							before, _ = internalDump(in.S)
							rep = c.Do("EVALROSHA", h, "0")
						}
						after, _ := internalDump(in.S)
						_ = dumpAfterSetup
						refused := rep.IsErr() || strings.Contains(rep.String(), "read only") || strings.Contains(rep.String(), "ERR")
						if before != after {
							res.Violate(fmt.Sprintf("C18/readonly-script-modified-data:%s:%s", strings.ToLower(name), strings.ToLower(variant)),
								fmt.Sprintf("%s with %stile38.%s(%v) changed the dataset (reply %s)", variant, tamper, fn, shape, vclip(rep.String(), 120)), map[string]any{"cmd": shape, "variant": variant, "fn": fn, "tamper": tamper})
						} else if !refused && fn == "call" {
							res.Violate(fmt.Sprintf("C18/readonly-script-not-refused:%s:%s:shape%d", strings.ToLower(name), strings.ToLower(variant), si),
								fmt.Sprintf("%s with tile38.call(%v) was answered %s instead of an error", variant, shape, vclip(rep.String(), 120)), map[string]any{"cmd": shape, "variant": variant})
						}
					})
					if x.Err != "" {
						res.EngineError = x.Err
						return
					}
					res.Evaluations++
					res.Transitions++
					res.Validated++
				}
			}
		}
	}
	res.States += len(names)
	if job.Shard == 0 {
		c18CrashAtomic(job, res)
	}
}

// c18CrashAtomic: an atomic script's writes reach the log file as one piece. The file
// operations of a script making 300 writes (> 10 kB of log) are recorded; the server is
// started on the directory image after EVERY prefix of them: it holds either none of
// the script's writes or all of them (what a crash, or a follower reading the file
// while the script runs, would see).
func c18CrashAtomic(job *Job, res *Result) {
	for _, variant := range []string{"EVAL", "EVALSHA"} {
		variant := variant
		x := runExec(job, freezeAllBut(), func(x *Exec) {
			dir := x.dir + "/L"
			in := x.Start("L", dir, 9001, nil)
			c := x.Dial(in.Addr)
			aof := filepath.Clean(filepath.Join(dir, "appendonly.aof"))
			c.Do("SET", "k", "seed", "STRING", "s")
			script := "for i=1,300 do tile38.call('SET','k','id'..i,'STRING',string.rep('x',40)) end return 1"
			sha := c.Do("SCRIPT", "LOAD", script).S
			k0 := len(vos.Log)
			if variant == "EVAL" {
				c.Do("EVAL", script, "0")
			} else {
				c.Do("EVALSHA", sha, "0")
			}
			k1 := len(vos.Log)
			c.Close()
			in.Stop()
			for n := k0; n <= k1; n++ {
				img := vos.Image(n)[aof]
				rdir := fmt.Sprintf("%s/R%d", x.dir, n)
				os.MkdirAll(rdir, 0700)
				os.WriteFile(filepath.Join(rdir, "appendonly.aof"), img, 0600)
				r, err := x.TryStart(fmt.Sprintf("R%d", n), rdir, 9100+n-k0, nil)
				if err != nil {
					res.Violate("C18/crash-mid-script:restart-fails", fmt.Sprintf("%s: the log as it is after %d of the %d file operations of the script does not load: %v", variant, n-k0, k1-k0, err), map[string]any{"variant": variant})
					return
				}
				rc := x.Dial(r.Addr)
				cnt := rc.Do("SCAN", "k", "COUNT").String()
				res.Evaluations++
				res.Transitions++
				res.Validated++
				res.DistinctS("crash-atomic:" + variant + cnt)
				if cnt != ":1" && cnt != ":301" {
					res.Violate("C18/crash-mid-script:half-a-script-in-the-log", fmt.Sprintf("%s of a script making 300 writes: after %d of its %d file operations the log holds %s objects (1 = none of the script, 301 = all of it)", variant, n-k0, k1-k0, cnt), map[string]any{"variant": variant, "op": n - k0})
				}
				rc.Close()
				r.Stop()
			}
		})
		if x.Err != "" {
			res.EngineError = x.Err
			return
		}
	}
}

// ---- sandbox

var c18Allowed = map[string]bool{}

func init() {
	for _, n := range strings.Fields(`_G _VERSION _GOPHER_LUA_VERSION tonumber tostring table math string os json tile38
		os.clock os.difftime
		tile38.call tile38.pcall tile38.error_reply tile38.status_reply tile38.sha1hex tile38.distance_to
		json.decode json.encode
		table.getn table.concat table.insert table.maxn table.remove table.sort
		math.abs math.acos math.asin math.atan math.atan2 math.ceil math.cos math.cosh math.deg math.exp math.floor math.fmod
		math.frexp math.huge math.ldexp math.log math.log10 math.max math.min math.mod math.modf math.pi math.pow math.rad
		math.random math.randomseed math.sin math.sinh math.sqrt math.tan math.tanh
		string.byte string.char string.dump string.find string.format string.gsub string.len string.lower string.match
		string.rep string.reverse string.sub string.upper string.gmatch string.gfind string.__index`) {
		c18Allowed[n] = true
	}
}

// forbidden Go symbols: anything from gopher-lua's io / os (except clock,
// difftime) / debug / package / channel / coroutine libraries or load functions.
var c18ForbiddenSym = []string{"gopher-lua.io", "gopher-lua.os", "gopher-lua.debug", "gopher-lua.lo", "gopher-lua.channel", "gopher-lua.co",
	"gopher-lua.baseDoFile", "gopher-lua.baseLoadFile", "gopher-lua.baseLoad", "gopher-lua.baseRequire", "gopher-lua.baseModule", "gopher-lua.basePrint",
	"gopher-lua.baseSetFEnv", "gopher-lua.baseGetFEnv", "gopher-lua.baseCollectGarbage", "gopher-lua.baseNewProxy", "os/exec", "net.", "os.(*File)"}

type c18Walk struct {
	seen     map[any]bool
	paths    map[string]string // path -> kind / go symbol
	problems []string
}

func (wk *c18Walk) value(L *lua.LState, path string, v lua.LValue, depth int) {
	if depth > 8 {
		return
	}
	switch t := v.(type) {
	case *lua.LTable:
		if wk.seen[t] {
			return
		}
		wk.seen[t] = true
		t.ForEach(func(k, val lua.LValue) {
			name := k.String()
			p := name
			if path != "" {
				p = path + "." + name
			}
			kind := val.Type().String()
			if f, ok := val.(*lua.LFunction); ok && f.IsG {
				kind = "gofunc:" + runtime.FuncForPC(reflect.ValueOf(f.GFunction).Pointer()).Name()
			}
			wk.paths[p] = kind
			wk.value(L, p, val, depth+1)
		})
		if mt := L.GetMetatable(t); mt != lua.LNil {
			wk.value(L, path+"<mt>", mt, depth+1)
		}
	case *lua.LFunction:
		if wk.seen[t] {
			return
		}
		wk.seen[t] = true
		if t.Env != nil {
			wk.value(L, path+"<env>", t.Env, depth+1)
		}
		for i, uv := range t.Upvalues {
			if uv != nil {
				wk.value(L, fmt.Sprintf("%s<up%d>", path, i), uv.Value(), depth+1)
			}
		}
	case *lua.LUserData:
		wk.paths[path+"<userdata>"] = fmt.Sprintf("userdata:%T", t.Value)
	}
}

func c18WalkState(L *lua.LState) (paths map[string]string) {
	wk := &c18Walk{seen: map[any]bool{}, paths: map[string]string{}}
	g := L.Get(lua.GlobalsIndex)
	wk.value(L, "", g, 0)
	// the string metatable is reachable from any string value
	wk.value(L, "<stringmt>", L.GetMetatable(lua.LString("")), 0)
	return wk.paths
}

func c18PoolStates(s *Server) []*lua.LState {
	s.luapool.m.Lock()
	defer s.luapool.m.Unlock()
	return append([]*lua.LState(nil), s.luapool.saved...)
}

func checkC18Box(job *Job, res *Result) {
	res.Rule = "explicit enumeration: (1) everything reachable from the globals table of each pooled Lua state (tables, metatables incl. the string metatable, function environments, upvalues) - names subset of the documented allow-list, no Go function of a forbidden library; (2) assignment to 20 new global names; (3) all sequences of <= 3 commands over {EVAL ok, EVAL syntax error, EVAL raising, EVALSHA unknown, SCAN WHEREEVAL, SCRIPT LOAD, EVALRO ok, SCAN WHEREEVAL indexing a missing field, SCAN WHEREEVAL raising, EVAL / EVALRO / EVALNA writing into their empty KEYS / ARGV, EVAL parking its arguments in a library table / in the array part of _G / in a replaced global, EVAL / EVALRO refused for an empty KEYS / ARGV element} followed by an inspection of every pooled state; distinct = distinct reachable paths + sequences"
	if job.Shard != 0 && job.NShards > 1 && job.Replay == nil {
		// sequences are sharded, the walk runs in shard 0
	}
	leftovers := []string{"KEYS", "ARGV", "EVAL_CMD", "DEADLINE", "ID", "FIELDS", "PROPERTIES"}
	syms := [][]string{
		{"EVAL", "return KEYS[1]..ARGV[1]", "1", "secretkey", "secretarg"},
		{"EVAL", "syntax error here", "1", "secretkey", "secretarg"},
		{"EVAL", "error('boom')", "1", "secretkey", "secretarg"},
		{"EVALSHA", catSha, "1", "secretkey", "secretarg"},
		{"SCAN", "k1", "WHEREEVAL", "return FIELDS.f == 1 and ARGV[1] == 'x'", "1", "x", "IDS"},
		{"SCRIPT", "LOAD", "return 1"},
		{"EVALRO", "return ARGV[1]", "0", "roarg"},
		// filter scripts that fail on an object (indexing a missing field / raising)
		{"SCAN", "k1", "WHEREEVAL", "return FIELDS.nosuch.x == 1", "0", "IDS"},
		{"SCAN", "k1", "WHEREEVAL", "error('filter boom ' .. ID)", "0", "IDS"},
		// scripts that write into their (empty) KEYS / ARGV tables
		{"EVAL", "KEYS[1] = 'secretkey'; ARGV[1] = 'secretarg'; table.insert(ARGV, 'secretarg'); return 1", "0"},
		{"EVALRO", "KEYS[1] = 'secretkey'; ARGV[1] = 'secretarg'; return 1", "0"},
		{"EVALNA", "table.insert(KEYS, 'secretkey'); table.insert(ARGV, 'secretarg'); return 1", "0"},
		// scripts that park their arguments in a library table
		{"EVAL", "string.stash = KEYS[1]; math.stash = ARGV; return 1", "1", "secretkey", "secretarg"},
		// ... in the array part of the globals table (table.insert does not consult __newindex)
		{"EVAL", "table.insert(_G, KEYS[1]); return 1", "1", "secretkey", "secretarg"},
		// ... or in a replacement of an existing global
		{"EVAL", "os = {stash = ARGV[1]}; return 1", "1", "secretkey", "secretarg"},
		// refused calls: an empty KEYS / ARGV element
		{"EVAL", "return 1", "1", ""},
		{"EVALRO", "return 1", "0", ""},
	}
	if job.Shard == 0 {
		x := runExec(job, freezeAllBut(), func(x *Exec) {
			in := x.Start("L", x.dir+"/L", 9001, nil)
			c := x.Dial(in.Addr)
			catSetup(c)
			c.Do(syms[0]...) // make sure at least one state has been used
			// every state the pool can hand out: the pre-built ones and those it
			// creates on demand when more scripts run at once than it holds
			var taken []*lua.LState
			for k := 0; k < iniLuaPoolSize+3; k++ {
				L, err := in.S.luapool.Get()
				if err != nil {
					break
				}
				taken = append(taken, L)
			}
			for i, L := range taken {
				if err := L.DoString("c18_probe_global = 1"); err == nil {
					res.Violate("C18/sandbox:new-global-on-pool-state", fmt.Sprintf("state #%d handed out by the pool (of %d taken at once; %d are pre-built) lets a script create a global", i, len(taken), iniLuaPoolSize), map[string]any{"state": i})
				}
				if v := L.GetGlobal("c18_probe_global"); v != lua.LNil {
					res.Violate("C18/sandbox:global-persists-on-pool-state", fmt.Sprintf("state #%d keeps the global a script created", i), map[string]any{"state": i})
				}
			}
			for _, L := range taken {
				in.S.luapool.Put(L)
			}
			for i, L := range taken {
				paths := c18WalkState(L)
				var names []string
				for p := range paths {
					names = append(names, p)
				}
				sort.Strings(names)
				for _, p := range names {
					kind := paths[p]
					res.DistinctS("path:" + p)
					plain := p
					if strings.ContainsAny(p, "<") {
						plain = "" // metatable / env / upvalue internals: only the Go symbol matters
					}
					if strings.HasPrefix(plain, "_G.") {
						plain = strings.TrimPrefix(plain, "_G.")
						for strings.HasPrefix(plain, "_G.") {
							plain = strings.TrimPrefix(plain, "_G.")
						}
					}
					if plain != "" && !c18Allowed[plain] {
						res.Violate("C18/sandbox:name-not-on-allow-list:"+plain, fmt.Sprintf("pooled state %d exposes %q (%s), which is not on the documented allow-list", i, p, kind), map[string]any{"path": p})
					}
					if strings.HasPrefix(kind, "gofunc:") {
						for _, f := range c18ForbiddenSym {
							if strings.Contains(kind, f) && !strings.Contains(kind, "osClock") && !strings.Contains(kind, "osDiffTime") {
								res.Violate("C18/sandbox:forbidden-function:"+p, fmt.Sprintf("pooled state %d reaches %s at %q", i, kind, p), map[string]any{"path": p})
							}
						}
					}
				}
				if i == 0 {
					res.Sample(map[string]any{"pooled_state": i, "reachable_paths": len(names), "first": names[:min(12, len(names))]})
				}
				res.Evaluations += len(names)
			}
			// (2) new globals
			for _, name := range []string{"x", "foo", "io", "debug", "package", "require", "dofile", "loadstring", "load", "print", "os2", "KEYS2", "_ENV", "coroutine",
				"getfenv", "setfenv", "newproxy", "collectgarbage", "rawset", "module"} {
				r := c.Do("EVAL", name+" = 1; return 1", "0")
				if !r.IsErr() {
					res.Violate("C18/sandbox:new-global:"+name, fmt.Sprintf("EVAL '%s = 1' succeeded (%s)", name, r), map[string]any{"name": name})
				}
				if r2 := c.Do("EVAL", "return "+name, "0"); r2.String() != "<nil>" && !c18Allowed[name] {
					res.Violate("C18/sandbox:global-visible:"+name, fmt.Sprintf("global %s evaluates to %s", name, vclip(r2.String(), 80)), map[string]any{"name": name})
				}
				res.Evaluations++
				res.DistinctS("newglobal:" + name)
			}
			// a script cannot reach the file system / process through the usual names
			for _, probe := range []string{"return io", "return os.execute", "return os.getenv", "return os.remove", "return os.exit", "return require", "return dofile", "return loadfile", "return debug", "return package", "return string.dump and 1"} {
				r := c.Do("EVAL", probe, "0")
				if probe != "return string.dump and 1" && r.String() != "<nil>" {
					res.Violate("C18/sandbox:reachable:"+probe, fmt.Sprintf("EVAL %q -> %s", probe, vclip(r.String(), 80)), map[string]any{"probe": probe})
				}
				res.Evaluations++
			}
		})
		if x.Err != "" || len(x.Crashes) > 0 {
			res.EngineError = fmt.Sprint(x.Err, x.Crashes)
			return
		}
	}
	// (3) pool hygiene after every sequence of length <= 3
	var seqs [][]int
	for a := range syms {
		seqs = append(seqs, []int{a})
		for b := range syms {
			seqs = append(seqs, []int{a, b})
			for c := range syms {
				seqs = append(seqs, []int{a, b, c})
			}
		}
	}
	for qi, q := range seqs {
		if qi%job.NShards != job.Shard {
			continue
		}
		q := q
		x := runExec(job, freezeAllBut(), func(x *Exec) {
			in := x.Start("L", x.dir+"/L", 9001, nil)
			c := x.Dial(in.Addr)
			c.Do("SET", "k1", "a", "FIELD", "f", "1", "POINT", "1", "2")
			var names []string
			for _, k := range q {
				c.Do(syms[k]...)
				names = append(names, strings.Join(syms[k][:2], " "))
			}
			seenState := map[*lua.LState]int{}
			for i, L := range c18PoolStates(in.S) {
				if j, dup := seenState[L]; dup {
					// the shutdown path closes every pooled interpreter: closing one twice takes the
					// process down before this result is written - announce the finding first
					res.Pending("C18/pool-holds-one-interpreter-twice:after-"+strings.ToLower(strings.Fields(names[len(names)-1])[0]),
						fmt.Sprintf("after [%s] the pool holds the same interpreter at positions %d and %d", strings.Join(names, " ; "), j, i), map[string]any{"sequence": names})
					res.Violate("C18/pool-holds-one-interpreter-twice:after-"+strings.ToLower(strings.Fields(names[len(names)-1])[0]),
						fmt.Sprintf("after [%s] the pool holds the same interpreter at positions %d and %d: two scripts running at once would share it", strings.Join(names, " ; "), j, i),
						map[string]any{"sequence": names})
				}
				seenState[L] = i
				g := L.Get(lua.GlobalsIndex).(*lua.LTable)
				for _, n := range leftovers {
					if v := g.RawGetString(n); v != lua.LNil {
						res.Violate("C18/leftover-global:"+n+":after-"+strings.ToLower(strings.Fields(names[len(names)-1])[0]),
							fmt.Sprintf("after [%s] pooled state %d still has %s = %s", strings.Join(names, " ; "), i, n, vclip(v.String(), 60)),
							map[string]any{"sequence": names})
					}
				}
			}
			// and the observable consequence: a later script must not see them
			if r := c.Do("EVAL", "return {KEYS and KEYS[1] or 'none', ARGV and ARGV[1] or 'none'}", "0"); strings.Contains(r.String(), "secret") {
				res.Violate("C18/keys-argv-survive-the-call", fmt.Sprintf("after [%s] a fresh EVAL with no keys/args sees %s", strings.Join(names, " ; "), r), map[string]any{"sequence": names})
			}
			for _, flavour := range []string{"EVAL", "EVALRO", "EVALNA"} {
				if r := c.Do(flavour, "return {KEYS[1] or 'none', ARGV[1] or 'none', ARGV[2] or 'none', #KEYS, #ARGV}", "0"); strings.Contains(r.String(), "secret") || !strings.Contains(r.String(), ":0 :0") {
					res.Violate("C18/keys-argv-survive-the-call:empty-tables", fmt.Sprintf("after [%s] an %s with no keys/args sees %s", strings.Join(names, " ; "), flavour, r), map[string]any{"sequence": names})
				}
				if r := c.Do(flavour, "return {tostring(string.stash), tostring(math.stash and math.stash[1])}", "0"); strings.Contains(r.String(), "secret") {
					res.Violate("C18/keys-argv-survive-the-call:library-table", fmt.Sprintf("after [%s] an %s reads the arguments of an earlier call from a library table: %s", strings.Join(names, " ; "), flavour, r), map[string]any{"sequence": names})
				}
				if r := c.Do(flavour, "return tostring(_G[1])", "0"); strings.Contains(r.String(), "secret") {
					res.Violate("C18/keys-argv-survive-the-call:globals-array-part", fmt.Sprintf("after [%s] an %s reads the arguments of an earlier call from _G[1]: %s", strings.Join(names, " ; "), flavour, r), map[string]any{"sequence": names})
				}
				if r := c.Do(flavour, "return tostring(os.stash)", "0"); strings.Contains(r.String(), "secret") {
					res.Violate("C18/keys-argv-survive-the-call:replaced-global", fmt.Sprintf("after [%s] an %s reads the arguments of an earlier call from a replaced global: %s", strings.Join(names, " ; "), flavour, r), map[string]any{"sequence": names})
				}
			}
			if r := c.Do("SCAN", "k1", "WHEREEVAL", "return (KEYS ~= nil and KEYS[1] == 'secretkey')", "0", "IDS"); strings.Contains(r.String(), `"a"`) {
				res.Violate("C18/keys-argv-survive-the-call:whereeval", fmt.Sprintf("after [%s] a WHEREEVAL script reads KEYS[1] == 'secretkey' of an earlier call", strings.Join(names, " ; ")), map[string]any{"sequence": names})
			}
		})
		if x.Err != "" {
			res.EngineError = x.Err
			return
		}
		res.Evaluations++
		res.Transitions++
		res.Validated++
		res.DistinctS(fmt.Sprint("seq:", q))
	}
	res.States += len(seqs)
}
