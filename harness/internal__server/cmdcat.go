//go:build verif

package server

// Command catalogue shared by C07 (lock discipline), C15 (gates), C16
// (malformed arguments) and C17 (well-formed replies): for every command a
// handful of valid and invalid argument shapes.  Commands listed in
// core/commands.json (read at run time) that have no entry here get generic
// shapes and are reported as "uncatalogued" in the evidence.

import (
	"encoding/json"
	"os"
	"path/filepath"
	"sort"
	"strings"
)

const catScriptW = "return tile38.call('SET','k1','s','POINT',1,1)"
const catScriptR = "return tile38.call('GET','k1','a')"
const catScriptDel = "return tile38.call('DEL','k1','a')"
const catSha = "0000000000000000000000000000000000000000"

func w(s string) []string { return strings.Fields(s) }

func catalogue() map[string][][]string {
	fence := "NEARBY k9 FENCE POINT 50 50 100"
	c := map[string][][]string{
		"SET": {w("SET k1 r RETURN HASH 5 POINT 1 2"), w("SET k1 r RETURN BOUNDS POINT 1 2"), w("SET k1 r RETURN OBJECT POINT 1 2 3"), w("SET k1 r RETURN HASH 99 POINT 1 2"), w("SET k1 r RETURN POINT STRING sv"), w("SET k1 r NX RETURN POINT 1 2"), w("SET k1 a NX RETURN POINT 1 2"), w("SET k1 zz XX RETURN POINT 1 2"), w("SET k1 r RETURN"), w("SET k1 r EX 0 POINT 1 2"), w("SET k1 r EX -5 POINT 1 2"), w("SET k1 r HASH 9q8yy"), w("SET k1 r HASH"), w("SET k1 r HASH !!"), w("SET k1 a POINT 1 2"), w("SET k1 n FIELD f 1 EX 100 POINT 3 4 5"), w("SET k1 a NX POINT 1 2"), w("SET k3 x XX POINT 1 2"),
			{"SET", "k1", "o", "OBJECT", gPoly}, w("SET k1 s STRING hello"), w("SET k1 h HASH 9tbnwg"), w("SET k1 b BOUNDS 1 2 3 4"),
			w("SET k1 r RETURN POINT 1 2"), w("SET k1 r FIELD f 1 RETURN WITHFIELDS POINT 1 2"), w("SET k1 a"), w("SET k1"), w("SET k1 a POINT x y"), w("SET k1 a FIELD z 1 POINT 1 2"), {"SET", "k1", "a", "OBJECT", "{bad"}},
		"FSET": {w("FSET k1 a f 4 RETURN POINT"), w("FSET k1 a f 4 RETURN HASH 3"), w("FSET k1 b y 1 RETURN OBJECT"), w("FSET k1 a XX f 5 RETURN WITHFIELDS BOUNDS"), w("FSET k1 a f 5"), w("FSET k1 a f 1 g x"), w("FSET k1 nope XX f 1"), w("FSET k1 nope f 1"), w("FSET nokey a f 1"), w("FSET k1 a f"), w("FSET k1 a z 1"),
			w("FSET k1 a f 2 RETURN"), w("FSET k1 a f 3 RETURN WITHFIELDS"), w("FSET k1 nope XX f 1 RETURN"), w("FSET k1 a RETURN f 1")},
		"FGET":           {w("FGET k1 a g"), w("FGET k1 b x"), w("FGET k1 c properties.n"), w("FGET k1 a f"), w("FGET k1 a nofield"), w("FGET k1 nope f"), w("FGET nokey a f"), w("FGET k1 a")},
		"GET":            {w("GET k1 c OBJECT"), w("GET k1 a HASH 1"), w("GET k1 a HASH 12"), w("GET k1 a HASH 0"), w("GET k1 b POINT"), w("GET k1 b BOUNDS"), w("GET k1 b HASH 5"), w("GET k1 c POINT"), w("GET k1 c WITHFIELDS BOUNDS"), w("GET k2 a POINT"), w("GET k2 a HASH 6"), w("GET k1 a"), w("GET k1 a WITHFIELDS"), w("GET k1 a POINT"), w("GET k1 a BOUNDS"), w("GET k1 a HASH 7"), w("GET k1 b"), w("GET k1 nope"), w("GET nokey a"), w("GET k1"), w("GET k1 a HASH 99"), w("GET k1 a BOGUS")},
		"DEL":            {w("DEL k1 a"), w("DEL k1 nope"), w("DEL k1 nope ERRON404"), w("DEL nokey a ERRON404"), w("DEL k1"), w("DEL k1 a BOGUS")},
		"PDEL":           {w("PDEL k1 ?"), w("PDEL k1 [ab]"), w("PDEL k2 zz*"), w("PDEL k1 a*"), w("PDEL k1 *"), w("PDEL nokey *"), w("PDEL k1")},
		"DROP":           {w("DROP k1"), w("DROP nokey"), w("DROP")},
		"RENAME":         {w("RENAME k1 k5"), w("RENAME k1 k2"), w("RENAME nokey k5"), w("RENAME k1")},
		"RENAMENX":       {w("RENAMENX k1 k5"), w("RENAMENX k1 k2"), w("RENAMENX nokey k5"), w("RENAMENX k1")},
		"FLUSHDB":        {w("FLUSHDB"), w("FLUSHDB now")},
		"EXPIRE":         {w("EXPIRE k1 a 0"), w("EXPIRE k1 a -1"), w("EXPIRE k1 a 0.5"), w("EXPIRE k1 b 100"), w("EXPIRE k1 a 100 extra"), w("EXPIRE k1 a 100"), w("EXPIRE k1 nope 100"), w("EXPIRE nokey a 100"), w("EXPIRE k1 a x"), w("EXPIRE k1 a")},
		"PERSIST":        {w("PERSIST k1 t"), w("PERSIST k1 a"), w("PERSIST k1 nope"), w("PERSIST nokey a"), w("PERSIST k1")},
		"TTL":            {w("TTL k1 b"), w("TTL k1 t extra"), w("TTL k1 t"), w("TTL k1 a"), w("TTL k1 nope"), w("TTL nokey a"), w("TTL k1")},
		"EXISTS":         {w("EXISTS k1 a"), w("EXISTS k1 nope"), w("EXISTS nokey a"), w("EXISTS k1")},
		"FEXISTS":        {w("FEXISTS k1 a f"), w("FEXISTS k1 a nofield"), w("FEXISTS k1 nope f"), w("FEXISTS nokey a f"), w("FEXISTS k1 a")},
		"TYPE":           {w("TYPE k1"), w("TYPE nokey"), w("TYPE")},
		"BOUNDS":         {w("BOUNDS k2"), w("BOUNDS k1 extra"), w("BOUNDS k1"), w("BOUNDS nokey"), w("BOUNDS")},
		"KEYS":           {w("KEYS ?1"), w("KEYS [k]*"), {"KEYS", "k\\1"}, w("KEYS k[1-2]"), w("KEYS *"), w("KEYS k1*"), w("KEYS nomatch"), w("KEYS")},
		"STATS":          {w("STATS k1"), w("STATS k1 nokey k2"), w("STATS")},
		"JGET":           {w("JGET k1 b"), w("JGET k1 b x"), w("JGET k1 b x RAW"), w("JGET k1 c properties.n"), w("JGET k1 b nopath"), w("JGET k1 nope"), w("JGET nokey a"), w("JGET k1"), w("JGET k1 b x BOGUS")},
		"JSET":           {w("JSET k1 b y 2"), w("JSET k1 b y str"), w("JSET k1 b y 7 STR"), w("JSET k1 b y {\"q\":1} RAW"), w("JSET k1 c properties.p 5"), w("JSET k1 newid v 1"), w("JSET k1 b y"), w("JSET k1 b y 1 BOGUS")},
		"JDEL":           {w("JDEL k1 b x"), w("JDEL k1 c properties.n"), w("JDEL k1 b nopath"), w("JDEL k1 nope x"), w("JDEL nokey a x"), w("JDEL k1 b")},
		"SCAN":           {w("SCAN k1 BUFFER 10"), w("SCAN k1 SPARSE 2"), w("SCAN k1 CLIP"), w("SCAN k1 DISTANCE"), {"SCAN", "k1", "WHEREEVALSHA", "@F", "0", "IDS"}, {"SCAN", "k1", "WHEREEVALSHA", "0000000000000000000000000000000000000000", "0"}, w("SCAN k1 NOFIELDS LIMIT 2"), w("SCAN k1 HASHES 5"), w("SCAN k1 WHEREIN f 2 1 2 IDS"), w("SCAN k1"), w("SCAN k1 LIMIT 1"), w("SCAN k1 CURSOR 1 LIMIT 1 IDS"), w("SCAN k1 MATCH a* IDS"), w("SCAN k1 WHERE f 0 2 COUNT"), w("SCAN k1 DESC POINTS"), w("SCAN k1 BOUNDS"), w("SCAN k1 HASHES 5"), w("SCAN k1 NOFIELDS"), w("SCAN nokey"), w("SCAN"), w("SCAN k1 LIMIT x"), w("SCAN k1 BOGUS")},
		"SEARCH":         {w("SEARCH k1 BUFFER 10"), w("SEARCH k1 SPARSE 2"), w("SEARCH k1 DISTANCE"), w("SEARCH k1 FENCE"), w("SEARCH k1 MATCH * WHERE f 0 2"), w("SEARCH k1 DESC LIMIT 1 CURSOR 1"), w("SEARCH k1 ASC IDS WHEREIN f 1 1"), w("SEARCH k1 NOFIELDS"), w("SEARCH k2"), w("SEARCH k1"), w("SEARCH k1 IDS"), w("SEARCH k1 COUNT"), w("SEARCH k1 MATCH h* DESC"), w("SEARCH k1 LIMIT 1"), w("SEARCH nokey"), w("SEARCH"), w("SEARCH k1 BOGUS")},
		"NEARBY":         {w("NEARBY k1 BUFFER 10 IDS POINT 1 2 1000"), w("NEARBY k1 BUFFER 10 POINT 1 2"), w("NEARBY k1 CLIPBY BOUNDS 0 0 5 5 POINT 1 2 100000"), w("NEARBY k1 SPARSE 2 POINT 1 2 100000"), w("NEARBY k1 CLIP POINT 1 2"), w("NEARBY k1 IDS GEO"), w("NEARBY k1 IDS BOUNDS 0 0 1 1"), w("NEARBY k1 IDS CIRCLE 1 2 100"), w("NEARBY k1 IDS ROAM k2 * 100"), w("NEARBY k1 IDS TILE 0 0 0"), w("NEARBY k1 POINT 1 2"), w("NEARBY k1 POINT 1 2 100000"), w("NEARBY k1 LIMIT 1 IDS POINT 1 2"), w("NEARBY k1 DISTANCE POINT 1 2 500000"), w("NEARBY k1 DISTANCE IDS POINT 1 2"), w("NEARBY k1 DISTANCE POINT 1 2"), w("NEARBY k1 DISTANCE POINTS POINT 1 2 900000"), w("NEARBY k1 COUNT POINT 1 2"), w("NEARBY nokey POINT 1 2"), w("NEARBY k1"), w("NEARBY k1 POINT x y"), w("NEARBY k1 BOUNDS 1 2 3 4")},
		"WITHIN":         {w("WITHIN k1 IDS GEO"), w("WITHIN k1 GEO 1 2"), w("WITHIN k1 IDS POINT 1 2"), w("WITHIN k1 IDS ROAM k2 * 100"), w("WITHIN k1 BUFFER 1000 BOUNDS 1 2 3 4"), w("WITHIN k1 BUFFER 0 IDS BOUNDS 1 2 3 4"), w("WITHIN k1 SPARSE 2 BOUNDS 0 0 10 10"), w("WITHIN k1 IDS TILE 0 0 0"), w("WITHIN k1 COUNT QUADKEY 1"), w("WITHIN k1 IDS HASH s0"), w("WITHIN k1 IDS SECTOR 1 2 100000 0 90"), w("WITHIN k1 MVT 0 0 0"), w("WITHIN k1 BUFFER x BOUNDS 1 2 3 4"), w("WITHIN k1 SPARSE 9 BOUNDS 0 0 10 10"), w("WITHIN k1 BOUNDS 0 0 10 10"), w("WITHIN k1 IDS CIRCLE 1 2 100000"), w("WITHIN k1 COUNT BOUNDS 0 0 10 10"), {"WITHIN", "k1", "OBJECT", gPoly}, w("WITHIN k1 GET k2 a"), w("WITHIN k1 TILE 0 0 1"), w("WITHIN k1 QUADKEY 03"), w("WITHIN k1 HASH 9tb"), w("WITHIN k1 SECTOR 1 2 100000 0 90"), w("WITHIN nokey BOUNDS 0 0 1 1"), w("WITHIN k1"), w("WITHIN k1 BOUNDS 0 0"), w("WITHIN k1 GET nokey a")},
		"INTERSECTS":     {w("INTERSECTS k1 IDS GEO"), w("INTERSECTS k1 MVT"), w("INTERSECTS k1 IDS POINT 1 2"), w("INTERSECTS k1 IDS ROAM k2 * 100"), w("INTERSECTS k1 CLIP BOUNDS 0 0 5 5"), {"INTERSECTS", "k1", "BUFFER", "500", "OBJECT", gLine}, w("INTERSECTS k1 SPARSE 1 IDS BOUNDS 0 0 10 10"), w("INTERSECTS k1 MVT 0 0 0"), w("INTERSECTS k1 CLIP IDS BOUNDS 0 0 5 5"), w("INTERSECTS k1 IDS TILE 1 1 1"), w("INTERSECTS k1 BOUNDS 0 0 10 10"), w("INTERSECTS k1 IDS CIRCLE 1 2 100000"), w("INTERSECTS k1 CLIPBY BOUNDS 0 0 5 5 BOUNDS 0 0 10 10"), {"INTERSECTS", "k1", "OBJECT", gLine}, w("INTERSECTS k1 GET k2 a"), w("INTERSECTS nokey BOUNDS 0 0 1 1"), w("INTERSECTS k1"), w("INTERSECTS k1 CIRCLE 1 2")},
		"TEST":           {w("TEST BOUNDS 0 0 5 5 INTERSECTS CLIP BOUNDS 1 1 9 9"), w("TEST SECTOR 1 2 1000 0 90 WITHIN CIRCLE 1 2 5000"), w("TEST TILE 0 0 0 INTERSECTS QUADKEY 0"), w("TEST HASH s0 WITHIN HASH s"), {"TEST", "OBJECT", gLine, "INTERSECTS", "GET", "k1", "c"}, w("TEST GET k1 b WITHIN BOUNDS 0 0 10 10"), w("TEST POINT 1 2 WITHIN CLIP BOUNDS 0 0 5 5"), w("TEST CIRCLE 1 2 0 INTERSECTS POINT 1 2"), w("TEST POINT 91 181 WITHIN BOUNDS -90 -180 90 180"), {"TEST", "POINT", "1", "2", "WITHIN", "BOUNDS", "0", "0", "10", "10"}, {"TEST", "GET", "k1", "a", "INTERSECTS", "OBJECT", gPoly}, w("TEST POINT 1 2 INTERSECTS CIRCLE 1 2 100"), w("TEST GET nokey a WITHIN BOUNDS 0 0 1 1"), w("TEST POINT 1 2"), w("TEST")},
		"SETHOOK":        {w("SETHOOK hk4 http://127.0.0.1:1/a,http://127.0.0.1:1/b " + fence), w("SETHOOK hk5 ftp://127.0.0.1/x " + fence), w("SETHOOK hk6 kafka://127.0.0.1:9092/topic " + fence), w("SETHOOK hk7 redis://127.0.0.1:6379/chan " + fence), w("SETHOOK hk8 mqtt://127.0.0.1:1883/t?qos=1 " + fence), w("SETHOOK hk9 nats://127.0.0.1:4222/s " + fence), w("SETHOOK hk10 grpc://127.0.0.1:1 " + fence), w("SETHOOK hk11 disque://127.0.0.1:1/q " + fence), w("SETHOOK hk12 amqp://127.0.0.1:1/q " + fence), w("SETHOOK hk13 sqs://127.0.0.1:1/q " + fence), w("SETHOOK hk14 http:// " + fence), w("SETHOOK hk15 , " + fence), w("SETHOOK hk2 http://127.0.0.1:1/x " + fence), w("SETHOOK hk1 http://127.0.0.1:1/x WITHIN k9 FENCE DETECT enter BOUNDS 50 50 51 51"), w("SETHOOK hk3 http://127.0.0.1:1/x META a b EX 100 " + fence), w("SETHOOK hk2"), w("SETHOOK hk2 badendpoint " + fence), w("SETHOOK hk2 http://127.0.0.1:1/x NEARBY k9 POINT 50 50 100")},
		"SETCHAN":        {w("SETCHAN ch4 NEARBY k9 FENCE DETECT enter,exit COMMANDS set,del POINT 50 50 100"), w("SETCHAN ch5 NEARBY k9 FENCE NODWELL ROAM k8 * 100"), w("SETCHAN ch6 INTERSECTS k9 WHERE f 1 2 MATCH a* FENCE BOUNDS 50 50 51 51"), w("SETCHAN ch7 NEARBY k9 FENCE DETECT bogus POINT 50 50 100"), w("SETCHAN ch8 NEARBY k9 FENCE COMMANDS bogus POINT 50 50 100"), w("SETCHAN ch9 NEARBY k9 FENCE ROAM k8"), w("SETCHAN ch2 META a EX x NEARBY k9 FENCE POINT 50 50 100"), w("SETCHAN ch2 EX -1 NEARBY k9 FENCE POINT 50 50 100"), w("SETCHAN ch2 " + fence), w("SETCHAN ch1 WITHIN k9 FENCE DETECT enter BOUNDS 50 50 51 51"), w("SETCHAN ch3 META a b EX 100 " + fence), w("SETCHAN ch2"), w("SETCHAN ch2 NEARBY k9 POINT 50 50 100")},
		"DELHOOK":        {w("DELHOOK hk1"), w("DELHOOK nope"), w("DELHOOK")},
		"DELCHAN":        {w("DELCHAN ch1"), w("DELCHAN nope"), w("DELCHAN")},
		"PDELHOOK":       {w("PDELHOOK h*"), w("PDELHOOK nope*"), w("PDELHOOK")},
		"PDELCHAN":       {w("PDELCHAN c*"), w("PDELCHAN nope*"), w("PDELCHAN")},
		"HOOKS":          {w("HOOKS *"), w("HOOKS hk*"), w("HOOKS nomatch"), w("HOOKS")},
		"CHANS":          {w("CHANS *"), w("CHANS ch*"), w("CHANS nomatch"), w("CHANS")},
		"EVAL":           {{"EVAL", catScriptW, "0"}, {"EVAL", catScriptR, "0"}, {"EVAL", catScriptDel, "0"}, {"EVAL", "return KEYS[1]..ARGV[1]", "1", "kk", "vv"}, {"EVAL", "return {1,2,{3,'x'}}", "0"}, {"EVAL", "return nil", "0"}, {"EVAL", "syntax error here", "0"}, {"EVAL", "error('boom')", "0"}, {"EVAL", "return 1"}, {"EVAL", "return 1", "x"}, {"EVAL"},
			// values JSON has no literal for
			{"EVAL", "return 0/0", "0"}, {"EVAL", "return 1/0", "0"}, {"EVAL", "return {-1/0, 0/0}", "0"}, {"EVAL", "return {[1.5]='a'}", "0"}, {"EVAL", "return {a=0/0}", "0"}, {"EVAL", "return true", "0"}, {"EVAL", "return '\\255\\0\\n\"'", "0"}, {"EVAL", "return {1,nil,3}", "0"}, {"EVAL", "return 1e308*10", "0"}, {"EVAL", "return 2^53+1", "0"}, {"EVAL", "return print", "0"}, {"EVAL", "return {f=print, [true]=1}", "0"}},
		"EVALRO":         {{"EVALRO", catScriptW, "0"}, {"EVALRO", catScriptR, "0"}, {"EVALRO", catScriptDel, "0"}, {"EVALRO", "return 1", "0"}, {"EVALRO"}},
		"EVALNA":         {{"EVALNA", catScriptW, "0"}, {"EVALNA", catScriptR, "0"}, {"EVALNA", catScriptDel, "0"}, {"EVALNA", "return 1", "0"}, {"EVALNA"}},
		"EVALSHA":        {{"EVALSHA", catSha, "0"}, {"EVALSHA", "@W", "0"}, {"EVALSHA", "@R", "0"}, {"EVALSHA"}},
		"EVALROSHA":      {{"EVALROSHA", catSha, "0"}, {"EVALROSHA", "@W", "0"}, {"EVALROSHA", "@R", "0"}, {"EVALROSHA"}},
		"EVALNASHA":      {{"EVALNASHA", catSha, "0"}, {"EVALNASHA", "@W", "0"}, {"EVALNASHA", "@R", "0"}, {"EVALNASHA"}},
		"SCRIPT LOAD":    {{"SCRIPT", "LOAD", "return 2"}, {"SCRIPT", "LOAD", "syntax error here"}, {"SCRIPT", "LOAD"}},
		"SCRIPT EXISTS":  {{"SCRIPT", "EXISTS", catSha}, {"SCRIPT", "EXISTS", "@R", catSha}, {"SCRIPT", "EXISTS"}},
		"SCRIPT FLUSH":   {{"SCRIPT", "FLUSH"}, {"SCRIPT", "FLUSH", "x"}},
		"PING":           {w("PING"), w("PING hello"), w("PING a b")},
		"ECHO":           {w("ECHO hello"), w("ECHO")},
		"OUTPUT":         {w("OUTPUT"), w("OUTPUT resp"), w("OUTPUT json"), w("OUTPUT bogus"), w("OUTPUT json x")},
		"AUTH":           {w("AUTH secret"), w("AUTH wrong"), w("AUTH")},
		"TIMEOUT":        {w("TIMEOUT 1 GET k1 a"), w("TIMEOUT 1 SCAN k1"), w("TIMEOUT 1 SET k1 a POINT 1 2"), w("TIMEOUT 1 DEL k1 a"), {"TIMEOUT", "1", "EVAL", catScriptW, "0"}, w("TIMEOUT x GET k1 a"), w("TIMEOUT 1"), w("TIMEOUT")},
		"SERVER":         {w("SERVER"), w("SERVER EXT"), w("SERVER bogus")},
		"INFO":           {w("INFO all"), w("INFO default"), w("INFO clients"), w("INFO memory"), w("INFO persistence"), w("INFO stats"), w("INFO replication"), w("INFO cpu"), w("INFO cluster"), w("INFO server clients"), w("INFO SERVER"), w("INFO"), w("INFO server"), w("INFO bogus")},
		"ROLE":           {w("ROLE"), w("ROLE x")},
		"HEALTHZ":        {w("HEALTHZ"), w("HEALTHZ x")},
		"GC":             {w("GC")},
		"READONLY":       {w("READONLY yes"), w("READONLY no"), w("READONLY maybe"), w("READONLY")},
		"CONFIG GET":     {w("CONFIG GET requirepass"), w("CONFIG GET *"), w("CONFIG GET maxmemory"), w("CONFIG GET bogus"), w("CONFIG GET")},
		"CONFIG SET":     {w("CONFIG SET keepalive 300"), w("CONFIG SET maxmemory 0"), w("CONFIG SET bogus 1"), w("CONFIG SET keepalive"), w("CONFIG SET")},
		"CONFIG REWRITE": {w("CONFIG REWRITE"), w("CONFIG REWRITE x")},
		"CLIENT":         {w("CLIENT KILL addr 1.2.3.4:5"), w("CLIENT KILL 1.2.3.4:5"), w("CLIENT KILL id x"), w("CLIENT SETNAME"), w("CLIENT LIST extra"), w("CLIENT LIST"), w("CLIENT GETNAME"), w("CLIENT SETNAME me"), w("CLIENT KILL id 999"), w("CLIENT BOGUS"), w("CLIENT")},
		"AOFMD5":         {w("AOFMD5 10 5"), w("AOFMD5 -1 5"), w("AOFMD5 0 -5"), w("AOFMD5 0"), w("AOFMD5 0 0"), w("AOFMD5 0 10"), w("AOFMD5 0 99999999"), w("AOFMD5 x 0"), w("AOFMD5")},
		"AOFSHRINK":      {w("AOFSHRINK")},
		"PUBLISH":        {w("PUBLISH ch1 hello"), w("PUBLISH nochan hello"), w("PUBLISH ch1"), w("PUBLISH")},
		"FOLLOW":         {w("FOLLOW no one"), w("FOLLOW 127.0.0.1"), w("FOLLOW")},
		"SLAVEOF":        {w("SLAVEOF no one"), w("SLAVEOF 127.0.0.1"), w("SLAVEOF")}, // undocumented alias of FOLLOW
		// commands of the dispatcher that are refused unless the server runs in dev mode
		"MASSINSERT": {w("MASSINSERT 2 2"), w("MASSINSERT")},
		"SLEEP":      {w("SLEEP 0.001"), w("SLEEP")},
		"SHUTDOWN":   {w("SHUTDOWN")},
		"REPLCONF":   {w("REPLCONF ip-address 10.0.0.1"), w("REPLCONF listening-port x"), w("REPLCONF bogus 1"), w("REPLCONF listening-port"), w("REPLCONF listening-port 9999"), w("REPLCONF")},
		"HELLO":      {w("HELLO 3"), w("HELLO")},
		"COMMAND":    {w("COMMAND"), w("COMMAND DOCS")},
		"BOGUSCMD":   {w("BOGUSCMD"), w("BOGUSCMD a b")},
	}
	return c
}

// connection-changing / blocking commands need special handling by callers:
// SUBSCRIBE, PSUBSCRIBE, MONITOR, AOF, QUIT and "... FENCE" searches go live.
var catLive = map[string][][]string{
	"SUBSCRIBE":  {w("SUBSCRIBE ch1"), w("SUBSCRIBE")},
	"PSUBSCRIBE": {w("PSUBSCRIBE ch*"), w("PSUBSCRIBE")},
	"MONITOR":    {w("MONITOR")},
	"AOF":        {w("AOF 0"), w("AOF 99999999"), w("AOF x"), w("AOF")},
	"QUIT":       {w("QUIT")},
}

// catalogueNames returns catalogue commands in a stable order, plus the
// commands of core/commands.json that have no catalogue entry.
func catalogueNames(repo string) (names []string, uncatalogued []string) {
	cat := catalogue()
	for k := range cat {
		names = append(names, k)
	}
	sort.Strings(names)
	data, err := os.ReadFile(filepath.Join(repo, "core", "commands.json"))
	if err == nil {
		var m map[string]json.RawMessage
		if json.Unmarshal(data, &m) == nil {
			for k := range m {
				if _, ok := cat[k]; !ok {
					if _, live := catLive[k]; !live {
						uncatalogued = append(uncatalogued, k)
					}
				}
			}
		}
	}
	sort.Strings(uncatalogued)
	return
}

// catSetup brings a fresh server into the "small" state the shapes refer to.
func catSetup(c *Cli) map[string]string {
	for _, cmd := range [][]string{
		w("SET k1 a FIELD f 1 FIELD g str POINT 1 2"),
		{"SET", "k1", "b", "STRING", `{"x":1}`},
		{"SET", "k1", "c", "OBJECT", gFeature},
		w("SET k1 t EX 1000 POINT 5 5"),
		w("SET k2 a BOUNDS 1 2 3 4"),
		w("SETHOOK hk1 http://127.0.0.1:1/x NEARBY k9 FENCE POINT 50 50 100"),
		w("SETCHAN ch1 NEARBY k9 FENCE POINT 50 50 100"),
	} {
		c.Do(cmd...)
	}
	sha := map[string]string{}
	sha["@W"] = c.Do("SCRIPT", "LOAD", catScriptW).S
	sha["@R"] = c.Do("SCRIPT", "LOAD", catScriptR).S
	sha["@F"] = c.Do("SCRIPT", "LOAD", "return FIELDS.f == 1").S
	return sha
}

// catSubst replaces @W / @R placeholders by the loaded script hashes.
func catSubst(args []string, sha map[string]string) []string {
	out := make([]string, len(args))
	for i, a := range args {
		if v, ok := sha[a]; ok {
			out[i] = v
		} else {
			out[i] = a
		}
	}
	return out
}
