//go:build verif

package server

// C14 - expiration is never early, always eventual, and visible as a delete
// everywhere.
//
// FAULT/SEQ with virtual time: BFS over histories of TTL commands and clock
// advances, for three initial phases of the 200 ms sweeper.  The model carries
// deadlines on the virtual clock; the harness lets virtual time pass exactly
// as the model says (an advance is extended in 50 ms steps until no object is
// inside the sweeper's 0.4 s grace window, so every observed object is either
// alive or overdue).  Oracles after every symbol: visible dump = model (alive
// objects present in GET/SCAN/WITHIN/SEARCH, overdue ones absent), TTL = whole
// seconds remaining, every expiry logged as del / delchan, 'del' fence message
// delivered, and - at the end of each history - absent after a restart.

import (
	"os"
	"math"
	"bytes"
	"fmt"
	"path/filepath"
	"sort"
	"strconv"
	"strings"
	stdtime "time"

	"github.com/tidwall/tile38/internal/vshim/vos"
	"github.com/tidwall/tile38/internal/vshim/vsched"
)

func init() { checks["c14"] = checkC14 }

func c14Alphabet() []seqSym {
	fence := []string{"NEARBY", "k9", "FENCE", "POINT", "50", "50", "100"}
	return []seqSym{
		sy("SET", "k1", "a", "EX", "0.73", "POINT", "7", "7"),
		sy("SET", "k1", "a", "EX", "1.73", "POINT", "7", "7"),
		sy("SET", "k1", "a", "POINT", "7", "7"),
		sy("SET", "k1", "b", "EX", "0.73", "STRING", `{"x":1}`),
		sy("SET", "k0", "keep", "EX", "900.5", "POINT", "1", "1"), // an earlier-sorting collection whose deadline is far away
		sy("SET", "k3", "z", "EX", "0.73", "POINT", "2", "2"),
		sy("SET", "k1", "a", "EX", "0", "POINT", "7", "7"),    // a deadline that has already passed:
		sy("SET", "k1", "a", "EX", "-2.5", "POINT", "7", "7"), // gone at the next sweep, not persistent
		sy("SET", "k1", "a", "EX", "10000000000", "POINT", "7", "7"), // beyond the int64 nanosecond range: never early
		sy("EXPIRE", "k1", "a", "10000000000"),
		sy("EXPIRE", "k1", "a", "-10000000000"), // the other end of the range: overdue, not immortal
		sy(append([]string{"SETCHAN", "chx", "EX", "10000000000"}, fence...)...),
		sy("SET", "k1", "a", "EX", "nan", "POINT", "7", "7"), // not a number of seconds: refused
		sy("EXPIRE", "k1", "a", "NaN"),
		sy("READONLY", "yes"), // deadlines keep passing on a read-only leader
		sy("READONLY", "no"),
		sy("EXPIRE", "k1", "a", "0.73"),
		sy("EXPIRE", "k1", "a", "2.73"),
		sy("PERSIST", "k1", "a"),
		sy("DEL", "k1", "a"),
		sy("RENAME", "k1", "k2"),
		sy("FSET", "k1", "a", "f", "1"),
		sy("JSET", "k1", "b", "y", "2"),
		sy(append([]string{"SETCHAN", "chx", "EX", "0.73"}, fence...)...),
		sy(append([]string{"SETCHAN", "chx"}, fence...)...), // a permanent definition over an expiring one
		sy("DELCHAN", "chx"),
		sy("@ADVANCE", "0.05"),
		sy("@ADVANCE", "0.2"),
		sy("@ADVANCE", "1"),
	}
}

// drainMessages returns the pub/sub payloads received so far on a subscriber.
func drainMessages(c *Cli) []string {
	var out []string
	c.buf = append(c.buf, c.c.Drain()...)
	for {
		v, rest, ok, err := parseRESP(c.buf)
		if err != nil || !ok {
			return out
		}
		c.buf = append(c.buf[:0], rest...)
		if v.K == '*' && len(v.A) == 3 && v.A[0].S == "message" {
			out = append(out, v.A[2].S)
		} else if v.K == '$' && !v.Null {
			out = append(out, v.S) // live fence connection
		}
	}
}

func checkC14(job *Job, res *Result) {
	res.Rule = "SEQ/FAULT with virtual time: BFS over histories of SET EX / EXPIRE / PERSIST / overwrite / DEL / RENAME / FSET / JSET / SETCHAN EX and clock advances (+0.05 s, +0.2 s, +1 s), x 3 initial phases of the 200 ms sweeper; states deduplicated on (model state, remaining lifetimes, sweeper phase); distinct = distinct (timed model state, phase) reached"
	res.Assumptions = append(res.Assumptions,
		"time is the virtual clock owned by the harness; the sweeper (backgroundExpiring) and the flusher run on it; other polling loops frozen",
		"an expired object may stay visible for up to 0.4 s (two sweeper periods); observations are made only outside that window, the sweeper-versus-client race inside it is C07's set-vs-sweeper scenario",
		"deadlines are re-based on AOF replay (SET .. EX is logged with its relative TTL), so after a restart only 'expired objects stay gone' is asserted")
	depth := 3
	if d, ok := job.Params["depth"].(float64); ok {
		depth = int(d)
	}
	alpha := c14Alphabet()
	phases := []int{0, 70, 140}
	owned := map[string]bool{}
	firstDump := map[string][2]string{}
	nEdges := 0
	stop := false
	var wantPath []string
	wantPhase := -1
	if job.Replay != nil {
		var r struct {
			Path  []string `json:"path"`
			Phase int      `json:"phase"`
		}
		mustJSON(job.Replay, &r)
		wantPath, wantPhase = r.Path, r.Phase
	}
	init := newMState()
	init.Timed = true
	total := seqEnumerateFrom(init, alpha, depth, func(e seqEdge, src, dst *mState) {
		if stop || int(fnv(e.Dst)%uint64(job.NShards)) != job.Shard {
			return
		}
		full := append(symsOf(alpha, e.Path), alpha[e.Sym].String())
		if wantPath != nil && strings.Join(full, "\n") != strings.Join(wantPath, "\n") {
			return
		}
		if res.OverBudget() {
			res.Cap(fmt.Sprintf("time budget hit at depth %d; all shallower edges were executed", len(e.Path)+1))
			stop = true
			return
		}
		owned[e.Dst] = true
		for _, phase := range phases {
			if wantPhase >= 0 && phase != wantPhase {
				continue
			}
			nEdges++
			viol := func(sig, detail string) {
				res.Violate("C14/"+sig, fmt.Sprintf("%s  [history (sweeper phase +%d ms): %s]", detail, phase, strings.Join(full, " ; ")),
					map[string]any{"path": full, "phase": phase})
			}
			x := runExec(job, freezeAllBut("backgroundExpiring", "backgroundSyncAOF"), func(x *Exec) {
				dir := x.dir + "/L"
				aof := filepath.Clean(filepath.Join(dir, "appendonly.aof"))
				in := x.Start("L", dir, 9001, nil)
				c := x.Dial(in.Addr)
				// fence watchers on both keys the alphabet uses
				// (live fences, not channels: a key with hooks cannot be renamed)
				subs := []*Cli{x.Dial(in.Addr), x.Dial(in.Addr)}
				subs[0].Send(respCmd("NEARBY", "k1", "FENCE", "POINT", "7", "7", "100000"))
				subs[1].Send(respCmd("NEARBY", "k2", "FENCE", "POINT", "7", "7", "100000"))
				vsched.Quiesce()
				drainAll := func() []string {
					var out []string
					for _, s := range subs {
						out = append(out, drainMessages(s)...)
					}
					return out
				}
				drainAll()
				vsched.Sleep(int64(phase) * int64(stdtime.Millisecond))
				st := newMState()
				st.Timed = true
				apply := func(sym seqSym, check bool) {
					before := st.Now
					logBefore := len(vos.Image(len(vos.Log))[aof])
					exp := mApply(st, sym.Args)
					if sym.Args[0] == "@ADVANCE" {
						vsched.Sleep(int64((st.Now-before)*1e9 + 0.5))
						vsched.Quiesce()
					} else {
						got := c.Do(sym.Args...)
						if check && !mMatch(exp, got) {
							viol("reply:"+strings.ToLower(sym.Args[0]), fmt.Sprintf("%s replied %s, model expects %s", sym, got, exp))
						}
					}
					if !check {
						vsched.Quiesce()
						drainAll()
						return
					}
					// 1. presence everywhere / absence of overdue objects
					vis, err := serverCanon(c)
					want := st.canon()
					if i := strings.Index(want, "@"); i >= 0 {
						want = want[:i] // hooks are compared through CHANS below
					}
					if err != nil {
						viol("dump", err.Error())
					} else if vis != want {
						sig := "visible-state"
						if len(vis) > len(want) {
							sig = "not-expired-after-deadline+0.4s"
						} else if len(vis) < len(want) {
							sig = "gone-before-deadline"
						}
						viol(sig+":"+strings.ToLower(sym.Args[0]), fmt.Sprintf("visible %q, model %q at model time %.2f s", vis, want, st.Now))
					}
					for _, k := range sortedKeys(st.Cols) {
						var geo, str []string
						for _, id := range sortedKeys(st.Cols[k]) {
							o := st.Cols[k][id]
							if o.Kind == 's' {
								str = append(str, id)
							} else {
								geo = append(geo, id)
							}
							// 2. TTL in whole seconds
							exp := mApply(st, []string{"TTL", k, id})
							if g := c.Do("TTL", k, id); !mMatch(exp, g) {
								// remaining time within a microsecond of a whole second: the
								// integer part depends on the last bit of the clock arithmetic
								if fr := o.TTL - math.Floor(o.TTL); o.Dead && (fr < 1e-6 || fr > 1-1e-6) {
									lo, hi := int(math.Floor(o.TTL+0.5))-1, int(math.Floor(o.TTL+0.5))
									if g.String() == ":"+strconv.Itoa(lo) || g.String() == ":"+strconv.Itoa(hi) {
										continue
									}
								}
								viol("ttl", fmt.Sprintf("TTL %s %s replied %s, model expects %s (remaining %.3f s)", k, id, g, exp, o.TTL))
							}
						}
						if ids, ok := idsOf(c.Do("WITHIN", k, "IDS", "BOUNDS", "-90", "-180", "90", "180")); !ok || !sameSet(ids, geo) {
							viol("within", fmt.Sprintf("WITHIN %s -> %v, model %v", k, ids, geo))
						}
						if ids, ok := idsOf(c.Do("SEARCH", k, "IDS")); !ok || !sameSet(ids, str) {
							viol("search", fmt.Sprintf("SEARCH %s -> %v, model %v", k, ids, str))
						}
						if g := c.Do("SCAN", k, "COUNT"); g.String() != ":"+strconv.Itoa(len(geo)+len(str)) {
							viol("count", fmt.Sprintf("SCAN %s COUNT -> %s, model %d", k, g, len(geo)+len(str)))
						}
					}
					// 3. channels with EX
					ch := c.Do("CHANS", "chx")
					_, wantCh := st.Hooks["c:chx"]
					if (len(ch.A) == 1) != wantCh {
						viol("chan-expiry", fmt.Sprintf("CHANS chx -> %s, model has channel: %v", ch, wantCh))
					}
					// 4 + 5. every expiry is logged and announced
					vsched.Quiesce()
					msgs := drainAll()
					if sym.Args[0] == "@ADVANCE" {
						tail := vos.Image(len(vos.Log))[aof]
						if len(tail) >= logBefore {
							tail = tail[logBefore:]
						}
						// the flusher writes the sweeper's DEL within its 1 s period:
						// make it visible before judging
						if len(st.Expired) > 0 {
							c.Do("SET", "kflush", "x", "POINT", "1", "1")
							c.Do("DEL", "kflush", "x")
							tail = vos.Image(len(vos.Log))[aof][logBefore:]
						}
						for _, e := range st.Expired {
							if strings.HasPrefix(e, "c:") {
								if !bytes.Contains(tail, respCmd("delchan", e[2:])) {
									viol("expiry-not-logged:chan", fmt.Sprintf("channel %s expired but no delchan entry was appended to the log", e[2:]))
								}
								continue
							}
							kv := strings.Fields(e)
							if !bytes.Contains(tail, respCmd("del", kv[0], kv[1])) {
								viol("expiry-not-logged", fmt.Sprintf("%s expired but no del entry was appended to the log (tail %q)", e, vclip(string(tail), 300)))
							}
							if kv[1] == "a" { // geometry inside the watcher fence
								found := false
								for _, m := range msgs {
									if strings.Contains(m, `"command":"del"`) && strings.Contains(m, `"id":"`+kv[1]+`"`) {
										found = true
									}
								}
								if !found {
									viol("expiry-no-fence-del", fmt.Sprintf("%s expired inside a fence but no 'del' notification was published (got %d messages)", e, len(msgs)))
								}
							}
						}
					}
				}
				for _, k := range e.Path {
					apply(alpha[k], false)
				}
				apply(alpha[e.Sym], true)
				res.Distinct(fnv(e.Dst + fmt.Sprint(phase)))
				// hidden timers: the internal state (expiry indexes of objects and of
				// hooks, registries) must be the same on every path to this timed state
				idump := timerDump(in.S)
				key := e.Dst + fmt.Sprint("|", phase)
				if a, ok := firstDump[key]; !ok {
					firstDump[key] = [2]string{idump, strings.Join(full, " ; ")}
				} else if a[0] != idump {
					viol("hidden-timer-state:"+strings.ToLower(alpha[e.Sym].Args[0]), fmt.Sprintf("internal state differs from the one reached via [%s]: %s  vs  %s", a[1], vclip(idump, 400), vclip(a[0], 400)))
				}
				// 6. restart: what expired stays gone
				if len(e.Path)+1 == depth || alpha[e.Sym].Args[0] == "@ADVANCE" {
					// an object that is overdue but not swept yet may or may not survive
					// the restart: let the sweeper take it first
					for _, k := range sortedKeys(st.Cols) {
						for _, o := range st.Cols[k] {
							if o.Dead && o.TTL <= 0 {
								vsched.Sleep(int64(450 * stdtime.Millisecond))
								vsched.Quiesce()
								c.Do("PING")
								break
							}
						}
					}
					before := fullDump(c)
					c.Close()
					for _, s := range subs {
						s.Close()
					}
					in.Stop()
					in2 := x.Start("L2", dir, 9002, nil)
					c2 := x.Dial(in2.Addr)
					after := fullDump(c2)
					c2.Close()
					if after != before {
						viol("restart", fmt.Sprintf("after restart %q, before %q", after, before))
					}
				}
			})
			if len(x.Crashes) > 0 {
				viol("server-crash", x.Crashes[0].Value)
			} else if x.Err != "" {
				viol("hang", x.Err)
			}
		}
		if nEdges <= 3 || nEdges == 900 {
			res.Sample(map[string]any{"history": full, "timed_model_state_after": e.Dst})
		}
	})
	res.Transitions += nEdges
	res.Evaluations += nEdges
	res.Validated += nEdges
	res.States += len(owned)
	res.Bounds["depth"] = depth
	res.Bounds["alphabet"] = len(alpha)
	res.Bounds["sweeper_phases_ms"] = phases
	res.Bounds["timed_model_states_total"] = total
	if job.Shard == 0 && job.Replay == nil {
		c14RoleChange(job, res)
	}
	if job.Shard == 1%job.NShards && job.Replay == nil {
		c14NoLog(job, res, phases)
	}
	if job.Shard == 2%job.NShards && job.Replay == nil {
		c14Overdue(job, res)
	}
}

// timerDump lists every pending timer the server holds: the expiry index of each
// collection and the hook expiry queue (names only; deadlines are in the state key).
func timerDump(s *Server) string {
	var sb strings.Builder
	s.cols.Scan(func(key string, col *collectionT) bool {
		var ids []string
		col.ScanExpires(func(o *objectT) bool {
			ids = append(ids, o.ID())
			return true
		})
		sort.Strings(ids) // index order depends on nanosecond differences between deadlines
		sb.WriteString(key + "[" + strings.Join(ids, ",") + "]")
		return true
	})
	var hs []string
	s.hookExpires.Ascend(nil, func(v interface{}) bool {
		hs = append(hs, v.(*Hook).Name)
		return true
	})
	sort.Strings(hs)
	sb.WriteString(" hooks[" + strings.Join(hs, ",") + "]")
	return sb.String()
}

// c14RoleChange: the sweeper of a process that changes its role at run time. A
// replica (started from a config file that names its leader) that is promoted
// with FOLLOW no one expires what it is given from then on; what it was given
// before, by its leader, expires too.
// c14Overdue: a deadline far in the past (the low end of the TTL range) is overdue,
// never a long life: TTL says 0 until the sweep, and a rewrite of the log that meets
// the object before the sweep does not hand it a new life across a restart.
func c14Overdue(job *Job, res *Result) {
	for _, ttl := range []string{"-10000000000", "-9223372036", "-9223372036.8", "-1e300", "-4611686018", "-5"} {
		for _, how := range []string{"SET EX", "EXPIRE"} {
			for _, shrink := range []bool{false, true} {
				ttl, how, shrink := ttl, how, shrink
				viol := func(sig, detail string) {
					res.Violate("C14/overdue:"+sig, fmt.Sprintf("%s  [%s %s, rewrite before the sweep: %v]", detail, how, ttl, shrink), map[string]any{"overdue": ttl, "how": how, "shrink": shrink})
				}
				x := runExec(job, freezeAllBut("backgroundExpiring"), func(x *Exec) {
					dir := x.dir + "/L"
					in := x.Start("L", dir, 9001, nil)
					c := x.Dial(in.Addr)
					c.Do("SET", "k", "other", "POINT", "1", "1")
					if how == "SET EX" {
						c.Do("SET", "k", "a", "EX", ttl, "POINT", "7", "7")
					} else {
						c.Do("SET", "k", "a", "POINT", "7", "7")
						c.Do("EXPIRE", "k", "a", ttl)
					}
					vsched.Sleep(int64(30 * stdtime.Millisecond)) // before the first sweep (200 ms)
					res.Evaluations++
					res.DistinctS(fmt.Sprint("overdue", ttl, how, shrink))
					if r := c.Do("TTL", "k", "a"); r.String() != ":0" && r.String() != ":-2" && !r.Null && !r.IsErr() {
						viol("ttl", "30 ms after the command TTL k a replies "+r.String())
					}
					if shrink {
						waitShrink(in, c)
					}
					c.Close()
					in.Stop()
					vsched.Paused[in.Name] = true
					in2 := x.Start("L2", dir, 9002, nil)
					c2 := x.Dial(in2.Addr)
					vsched.Sleep(int64(700 * stdtime.Millisecond))
					vsched.Quiesce()
					if g := c2.Do("GET", "k", "a"); !g.Null && !g.IsErr() {
						viol("immortal-after-restart", fmt.Sprintf("after a restart and 0.7 s the object is still served, TTL %s", c2.Do("TTL", "k", "a")))
					}
				})
				if x.Err != "" || len(x.Crashes) > 0 {
					viol("hang-or-crash", fmt.Sprint(x.Err, x.Crashes))
				}
			}
		}
	}
}

// c14NoLog: a server that keeps no log (appendonly no) expires and announces like any
// other: 4 ways of giving an object a deadline x 3 sweeper phases, observed by a live
// fence and by a channel subscriber.
func c14NoLog(job *Job, res *Result, phases []int) {
	histories := [][][]string{
		{{"SET", "k1", "a", "EX", "1", "POINT", "7", "7"}},
		{{"SET", "k1", "a", "POINT", "7", "7"}, {"EXPIRE", "k1", "a", "1"}},
		{{"SET", "k1", "a", "EX", "50", "POINT", "7", "7"}, {"SET", "k1", "a", "EX", "1", "POINT", "7", "7"}},
		{{"SET", "k1", "b", "POINT", "7", "7"}, {"SET", "k1", "a", "EX", "1", "POINT", "7", "7"}, {"SET", "k1", "c", "EX", "1.1", "POINT", "7", "7"}},
	}
	for hi, h := range histories {
		for _, phase := range phases {
			hi, h, phase := hi, h, phase
			viol := func(sig, detail string) {
				res.Violate("C14/no-log-server:"+sig, fmt.Sprintf("%s  [server without a log, sweeper phase +%d ms, history %v]", detail, phase, h), map[string]any{"nolog": hi, "phase": phase})
			}
			x := runExec(job, freezeAllBut("backgroundExpiring", "backgroundSyncAOF"), func(x *Exec) {
				in := x.Start("N", x.dir+"/N", 9001, func(o *Options) { o.AppendOnly = false })
				c := x.Dial(in.Addr)
				c.Do(append([]string{"SETCHAN", "watch"}, "NEARBY", "k1", "FENCE", "POINT", "7", "7", "100000")...)
				live, sub := x.Dial(in.Addr), x.Dial(in.Addr)
				live.Send(respCmd("NEARBY", "k1", "FENCE", "POINT", "7", "7", "100000"))
				sub.Send(respCmd("SUBSCRIBE", "watch"))
				vsched.Quiesce()
				vsched.Sleep(int64(phase) * int64(stdtime.Millisecond))
				for _, cmd := range h {
					c.Do(cmd...)
				}
				vsched.Quiesce()
				drainMessages(live)
				drainMessages(sub)
				vsched.Sleep(int64(1600 * stdtime.Millisecond))
				vsched.Quiesce()
				res.Evaluations++
				res.DistinctS(fmt.Sprint("nolog", hi, phase))
				if g := c.Do("GET", "k1", "a"); !g.Null {
					viol("not-expired", "k1/a is still served 0.6 s after its deadline: "+vclip(g.String(), 80))
				}
				for name, conn := range map[string]*Cli{"live fence": live, "channel": sub} {
					found := false
					msgs := drainMessages(conn)
					for _, m := range msgs {
						if strings.Contains(m, `"command":"del"`) && strings.Contains(m, `"id":"a"`) {
							found = true
						}
					}
					if !found {
						viol("expiry-no-fence-del", fmt.Sprintf("k1/a expired inside the fence but the %s received no 'del' notification (%d messages)", name, len(msgs)))
					}
				}
			})
			if x.Err != "" || len(x.Crashes) > 0 {
				viol("hang-or-crash", fmt.Sprint(x.Err, x.Crashes))
			}
		}
	}
}

func c14RoleChange(job *Job, res *Result) {
	viol := func(sig, detail string) {
		res.Violate("C14/role-change:"+sig, detail, map[string]any{"role_change": true})
	}
	x := runExec(job, freezeAllBut("backgroundExpiring", "backgroundSyncAOF", "follow", "Serve#2", "Serve#4"), func(x *Exec) {
		L := x.Start("L", x.dir+"/L", 9001, nil)
		lc := x.Dial(L.Addr)
		lc.Do("SET", "k", "long", "EX", "1000", "POINT", "1", "1")
		fdir := x.dir + "/F"
		os.MkdirAll(fdir, 0700)
		os.WriteFile(filepath.Join(fdir, "config"), []byte(`{"follow_host":"127.0.0.1","follow_port":9001}`), 0600)
		F := x.Start("F", fdir, 9002, nil)
		fc := x.Dial(F.Addr)
		ok := false
		for i := 0; i < 100 && !ok; i++ {
			vsched.Sleep(int64(100 * stdtime.Millisecond))
			vsched.Quiesce()
			ok = followerCaughtUp(fc)
		}
		if !ok {
			viol("setup", "the replica started from a config file did not catch up within 10 virtual seconds")
			return
		}
		if r := fc.Do("FOLLOW", "no", "one"); r.IsErr() {
			viol("setup", "FOLLOW no one replied "+r.String())
			return
		}
		fc.Do("SET", "k", "own", "EX", "1", "POINT", "2", "2")
		fc.Do("EXPIRE", "k", "long", "1")
		fc.Do("SETCHAN", "lease", "EX", "1", "NEARBY", "k9", "FENCE", "POINT", "50", "50", "100")
		vsched.Sleep(int64(1700 * stdtime.Millisecond))
		vsched.Quiesce()
		res.Evaluations++
		res.DistinctS("rolechange:promoted")
		for _, id := range []string{"own", "long"} {
			if g := fc.Do("GET", "k", id); !g.Null && !g.IsErr() {
				viol("promoted-replica-does-not-expire", fmt.Sprintf("a replica promoted with FOLLOW no one still serves k/%s 0.7 s after its deadline (TTL %s): %s", id, fc.Do("TTL", "k", id), vclip(g.String(), 80)))
			}
		}
		if ch := fc.Do("CHANS", "lease"); len(ch.A) != 0 {
			viol("promoted-replica-does-not-expire", "a channel created with EX 1 on the promoted replica is still listed 0.7 s after its deadline")
		}
	})
	if x.Err != "" || len(x.Crashes) > 0 {
		viol("hang-or-crash", fmt.Sprint(x.Err, x.Crashes))
	}
}
