//go:build verif

package server

// SCHED explorer: stateless depth-first search over schedules with an iterated
// preemption bound (CHESS).  Every execution runs to completion on the real
// implementation; the prefix of choices is replayed, then choice 0 is taken.

import (
	"fmt"

	"github.com/tidwall/tile38/internal/vshim/vsched"
)

// schedOut is what one execution of a scenario reports back to the explorer.
type schedOut struct {
	Trace    []vsched.ChoicePoint
	Diverged string
	Obs      string // canonical observation of this execution (outcome)
	VSig     string // violation signature ("" = property held)
	VDetail  string
	Err      string // engine-level failure (deadlock in harness, ...)
}

type schedScenario struct {
	Name   string
	Params any
	Run    func(prefix []int) schedOut
	// DevBound: bound ALL deviations from the default schedule (every non-default
	// choice costs 1), not only preemptions.  For scenarios with many independent
	// threads, where free choices at blocking points alone explode.
	DevBound bool
}

type schedStats struct {
	Execs      int
	MaxPoints  int
	ByBound    map[int]int
	Outcomes   map[string]int
	Violations int
}

func choicesOf(tr []vsched.ChoicePoint, n int) []int {
	c := make([]int, n)
	for i := 0; i < n; i++ {
		c[i] = tr[i].Chosen
	}
	return c
}

// exploreSched explores scenario sc with preemption bounds 0..maxBound.
// Sharding: nodes at deviation depth < 1 are executed by every shard, nodes at
// depth 1 are owned round-robin; only the owner descends / counts.
func exploreSched(job *Job, res *Result, sc schedScenario, maxBound int) *schedStats {
	st := &schedStats{ByBound: map[int]int{}, Outcomes: map[string]int{}}
	stop := false
	lastDiverged := ""
	runChecked := func(prefix []int) (schedOut, bool) {
		for try := 0; try < 4; try++ {
			o := sc.Run(prefix)
			if o.Diverged == "" {
				return o, true
			}
			lastDiverged = o.Diverged
			res.Flaky++
		}
		return schedOut{}, false
	}
	for bound := 0; bound <= maxBound && !stop; bound++ {
		ownerCtr := 0
		var rec func(prefix []int, depth int, owned bool)
		rec = func(prefix []int, depth int, owned bool) {
			if stop {
				return
			}
			if res.OverBudget() {
				res.Cap(fmt.Sprintf("time budget hit in scenario %s at preemption bound %d (lower bounds completed)", sc.Name, bound))
				stop = true
				return
			}
			o, ok := runChecked(prefix)
			if !ok {
				res.EngineError = "schedule replay diverged repeatedly (uncontrolled nondeterminism) in " + sc.Name + ": " + lastDiverged
				stop = true
				return
			}
			if o.Err != "" {
				res.EngineError = "scenario " + sc.Name + ": " + o.Err
				stop = true
				return
			}
			np := 0
			for _, p := range o.Trace {
				if (p.CurEnabled || sc.DevBound) && p.Chosen != 0 {
					np++
				}
			}
			// count / check each execution once: at the bound equal to its preemption count
			if owned && (np == bound) {
				st.Execs++
				st.ByBound[bound]++
				res.Evaluations++
				res.Validated++
				res.Transitions += len(o.Trace)
				if len(o.Trace) > st.MaxPoints {
					st.MaxPoints = len(o.Trace)
				}
				st.Outcomes[o.Obs]++
				res.DistinctS(sc.Name + "|" + o.Obs)
				if o.VSig != "" {
					full := choicesOf(o.Trace, len(o.Trace))
					// reproduce twice before believing it
					same := 0
					for k := 0; k < 2; k++ {
						o2 := sc.Run(full)
						if o2.VSig == o.VSig && o2.Obs == o.Obs {
							same++
						}
					}
					if same == 2 {
						st.Violations++
						res.Violate(o.VSig, o.VDetail, map[string]any{"scenario": sc.Name, "params": sc.Params,
							"schedule": full, "preemptions": np})
						stop = true // the first counterexample has the fewest preemptions
						return
					}
					res.Flaky++
				}
			}
			cost := 0
			for i := 0; i < len(o.Trace); i++ {
				p := o.Trace[i]
				if i >= len(prefix) {
					for alt := 1; alt < p.N; alt++ {
						c := cost
						if p.CurEnabled || sc.DevBound {
							c++
						}
						if c > bound {
							continue
						}
						child := append(choicesOf(o.Trace, i), alt)
						childOwned := owned
						if depth == 0 {
							childOwned = ownerCtr%job.NShards == job.Shard
							ownerCtr++
						}
						if childOwned {
							rec(child, depth+1, true)
						}
						if stop {
							return
						}
					}
				}
				if (p.CurEnabled || sc.DevBound) && p.Chosen != 0 {
					cost++
				}
			}
		}
		rec(nil, 0, job.Shard == 0)
		if !stop {
			if sc.DevBound {
				res.Bounds[sc.Name+".deviation_bound_completed"] = bound
			} else {
				res.Bounds[sc.Name+".preemption_bound_completed"] = bound
			}
		}
	}
	res.States += len(st.Outcomes)
	return st
}

// replaySched re-executes one recorded schedule (./check Cxx --replay file).
func replaySched(job *Job, res *Result, run func(params []byte, sched []int) schedOut) {
	var r struct {
		Scenario string          `json:"scenario"`
		Params   jsonRaw         `json:"params"`
		Schedule []int           `json:"schedule"`
	}
	mustJSON(job.Replay, &r)
	o := run(r.Params, r.Schedule)
	res.Evaluations = 1
	res.Extra["replay_observation"] = o.Obs
	res.Extra["replay_diverged"] = o.Diverged
	if o.Err != "" {
		res.EngineError = o.Err
		return
	}
	if o.VSig != "" {
		res.Violate(o.VSig, o.VDetail, r)
	}
}
