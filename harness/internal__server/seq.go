//go:build verif

package server

// SEQ explorer: explicit-state breadth-first search over command sequences.
// A state is the canonical form of the reference model; the frontier stores the
// shortest sequence reaching it.  Every edge (state, symbol) is executed on a
// fresh real server: replay the sequence, apply the symbol, compare.

import (
	"fmt"
	"regexp"
	"strings"
)

var rePtsW = regexp.MustCompile(`pts=\d+,w=\d+,`)

type seqSym struct {
	Name string   `json:"name"`
	Args []string `json:"args"`
	// Model, if set, lists the commands applied to the model instead of Args
	// (scripts: the inner tile38.call commands).
	Model [][]string `json:"model,omitempty"`
}

func (y seqSym) String() string { return strings.Join(y.Args, " ") }

type seqEdge struct {
	Path []int  // symbols leading to the source state
	Sym  int    // symbol applied
	Src  string // canonical source state
	Dst  string // canonical destination state (per model)
	Exp  string // expected reply
}

// seqEnumerate runs the BFS on the model alone and calls visit for every edge
// (deterministic order; identical in every shard).
func seqEnumerate(alpha []seqSym, depth int, visit func(e seqEdge, src, dst *mState)) (nstates int) {
	type node struct {
		st   *mState
		path []int
	}
	return seqEnumerateFrom(newMState(), alpha, depth, visit)
}

func seqEnumerateFrom(init *mState, alpha []seqSym, depth int, visit func(e seqEdge, src, dst *mState)) (nstates int) {
	type node struct {
		st   *mState
		path []int
	}
	canon := func(s *mState) string {
		if s.Timed {
			return s.canonTimed()
		}
		return s.canon()
	}
	seen := map[string]bool{canon(init): true}
	frontier := []node{{init, nil}}
	for d := 0; d < depth; d++ {
		var next []node
		for _, nd := range frontier {
			srcCanon := canon(nd.st)
			for si, sym := range alpha {
				dst := nd.st.clone()
				exp := mApplySym(dst, sym)
				dc := canon(dst)
				visit(seqEdge{Path: nd.path, Sym: si, Src: srcCanon, Dst: dc, Exp: exp}, nd.st, dst)
				if !seen[dc] {
					seen[dc] = true
					np := append(append([]int(nil), nd.path...), si)
					next = append(next, node{dst, np})
				}
			}
		}
		frontier = next
	}
	return len(seen)
}

func symsOf(alpha []seqSym, idx []int) []string {
	out := make([]string, len(idx))
	for i, k := range idx {
		out[i] = alpha[k].String()
	}
	return out
}

// serverCanon reads the visible dataset through the client API and renders it
// in the model's canonical form.
func serverCanon(c *Cli) (string, error) {
	keys := c.Do("KEYS", "*")
	if keys.K != '*' {
		return "", fmt.Errorf("KEYS * -> %s", keys)
	}
	var sb strings.Builder
	for _, k := range keys.A {
		sc := c.Do("SCAN", k.S, "LIMIT", "1000000")
		if sc.K != '*' || len(sc.A) != 2 || sc.A[1].K != '*' {
			return "", fmt.Errorf("SCAN %s -> %s", k.S, sc)
		}
		if sc.A[0].S != "0" {
			return "", fmt.Errorf("SCAN %s LIMIT 1000000 returned cursor %s", k.S, sc.A[0].S)
		}
		sb.WriteString(k.S + "{")
		for _, it := range sc.A[1].A {
			if it.K != '*' || len(it.A) < 2 {
				return "", fmt.Errorf("SCAN item %s", it)
			}
			id, val := it.A[0].S, it.A[1].S
			fm := map[string]string{}
			if len(it.A) > 2 {
				fa := it.A[2].A
				for i := 0; i+1 < len(fa); i += 2 {
					fm[fa[i].S] = fa[i+1].S
				}
			}
			var parts []string
			for _, f := range sortedKeys(fm) {
				parts = append(parts, f+"="+fm[f])
			}
			ttl := c.Do("TTL", k.S, id)
			d := "?"
			if ttl.K == ':' {
				switch {
				case ttl.S == "-1":
					d = "-"
				case !strings.HasPrefix(ttl.S, "-"):
					d = "T"
				default:
					d = "ttl" + ttl.S
				}
			}
			fmt.Fprintf(&sb, "%s=%s|%s|%s;", id, val, strings.Join(parts, ","), d)
		}
		sb.WriteString("}")
	}
	return sb.String(), nil
}

// internalDump renders the server's internal state (all indexes, counters,
// registries) canonically and returns inconsistencies found by the audits.
func internalDump(s *Server) (string, []string) {
	var sb strings.Builder
	var problems []string
	s.cols.Scan(func(key string, col *collectionT) bool {
		d, p := col.VerifAudit()
		// points / weight depend on the in-memory representation of a geometry
		// (a BOUNDS rectangle and the equal 5-point polygon print identically), so
		// they are audited against recomputation but kept out of the differential dump
		d = rePtsW.ReplaceAllString(d, "")
		sb.WriteString(key + "{" + d + "}")
		for _, x := range p {
			problems = append(problems, "collection "+key+": "+x)
		}
		if col.Count() == 0 {
			problems = append(problems, "collection "+key+" exists but is empty")
		}
		return true
	})
	fmt.Fprintf(&sb, "#hooks=%d,out=%d,tree=%d,cross=%d,gh=%d,go=%d,hexp=%d", s.hooks.Len(), s.hooksOut.Len(),
		s.hookTree.Len(), s.hookCross.Len(), s.groupHooks.Len(), s.groupObjects.Len(), s.hookExpires.Len())
	return sb.String(), problems
}

func mApplySym(st *mState, sym seqSym) string {
	if sym.Model == nil {
		return mApply(st, sym.Args)
	}
	for _, c := range sym.Model {
		mApply(st, c)
	}
	return "~any"
}
