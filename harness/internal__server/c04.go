//go:build verif

package server

// C04 - a torn or zero-padded log tail is repaired and loses nothing but the
// torn command.
//
// FAULT enumeration: for each generated log, for every byte offset (small logs:
// all; large logs: all in thorough, boundary neighbourhoods + stride in quick)
// the log is cut there and a real server is started on it.  Injected zero runs
// at every command boundary, alone and combined with a torn tail.
// Oracle (differential): state = state of a server started on the log cut at
// the last complete command boundary; file size after start = that boundary
// (+ the zeros in front of it); after one more acknowledged write and a second
// restart the state contains it and the file parses to prefix + that write.

import (
	"bytes"
	"fmt"
	"os"
	"path/filepath"
	"sort"
	"strings"
)

func init() { checks["c04"] = checkC04 }

type c04Log struct {
	Name  string
	Data  []byte
	Ends  []int // end offset of each complete command (ascending); Ends[0]=0 is implicit
	dumps map[int]string
	// gen: dump of the generating (live) server after each command, by end
	// offset - an oracle that does not go through the loader at all.
	gen map[int]string
}

func c04Commands(kind string) [][]string {
	fence := []string{"NEARBY", "k9", "FENCE", "POINT", "50", "50", "100"}
	switch kind {
	case "kinds":
		var out [][]string
		for _, y := range c03Alphabet("quick") {
			if strings.HasPrefix(y.Args[0], "@") || y.Args[0] == "AOFSHRINK" {
				continue // harness directives; and a rewrite would replace the command kinds by plain SETs
			}
			out = append(out, y.Args)
		}
		out = append(out, []string{"SET", "k1", "a", "POINT", "1", "2"}, []string{"SET", "k2", "z", "EX", "1000", "STRING", "tail"},
			append([]string{"SETCHAN", "chz", "EX", "1000"}, fence...))
		return out
	case "binary":
		return [][]string{
			{"SET", "kb", "crlf", "STRING", "a\r\nb\r\n"},
			{"SET", "kb", "resp", "STRING", "*3\r\n$3\r\nSET\r\n$1\r\nk\r\n"},
			{"SET", "kb", "nul", "STRING", "x\x00\x00y"},
			{"SET", "kb", "ff", "STRING", "\xff\xfe\x00\xff"},
			{"SET", "kb", "i\x00d", "FIELD", "f\xff", "1", "POINT", "1", "2"},
			{"SET", "kb", "star", "STRING", "*"},
			{"SET", "kb", "dollar", "STRING", "$5"},
			{"SET", "kb", "last", "POINT", "3", "4"},
		}
	case "large":
		return [][]string{
			{"SET", "kl", "a", "POINT", "1", "2"},
			{"SET", "kl", "big", "STRING", strings.Repeat("0123456789", 7000)},
			{"SET", "kl", "b", "POINT", "3", "4"},
			{"SET", "kl", "c", "STRING", "after"},
		}
	case "multiple":
		// total length is forced to an exact multiple of 0xFFFF below
		return [][]string{
			{"SET", "km", "a", "POINT", "1", "2"},
			{"SET", "km", "pad", "STRING", "PAD"},
			{"SET", "km", "b", "POINT", "3", "4"},
		}
	case "nulblock":
		// sized below so that the first NUL byte of the binary argument is the
		// first byte of the second 0xFFFF-byte read block
		return [][]string{
			{"SET", "kz", "a", "POINT", "1", "2"},
			{"SET", "kz", "pad", "STRING", "PAD\x00\x00q\x00r"},
			{"SET", "kz", "b", "POINT", "3", "4"},
			{"SET", "kz", "\x00lead", "STRING", "\x00"},
		}
	case "benign":
		// a command that fails harmlessly on replay ("id not found", as a rewrite race
		// leaves behind) is spliced in after the second command by c04BuildLog
		return [][]string{
			{"SET", "kf", "a", "FIELD", "f", "1", "POINT", "1", "2"},
			{"SET", "kf", "b", "POINT", "3", "4"},
			{"SET", "kf", "c", "STRING", "after the failing command"},
			{"FSET", "kf", "a", "f", "2"},
			{"SET", "kf", "d", "POINT", "5", "6"},
		}
	case "many":
		var out [][]string
		for i := 0; i < 2600; i++ {
			out = append(out, []string{"SET", "kn", fmt.Sprintf("id%05d", i), "FIELD", "n", fmt.Sprint(i + 1), "POINT", fmt.Sprint(i % 80), fmt.Sprint(i % 170)})
		}
		return out
	}
	return nil
}

func c04Boundaries(data []byte) []int {
	var ends []int
	off := 0
	for off < len(data) {
		_, rest, ok, err := parseRESP(data[off:])
		if err != nil || !ok {
			break
		}
		off = len(data) - len(rest)
		ends = append(ends, off)
	}
	return ends
}

func c04BuildLog(job *Job, kind string) *c04Log {
	cmds := c04Commands(kind)
	if kind == "multiple" {
		// size the padding so that the file length is k*0xFFFF exactly
		base := 0
		for _, c := range cmds {
			base += len(respCmd(c...))
		}
		target := 0xFFFF * 2
		need := target - (base - 3) // replace "PAD"
		// bulk header length depends on the digits of need: iterate to a fixpoint
		for try := 0; try < 10; try++ {
			cmds[1][4] = strings.Repeat("p", need)
			tot := 0
			for _, c := range cmds {
				tot += len(respCmd(c...))
			}
			if tot == target {
				break
			}
			need -= tot - target
		}
	}
	if kind == "nulblock" {
		need := 0xFFFF - 100
		for try := 0; try < 10; try++ {
			cmds[1][4] = strings.Repeat("p", need) + "\x00\x00q\x00r"
			var all []byte
			for _, c := range cmds {
				all = append(all, respCmd(c...)...)
			}
			at := bytes.IndexByte(all, 0)
			if at == 0xFFFF {
				break
			}
			need += 0xFFFF - at
		}
	}
	var data []byte
	gen := map[int]string{}
	x := runExec(job, freezeAllBut(), func(x *Exec) {
		in := x.Start("G", x.dir+"/G", 9001, nil)
		c := x.Dial(in.Addr)
		f := filepath.Join(in.Dir, "appendonly.aof")
		for _, cmd := range cmds {
			c.Do(cmd...)
			if len(cmds) <= 80 {
				if fi, err := os.Stat(f); err == nil {
					gen[int(fi.Size())] = fullDump(c)
				}
			}
		}
		c.Close()
		in.Stop()
		data, _ = os.ReadFile(filepath.Join(in.Dir, "appendonly.aof"))
	})
	if x.Err != "" || len(data) == 0 {
		panic("c04: cannot generate log " + kind + ": " + x.Err)
	}
	if kind == "benign" {
		ends := c04Boundaries(data)
		at := ends[1]
		data = append(append(append([]byte{}, data[:at]...), respCmd("FSET", "kf", "no-such-id", "f", "9")...), data[at:]...)
		gen = map[int]string{} // sizes have shifted: differential oracles only
	}
	return &c04Log{Name: kind, Data: data, Ends: c04Boundaries(data), dumps: map[int]string{}, gen: gen}
}

// boundaryAt returns the largest command boundary <= off.
func (l *c04Log) boundaryAt(off int) int {
	i := sort.SearchInts(l.Ends, off+1) // first end > off
	if i == 0 {
		return 0
	}
	return l.Ends[i-1]
}

const c04Extra = "zz"

var c04ExtraCmd = []string{"SET", c04Extra, "z", "POINT", "9", "9"}

// c04Case starts a real server on content and applies the oracle.  wantPrefix
// is the expected effective content (complete commands, zeros removed) and
// wantSize the expected file size after the start.
func c04Case(job *Job, res *Result, l *c04Log, label string, content []byte, boundary int, wantSize int, replay map[string]any) {
	viol := func(sig, detail string) {
		res.Violate("C04/"+sig+":"+l.Name, detail+"  ["+label+"]", replay)
	}
	refDump := func(x *Exec) string {
		if d, ok := l.dumps[boundary]; ok {
			return d
		}
		dir := x.dir + "/ref"
		os.MkdirAll(dir, 0700)
		os.WriteFile(filepath.Join(dir, "appendonly.aof"), l.Data[:boundary], 0600)
		in := x.Start("R", dir, 9050, nil)
		c := x.Dial(in.Addr)
		d := fullDump(c)
		c.Close()
		in.Stop()
		l.dumps[boundary] = d
		if g, ok := l.gen[boundary]; ok && g != d {
			viol("reload-differs-from-live", fmt.Sprintf("a server started on the complete commands [0,%d) has %s, the server that wrote them had %s", boundary, vclip(d, 300), vclip(g, 300)))
		}
		return d
	}
	x := runExec(job, freezeAllBut(), func(x *Exec) {
		ref := refDump(x)
		dir := x.dir + "/T"
		os.MkdirAll(dir, 0700)
		f := filepath.Join(dir, "appendonly.aof")
		var startOpt func(o *Options)
		if replay["custom"] == true {
			// the log lives under another name (--appendfilename); a stale file with the default name lies next to it
			f = filepath.Join(dir, "data.log")
			os.WriteFile(filepath.Join(dir, "appendonly.aof"), []byte("stale default-named file\r\n"), 0600)
			startOpt = func(o *Options) { o.AppendFileName = f }
		}
		os.WriteFile(f, content, 0600)
		ro := replay["ro"] == true
		if ro {
			os.WriteFile(filepath.Join(dir, "config"), []byte(`{"read_only":true}`), 0600)
		}
		in, err := x.TryStart("T", dir, 9001, startOpt)
		if err != nil {
			viol("start-fails", fmt.Sprintf("server does not start: %v", err))
			return
		}
		c := x.Dial(in.Addr)
		d := fullDump(c)
		if replay["custom"] == true {
			if b, _ := os.ReadFile(filepath.Join(dir, "appendonly.aof")); string(b) != "stale default-named file\r\n" {
				viol("foreign-file-touched", fmt.Sprintf("the file with the default name, which is not this server's log, was changed to %q", vclip(string(b), 60)))
			}
		}
		if ro {
			if r := c.Do(c04ExtraCmd...); !strings.Contains(r.String(), "read only") {
				viol("read-only-ignored", "a server configured read-only replied "+r.String()+" to a write")
			}
			if r := c.Do("READONLY", "no"); r.String() != "+OK" {
				viol("readonly-no", "READONLY no replied "+r.String())
			}
		}
		if d != ref {
			viol("state", fmt.Sprintf("recovered state differs from the state of the complete commands before the tear: got %s want %s", vclip(d, 400), vclip(ref, 400)))
		}
		if fi, err := os.Stat(f); wantSize >= 0 && (err != nil || int(fi.Size()) != wantSize) {
			sz := -1
			if err == nil {
				sz = int(fi.Size())
			}
			viol("size", fmt.Sprintf("file size after start is %d, want %d (content length %d)", sz, wantSize, len(content)))
		}
		if r := c.Do(c04ExtraCmd...); r.String() != "+OK" {
			viol("append", "write after repair replied "+r.String())
		}
		d1 := fullDump(c)
		c.Close()
		in.Stop()
		in2, err := x.TryStart("T2", dir, 9002, startOpt)
		if err != nil {
			viol("second-start-fails", fmt.Sprintf("server does not start after one more write: %v", err))
			return
		}
		c2 := x.Dial(in2.Addr)
		d2 := fullDump(c2)
		c2.Close()
		in2.Stop()
		if d2 != d1 || !strings.Contains(d2, c04Extra+"{") {
			viol("later-write-lost", fmt.Sprintf("after repair + SET + restart: got %s want %s", vclip(d2, 400), vclip(d1, 400)))
		}
		after, _ := os.ReadFile(f)
		eff := bytes.ReplaceAll(after, []byte{0}, nil)
		wantEff := append(bytes.ReplaceAll(append([]byte(nil), content[:min(len(content), max(wantSize, boundary))]...), []byte{0}, nil), respCmd(c04ExtraCmd...)...)
		// zeros inside arguments are legitimate: compare through the parser instead
		keep := wantSize
		if keep < 0 {
			keep = boundary // the torn bytes and the zeros behind them are what the repair removes
		}
		if !c04SameCommands(after, append(append([]byte(nil), content[:min(len(content), keep)]...), respCmd(c04ExtraCmd...)...)) {
			viol("file", fmt.Sprintf("log after repair + one write does not parse to prefix + that write (len %d, effective %d vs %d)", len(after), len(eff), len(wantEff)))
		}
		res.Distinct(fnv(l.Name + fmt.Sprint(boundary, len(content)-boundary > 0, wantSize-boundary)))
	})
	if x.Err != "" {
		viol("hang", x.Err)
	}
	if len(x.Crashes) > 0 {
		viol("server-crash", x.Crashes[0].Value)
	}
	res.Evaluations++
	res.Transitions++
	res.Validated++
}

// c04SameCommands: both byte strings parse (skipping NULs between commands) to
// the same command list with nothing left over.
func c04SameCommands(a, b []byte) bool {
	pa, oka := c04Parse(a)
	pb, okb := c04Parse(b)
	return oka && okb && pa == pb
}

func c04Parse(b []byte) (string, bool) {
	var sb strings.Builder
	for len(b) > 0 {
		if b[0] == 0 {
			b = b[1:]
			continue
		}
		v, rest, ok, err := parseRESP(b)
		if err != nil || !ok {
			return "", false
		}
		sb.WriteString(v.String())
		b = rest
	}
	return sb.String(), true
}

func checkC04(job *Job, res *Result) {
	res.Rule = "FAULT: every byte offset of each generated log as a tear (large logs: all offsets in thorough; boundary / read-buffer neighbourhoods + stride in quick); zero runs of 1, 2, 4096 bytes at every command boundary, alone and followed by a torn tail; torn commands followed by zero runs of 1, 64, 4096 bytes; each case = real server start + one write + restart; distinct = distinct (log, boundary, torn?, padding) classes"
	res.Assumptions = append(res.Assumptions,
		"a tear is a truncation at a byte offset (a crash during an append); zero padding is a run of NUL bytes at a command boundary",
		"reference state for an offset = state of a real server started on the log cut at the preceding command boundary (differential, no hand-written expectation)")
	kinds := []string{"kinds", "binary", "large", "multiple", "nulblock", "many", "benign"}
	if job.Shard == 0 && job.Replay == nil {
		c04LegacyFile(job, res)
	}
	thorough := job.Tier == "thorough"
	caseNo := 0
	mine := func() bool {
		caseNo++
		return caseNo%job.NShards == job.Shard
	}
	var only map[string]any
	if job.Replay != nil {
		mustJSON(job.Replay, &only)
	}
	for _, kind := range kinds {
		if only != nil && only["log"] != kind {
			continue
		}
		l := c04BuildLog(job, kind)
		res.States += len(l.Ends)
		res.Bounds["log."+kind+".bytes"] = len(l.Data)
		res.Bounds["log."+kind+".commands"] = len(l.Ends)
		small := len(l.Data) < 8000
		// ---- tears
		offs := map[int]bool{}
		if small || (thorough && len(l.Data) < 200000) {
			for o := 0; o <= len(l.Data); o++ {
				offs[o] = true
			}
		} else {
			near := func(c, w int) {
				for o := c - w; o <= c+w; o++ {
					if o >= 0 && o <= len(l.Data) {
						offs[o] = true
					}
				}
			}
			w := 6
			if thorough {
				w = 40
			}
			stride := 4099
			if thorough {
				stride = 251
			}
			ends := l.Ends
			if len(ends) > 40 { // many commands: first, last and those next to read-buffer boundaries
				ends = append(append([]int{}, l.Ends[:3]...), l.Ends[len(l.Ends)-3:]...)
			}
			for _, e := range ends {
				near(e, w)
			}
			for k := 1; k*0xFFFF <= len(l.Data)+0xFFFF; k++ {
				near(k*0xFFFF, w)
				near(l.boundaryAt(k*0xFFFF), 3)
			}
			for o := 0; o <= len(l.Data); o += stride {
				offs[o] = true
			}
			offs[len(l.Data)] = true
			res.Cap("log " + kind + ": tear offsets restricted to command/read-buffer boundary neighbourhoods and a stride (all offsets in the thorough tier for logs < 200 kB)")
			res.Exhaustive = res.Exhaustive && false
		}
		var list []int
		for o := range offs {
			list = append(list, o)
		}
		sort.Ints(list)
		for _, o := range list {
			if res.OverBudget() {
				res.Cap("time budget hit in log " + kind)
				break
			}
			if only != nil {
				if only["kind"] != "tear" || int(only["offset"].(float64)) != o {
					continue
				}
			} else if !mine() {
				continue
			}
			b := l.boundaryAt(o)
			if only == nil || (only["ro"] != true && only["custom"] != true) {
				c04Case(job, res, l, fmt.Sprintf("log %s (%d bytes) torn at offset %d, last complete command ends at %d", kind, len(l.Data), o, b),
					l.Data[:o], b, b, map[string]any{"log": kind, "kind": "tear", "offset": o})
			}
			if only != nil && only["custom"] == true || only == nil && small && o%11 == 3 {
				c04Case(job, res, l, fmt.Sprintf("log %s (%d bytes) torn at offset %d, log file named data.log (AppendFileName)", kind, len(l.Data), o),
					l.Data[:o], b, b, map[string]any{"log": kind, "kind": "tear", "offset": o, "custom": true})
			}
			if only != nil && only["ro"] == true || only == nil && (small && (kind == "binary" || o%7 == 0) || !small && o%0xFFFF < 2) {
				// the same tear met by a server configured read-only, made writable afterwards
				c04Case(job, res, l, fmt.Sprintf("log %s (%d bytes) torn at offset %d, server configured read_only then READONLY no", kind, len(l.Data), o),
					l.Data[:o], b, b, map[string]any{"log": kind, "kind": "tear", "offset": o, "ro": true})
			}
		}
		// ---- a torn command FOLLOWED by a zero run (a partial append whose block was
		// allocated but not completely written): still a torn tail
		for _, o := range list {
			b := l.boundaryAt(o)
			if o == b || o >= len(l.Data) {
				continue
			}
			if !(small && (kind == "binary" || o%5 == 0) || !small && (o%0xFFFF < 3 || o-b < 3)) {
				continue
			}
			for _, run := range []int{1, 64, 4096} {
				if res.OverBudget() {
					break
				}
				if only != nil {
					if only["kind"] != "tear-then-zeros" || int(only["offset"].(float64)) != o || int(only["run"].(float64)) != run {
						continue
					}
				} else if !mine() {
					continue
				}
				content := append(append([]byte(nil), l.Data[:o]...), make([]byte, run)...)
				c04Case(job, res, l, fmt.Sprintf("log %s (%d bytes) torn at offset %d (last complete command ends at %d) and followed by %d NUL bytes", kind, len(l.Data), o, b, run),
					content, b, -1, map[string]any{"log": kind, "kind": "tear-then-zeros", "offset": o, "run": run})
			}
		}
		// ---- zero padding at every command boundary (+ optional torn tail)
		ends := append([]int{0}, l.Ends...)
		if len(ends) > 60 {
			ends = append(append([]int{}, ends[:4]...), ends[len(ends)-4:]...)
		}
		for _, e := range ends {
			for _, run := range []int{1, 2, 4096} {
				for _, tornExtra := range []int{0, 1, 7} {
					// content = cmds[:e] + zeros + (rest, possibly torn inside the LAST command)
					tail := l.Data[e:]
					tb := len(tail) // bytes of tail that form complete commands
					if tornExtra > 0 {
						if len(l.Ends) < 2 || e == len(l.Data) {
							continue
						}
						lastStart := l.Ends[len(l.Ends)-2]
						if lastStart < e {
							continue
						}
						cut := lastStart + tornExtra
						if cut >= len(l.Data) {
							continue
						}
						tail = l.Data[e:cut]
						tb = lastStart - e
					}
					if res.OverBudget() {
						res.Cap("time budget hit in padding cases of log " + kind)
						break
					}
					if only != nil {
						if only["kind"] != "pad" || int(only["boundary"].(float64)) != e || int(only["run"].(float64)) != run || int(only["torn"].(float64)) != tornExtra {
							continue
						}
					} else if !mine() {
						continue
					}
					content := append(append(append([]byte(nil), l.Data[:e]...), make([]byte, run)...), tail...)
					boundary := e + tb // in original coordinates
					c04Case(job, res, l, fmt.Sprintf("log %s: %d NUL bytes inserted at command boundary %d, tail torn %d bytes into the last command", kind, run, e, tornExtra),
						content, boundary, boundary+run, map[string]any{"log": kind, "kind": "pad", "boundary": e, "run": run, "torn": tornExtra})
				}
			}
		}
	}
}

// c04LegacyFile: a data directory that holds a log in the pre-1.0 format (file
// "aof") is migrated at start-up; the migrated log must be the one the server
// then loads and appends to, whatever the log file is called.
func c04LegacyFile(job *Job, res *Result) {
	recs := []string{"set fleet t1 point 33 -115", "set fleet t2 point 34 -116", "set fleet t3 string hello"}
	full := legacyAOF(recs...)
	for _, name := range []string{"", "data.log"} {
		for _, cut := range []int{len(full)} { // (a torn legacy file makes the migration refuse to start: fail-safe, not asserted)
			name, cut := name, cut
			viol := func(sig, detail string) {
				res.Violate("C04/legacy-file:"+sig, fmt.Sprintf("%s  [log file name %q, legacy file of %d of %d bytes]", detail, name, cut, len(full)), map[string]any{"legacy": name, "cut": cut})
			}
			x := runExec(job, freezeAllBut(), func(x *Exec) {
				dir := x.dir + "/L"
				os.MkdirAll(dir, 0700)
				os.WriteFile(filepath.Join(dir, "aof"), full[:cut], 0600)
				opt := func(o *Options) {
					if name != "" {
						o.AppendFileName = filepath.Join(dir, name)
					}
				}
				want := "t1 t2 t3"
				if cut < len(full) {
					want = "t1 t2"
				}
				for life := 1; life <= 2; life++ {
					in, err := x.TryStart(fmt.Sprintf("L%d", life), dir, 9000+life, opt)
					if err != nil {
						viol("start-fails", fmt.Sprintf("start %d: %v", life, err))
						return
					}
					c := x.Dial(in.Addr)
					ids, _ := idsOf(c.Do("SCAN", "fleet", "IDS"))
					if got := strings.Join(ids, " "); got != want {
						viol("data-lost", fmt.Sprintf("start %d serves fleet = [%s], the legacy file holds [%s]", life, got, want))
					}
					if life == 1 {
						c.Do("SET", "fleet", "t9", "POINT", "1", "1")
						want += " t9"
					}
					c.Close()
					in.Stop()
					res.Evaluations++
					res.DistinctS(fmt.Sprint("legacy", name, cut, life))
				}
			})
			if x.Err != "" || len(x.Crashes) > 0 {
				viol("hang-or-crash", fmt.Sprint(x.Err, x.Crashes))
			}
		}
	}
}
