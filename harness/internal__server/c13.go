//go:build verif

package server

// C13 - NEARBY returns nearest neighbours in distance order.
//
// SEQ over histories x inputs on the real server: objects from a catalogue on a
// 7x7 lattice (poles, antimeridian neighbourhoods, duplicates, bounding
// rectangles incl. one touching lon 180), datasets of <= 3 objects each built
// through three different histories (direct inserts; insert elsewhere then
// move; insert extra then delete), plus two structure-scope datasets of 130
// objects (R-tree inner nodes) across the antimeridian and near a pole; query
// points on the lattice; LIMIT k for every k; radii incl. each object's own
// reported distance.  Oracle: independent haversine / point-to-rectangle
// distance.

import (
	"encoding/json"
	"fmt"
	"math"
	"sort"
	"strconv"
	"strings"

	"github.com/tidwall/tile38/internal/vshim/vsched"
)

func init() { checks["c13"] = checkC13 }

type c13Obj struct {
	ID                         string
	Rect                       bool
	Lat, Lon, Lat2, Lon2       float64
	F                          int // field f (0 = none): for filtered nearest-neighbour queries
}

func (o c13Obj) setArgs(key string) []string {
	if o.F > 0 && !o.Rect {
		return []string{"SET", key, o.ID, "FIELD", "f", strconv.Itoa(o.F), "POINT", fnum(o.Lat), fnum(o.Lon)}
	}
	if o.Rect {
		return []string{"SET", key, o.ID, "BOUNDS", fnum(o.Lat), fnum(o.Lon), fnum(o.Lat2), fnum(o.Lon2)}
	}
	return []string{"SET", key, o.ID, "POINT", fnum(o.Lat), fnum(o.Lon)}
}

// dist: true distance in metres from (lat,lon) to the object.
func (o c13Obj) dist(lat, lon float64) float64 {
	if !o.Rect {
		return hav(lat, lon, o.Lat, o.Lon)
	}
	if lat >= o.Lat && lat <= o.Lat2 && lon >= o.Lon && lon <= o.Lon2 {
		return 0
	}
	best := math.Inf(1)
	edge := func(f func(t float64) (float64, float64)) {
		const n = 400
		bi, bd := 0, math.Inf(1)
		for i := 0; i <= n; i++ {
			a, b := f(float64(i) / n)
			if d := hav(lat, lon, a, b); d < bd {
				bd, bi = d, i
			}
		}
		lo, hi := math.Max(0, float64(bi-1)/n), math.Min(1, float64(bi+1)/n)
		for k := 0; k < 60; k++ {
			m1, m2 := lo+(hi-lo)/3, hi-(hi-lo)/3
			a1, b1 := f(m1)
			a2, b2 := f(m2)
			if hav(lat, lon, a1, b1) < hav(lat, lon, a2, b2) {
				hi = m2
			} else {
				lo = m1
			}
		}
		a, b := f((lo + hi) / 2)
		bd = math.Min(bd, hav(lat, lon, a, b))
		best = math.Min(best, bd)
	}
	edge(func(t float64) (float64, float64) { return o.Lat, o.Lon + t*(o.Lon2-o.Lon) })
	edge(func(t float64) (float64, float64) { return o.Lat2, o.Lon + t*(o.Lon2-o.Lon) })
	edge(func(t float64) (float64, float64) { return o.Lat + t*(o.Lat2-o.Lat), o.Lon })
	edge(func(t float64) (float64, float64) { return o.Lat + t*(o.Lat2-o.Lat), o.Lon2 })
	return best
}

func c13Catalogue() []c13Obj {
	return []c13Obj{
		{ID: "p00", Lat: 0, Lon: 0}, {ID: "p00b", Lat: 0, Lon: 0}, {ID: "p45", Lat: 45, Lon: 90}, {ID: "pn", Lat: 90, Lon: 0}, {ID: "pn2", Lat: 89.9, Lon: 179.9},
		{ID: "ps", Lat: -90, Lon: -180}, {ID: "pe", Lat: 0, Lon: 179.9}, {ID: "pe2", Lat: 0, Lon: 180}, {ID: "pw", Lat: 0, Lon: -179.9}, {ID: "pw2", Lat: 0, Lon: -180},
		{ID: "pm", Lat: -45, Lon: -90}, {ID: "pq", Lat: 45, Lon: -179.9},
		{ID: "r1", Rect: true, Lat: -1, Lon: -1, Lat2: 1, Lon2: 1}, {ID: "r2", Rect: true, Lat: 10, Lon: 170, Lat2: 20, Lon2: 180},
		{ID: "r3", Rect: true, Lat: -5, Lon: -179.9, Lat2: 5, Lon2: -178}, {ID: "r4", Rect: true, Lat: 80, Lon: -10, Lat2: 89.9, Lon2: 10},
		// rectangles that are degenerate on one axis (a meridian segment, a segment of a parallel)
		{ID: "rv", Rect: true, Lat: -3, Lon: 20, Lat2: 3, Lon2: 20}, {ID: "rh", Rect: true, Lat: 30, Lon: -20, Lat2: 30, Lon2: 20},
	}
}

type c13Hit struct {
	ID   string
	Dist float64
}

func c13Parse(v rv) ([]c13Hit, bool) {
	if v.K != '*' || len(v.A) != 2 {
		return nil, false
	}
	var out []c13Hit
	for _, e := range v.A[1].A {
		if e.K != '*' || len(e.A) < 2 {
			return nil, false
		}
		d, err := strconv.ParseFloat(e.A[len(e.A)-1].S, 64)
		if err != nil {
			return nil, false
		}
		out = append(out, c13Hit{e.A[0].S, d})
	}
	return out, true
}

func c13Tol(d float64) float64 { return d*1e-6 + 1 }

// c13Query checks one NEARBY query against the oracle.
// c13JSON: a connection in JSON output mode (set by checkC13)
var c13JSON *Cli

func c13Query(res *Result, c *Cli, key string, objs []c13Obj, qlat, qlon float64, tag string, viol func(sig, detail string)) {
	truth := map[string]float64{}
	var sorted []c13Hit
	for _, o := range objs {
		d := o.dist(qlat, qlon)
		truth[o.ID] = d
		sorted = append(sorted, c13Hit{o.ID, d})
	}
	sort.Slice(sorted, func(i, j int) bool { return sorted[i].Dist < sorted[j].Dist })
	q := func(extra ...string) ([]c13Hit, string) {
		args := append([]string{"NEARBY", key, "LIMIT", "100000", "DISTANCE", "IDS", "POINT", fnum(qlat), fnum(qlon)}, extra...)
		h, ok := c13Parse(c.Do(args...))
		if !ok {
			return nil, strings.Join(args, " ")
		}
		return h, strings.Join(args, " ")
	}
	hits, qs := q()
	res.Evaluations++
	if len(hits) != len(objs) {
		viol("nearby-incomplete:"+tag, fmt.Sprintf("%s returned %d of %d objects: %v", qs, len(hits), len(objs), hits))
		return
	}
	for i, h := range hits {
		if math.Abs(h.Dist-truth[h.ID]) > c13Tol(truth[h.ID]) {
			kind := "point"
			for _, o := range objs {
				if o.ID == h.ID && o.Rect {
					kind = "rect"
				}
			}
			viol("distance-wrong:"+kind+":"+tag, fmt.Sprintf("%s reports %s at %.3f m, true distance %.3f m", qs, h.ID, h.Dist, truth[h.ID]))
		}
		if i > 0 && truth[hits[i-1].ID] > truth[h.ID]+c13Tol(truth[h.ID])+c13Tol(truth[hits[i-1].ID]) {
			viol("order:"+tag, fmt.Sprintf("%s returns %s (%.3f m) before %s (%.3f m)", qs, hits[i-1].ID, truth[hits[i-1].ID], h.ID, truth[h.ID]))
		}
	}
	// the same reply as a JSON document: every entry carries its id and its distance,
	// also when the distance is 0
	if c13JSON != nil && tag == "small" {
		j := c13JSON.Do("NEARBY", key, "LIMIT", "100000", "DISTANCE", "IDS", "POINT", fnum(qlat), fnum(qlon))
		var doc struct {
			OK  bool              `json:"ok"`
			IDs []json.RawMessage `json:"ids"`
		}
		if j.K != '$' || json.Unmarshal([]byte(j.S), &doc) != nil || !doc.OK {
			viol("distance-json:"+tag, fmt.Sprintf("%s in JSON mode replied %s", qs, vclip(j.String(), 160)))
		} else {
			for i, raw := range doc.IDs {
				var e struct {
					ID       string   `json:"id"`
					Distance *float64 `json:"distance"`
				}
				if json.Unmarshal(raw, &e) != nil || e.Distance == nil {
					viol("distance-json:"+tag, fmt.Sprintf("%s in JSON mode: entry %d is %s, not an object with id and distance (true distance %.3f m)", qs, i, vclip(string(raw), 80), truth[hits[min(i, len(hits)-1)].ID]))
				} else if i < len(hits) && (e.ID != hits[i].ID || math.Abs(*e.Distance-hits[i].Dist) > 0.001) {
					viol("distance-json:"+tag, fmt.Sprintf("%s: entry %d is %s/%.3f in JSON mode, %s/%.3f in RESP mode", qs, i, e.ID, *e.Distance, hits[i].ID, hits[i].Dist))
				}
			}
		}
	}
	// LIMIT k: the k closest (ties as a set)
	for k := 1; k <= len(objs) && k <= 4; k++ {
		args := []string{"NEARBY", key, "LIMIT", strconv.Itoa(k), "DISTANCE", "IDS", "POINT", fnum(qlat), fnum(qlon)}
		h, ok := c13Parse(c.Do(args...))
		res.Evaluations++
		if !ok || len(h) != k {
			viol("limit-k-size:"+tag, fmt.Sprintf("%v returned %d items", args, len(h)))
			continue
		}
		kth := sorted[k-1].Dist
		for _, e := range h {
			if truth[e.ID] > kth+c13Tol(kth) {
				viol("limit-k-not-closest:"+tag, fmt.Sprintf("%v returned %s at %.3f m although the %d closest are within %.3f m", args, e.ID, truth[e.ID], k, kth))
			}
		}
	}
	// radius = each object's own reported distance: it and everything closer must be returned
	for _, h := range hits {
		if h.Dist <= 0 {
			continue
		}
		got, qs := q(fnum(h.Dist))
		res.Evaluations++
		found := map[string]bool{}
		for _, g := range got {
			found[g.ID] = true
			if truth[g.ID] > h.Dist+c13Tol(h.Dist) {
				viol("radius-includes-farther:"+tag, fmt.Sprintf("%s returned %s at %.3f m", qs, g.ID, truth[g.ID]))
			}
		}
		if !found[h.ID] {
			viol("radius-excludes-object-at-that-distance:"+tag, fmt.Sprintf("%s does not return %s, whose distance the server itself reported as %v", qs, h.ID, h.Dist))
		}
		for _, o := range objs {
			if truth[o.ID] < h.Dist-c13Tol(h.Dist) && !found[o.ID] {
				viol("radius-excludes-closer:"+tag, fmt.Sprintf("%s does not return %s at %.3f m", qs, o.ID, truth[o.ID]))
			}
		}
	}
	// a small and a large fixed radius
	for _, r := range []float64{1, 10000, 1000000, 20000000} {
		got, qs := q(fnum(r))
		res.Evaluations++
		found := map[string]bool{}
		for _, g := range got {
			found[g.ID] = true
		}
		for _, o := range objs {
			d := truth[o.ID]
			if d < r-c13Tol(r) && !found[o.ID] {
				viol("radius-excludes-closer:"+tag, fmt.Sprintf("%s does not return %s at %.3f m", qs, o.ID, d))
			}
			if d > r+c13Tol(r) && found[o.ID] {
				viol("radius-includes-farther:"+tag, fmt.Sprintf("%s returned %s at %.3f m", qs, o.ID, d))
			}
		}
	}
}

func checkC13(job *Job, res *Result) {
	res.Rule = "SEQ: all datasets of <= 2 (thorough 3) objects from a 18-object catalogue (lattice points at poles / antimeridian, duplicates, 4 rectangles, 2 rectangles degenerate on one axis) each built by 6 histories (direct; moved into place; extras inserted and deleted; ids that first held an empty geometry; ids that first held a string / re-created; other ids that held geometries overwritten by strings), plus 5 antipodal pairs, plus 4 datasets of 130 objects (antimeridian, pole, one shared latitude, one shared longitude); x 49 lattice query points (+ 6 off-lattice near the antimeridian); per query: full order, DISTANCE values, LIMIT k for every k <= 4 (structure datasets: also k nearest among the objects passing a WHERE / MATCH / WHEREIN filter), radius = each reported distance, 4 fixed radii; distinct = distinct (dataset, query point)"
	res.Assumptions = append(res.Assumptions, "distances on a sphere of radius 6371 km; tolerance 1e-6 relative + 1 m; order inversions count only beyond the tolerance; the distance of an extended object is the distance to its bounding rectangle")
	cat := c13Catalogue()
	maxN := 2
	if job.Tier == "thorough" {
		maxN = 3
	}
	var subsets [][]int
	var rec func(start int, cur []int)
	rec = func(start int, cur []int) {
		if len(cur) > 0 {
			subsets = append(subsets, append([]int(nil), cur...))
		}
		if len(cur) == maxN {
			return
		}
		for i := start; i < len(cat); i++ {
			rec(i+1, append(cur, i))
		}
	}
	rec(0, nil)
	lats := []float64{-90, -89.9, -45, 0, 45, 89.9, 90}
	lons := []float64{-180, -179.9, -90, 0, 90, 179.9, 180}
	type qp struct{ lat, lon float64 }
	var qps []qp
	for _, a := range lats {
		for _, b := range lons {
			qps = append(qps, qp{a, b})
		}
	}
	qps = append(qps, qp{0, 179.95}, qp{0, -179.95}, qp{15, 179.99}, qp{3, 179.5}, qp{85, 0}, qp{-3, -177})
	x := runExec(job, freezeAllBut(), func(x *Exec) {
		in := x.Start("L", x.dir+"/L", 9001, nil)
		c := x.Dial(in.Addr)
		c13JSON = x.Dial(in.Addr)
		c13JSON.Do("OUTPUT", "json")
		defer func() { c13JSON = nil }()
		caseNo := 0
		for si, sub := range subsets {
			if si%job.NShards != job.Shard {
				continue
			}
			if res.OverBudget() {
				res.Cap("time budget hit")
				break
			}
			var objs []c13Obj
			for _, i := range sub {
				objs = append(objs, cat[i])
			}
			for hist := 0; hist < 6; hist++ {
				c.Do("DROP", "nk")
				switch hist {
				case 0:
					for _, o := range objs {
						c.Do(o.setArgs("nk")...)
					}
				case 1: // insert elsewhere, then move into place (reverse order)
					for i := len(objs) - 1; i >= 0; i-- {
						c.Do("SET", "nk", objs[i].ID, "POINT", "33", "-115")
					}
					for _, o := range objs {
						c.Do(o.setArgs("nk")...)
					}
				case 2: // extra objects inserted and deleted again
					c.Do("SET", "nk", "extra1", "POINT", "0", "179.99")
					for _, o := range objs {
						c.Do(o.setArgs("nk")...)
					}
					c.Do("SET", "nk", "extra2", "BOUNDS", "-10", "-180", "10", "-170")
					c.Do("DEL", "nk", "extra1")
					c.Do("DEL", "nk", "extra2")
				case 3: // each id first holds an empty geometry (never in the spatial index)
					for _, o := range objs {
						c.Do("SET", "nk", o.ID, "OBJECT", `{"type":"GeometryCollection","geometries":[]}`)
					}
					for _, o := range objs {
						c.Do(o.setArgs("nk")...)
					}
				case 4: // each id first holds a string, the last one is re-created after a delete
					for _, o := range objs {
						c.Do("SET", "nk", o.ID, "STRING", "s")
					}
					for _, o := range objs {
						c.Do(o.setArgs("nk")...)
					}
					c.Do("DEL", "nk", objs[len(objs)-1].ID)
					c.Do("SET", "nk", objs[len(objs)-1].ID, "OBJECT", `{"type":"FeatureCollection","features":[]}`)
					c.Do(objs[len(objs)-1].setArgs("nk")...)
				case 5: // other ids held geometries and now hold strings (one deleted afterwards): not spatial any more
					c.Do("SET", "nk", "was1", "POINT", "0", "0")
					c.Do("SET", "nk", "was2", "POINT", "89.9", "179.9")
					c.Do("SET", "nk", "was3", "BOUNDS", "-90", "-180", "-80", "180")
					for _, o := range objs {
						c.Do(o.setArgs("nk")...)
					}
					c.Do("SET", "nk", "was1", "STRING", "now a string")
					c.Do("SET", "nk", "was2", "STRING", "now a string")
					c.Do("SET", "nk", "was3", "STRING", "now a string")
					c.Do("DEL", "nk", "was2")
				}
				for qi, p := range qps {
					if hist > 0 && qi%5 != 0 {
						continue // the histories must agree; a fifth of the query points re-checked
					}
					caseNo++
					viol := func(sig, detail string) {
						var ids []string
						for _, o := range objs {
							ids = append(ids, o.ID)
						}
						res.Violate("C13/"+sig, fmt.Sprintf("%s  [dataset %v built by history %d]", detail, ids, hist), map[string]any{"objects": ids, "history": hist, "lat": p.lat, "lon": p.lon})
					}
					tag := "small"
					c13Query(res, c, "nk", objs, p.lat, p.lon, tag, viol)
					res.DistinctS(fmt.Sprint(sub, qi))
				}
			}
			res.States++
		}
		// ---- antipodes: the farthest possible object has a distance too (half the circumference)
		if job.Shard == 0 {
			for ai, a := range [][4]float64{{41.92029254063311, 5.683331059765379, -41.92029254063311, -174.31666894023462}, {0, 0, 0, 180}, {45, 10, -45, -170}, {90, 0, -90, 0}, {12.5, -77.25, -12.5, 102.75}} {
				c.Do("DROP", "ak")
				c.Do("SET", "ak", "anti", "POINT", fnum(a[2]), fnum(a[3]))
				c.Do("SET", "ak", "near", "POINT", fnum(a[0]*0.98), fnum(a[1]))
				c.Do("SET", "ak", "mid", "POINT", "0", fnum(a[1]+90))
				hits, ok := c13Parse(c.Do("NEARBY", "ak", "DISTANCE", "IDS", "POINT", fnum(a[0]), fnum(a[1])))
				res.Evaluations++
				res.DistinctS(fmt.Sprint("antipode", ai))
				half := math.Pi * 6371e3
				if !ok || len(hits) != 3 || hits[2].ID != "anti" || math.IsNaN(hits[2].Dist) || math.Abs(hits[2].Dist-half) > half*1e-6+1 {
					res.Violate("C13/antipode", fmt.Sprintf("NEARBY ak DISTANCE IDS POINT %v %v with an object at the antipode (%v %v): %v (expected it last, at %.0f m)", a[0], a[1], a[2], a[3], hits, half), map[string]any{"antipode": a})
				}
				if in, ok := c13Parse(c.Do("NEARBY", "ak", "DISTANCE", "IDS", "POINT", fnum(a[0]), fnum(a[1]), "1000000")); ok {
					for _, h := range in {
						if h.ID == "anti" {
							res.Violate("C13/antipode", fmt.Sprintf("the object at the antipode is returned within a radius of 1000 km of POINT %v %v", a[0], a[1]), map[string]any{"antipode": a})
						}
					}
				}
			}
		}
		// ---- structure scope: 130 objects (inner R-tree nodes), two regions
		if job.Shard < 4 {
			var objs []c13Obj
			region := []string{"antimeridian", "pole", "equator", "meridian"}[job.Shard%4]
			for i := 0; i < 130; i++ {
				var o c13Obj
				if region == "antimeridian" {
					lon := 177 + float64(i%26)*0.25 // 177 .. 183.25 -> wraps
					if lon > 180 {
						lon -= 360
					}
					o = c13Obj{ID: fmt.Sprintf("s%03d", i), Lat: -2 + float64(i/26), Lon: lon}
				} else if region == "equator" { // one shared latitude: every inner node is degenerate
					o = c13Obj{ID: fmt.Sprintf("s%03d", i), Lat: 0, Lon: -65 + float64(i)}
				} else if region == "meridian" { // one shared longitude
					o = c13Obj{ID: fmt.Sprintf("s%03d", i), Lat: -65 + float64(i), Lon: 179}
				} else {
					o = c13Obj{ID: fmt.Sprintf("s%03d", i), Lat: 84 + float64(i%13)*0.5, Lon: -180 + float64(i/13)*36}
				}
				o.F = 1 + i%3
				objs = append(objs, o)
			}
			objs = append(objs, c13Obj{ID: "rect", Rect: true, Lat: -1, Lon: -179.9, Lat2: 1, Lon2: -178})
			c.Do("DROP", "sk")
			for _, o := range objs {
				c.Do(o.setArgs("sk")...)
			}
			// delete and re-insert a third of them (restructuring)
			for i := 0; i < 130; i += 3 {
				c.Do("DEL", "sk", objs[i].ID)
			}
			for i := 0; i < 130; i += 3 {
				c.Do(objs[i].setArgs("sk")...)
			}
			for _, p := range []qp{{0, 179.95}, {0, -179.95}, {1, 180}, {-1, 178}, {89, 10}, {85, -170}, {90, 0}, {0, 0}, {86, 179.9}, {40, 3}, {-30, 50}, {10, -179}} {
				viol := func(sig, detail string) {
					res.Violate("C13/"+sig, detail+"  [130-object dataset around the "+region+"]", map[string]any{"region": region, "lat": p.lat, "lon": p.lon})
				}
				c13Query(res, c, "sk", objs, p.lat, p.lon, "structure", viol)
				res.DistinctS(fmt.Sprint(region, p))
				// nearest neighbours among the objects that pass a filter: the k closest MATCHING ones
				for _, flt := range []struct {
					args []string
					keep func(o c13Obj) bool
				}{
					{[]string{"WHERE", "f", "2", "2"}, func(o c13Obj) bool { return o.F == 2 }},
					{[]string{"MATCH", "s0[0-4]*"}, func(o c13Obj) bool { return len(o.ID) == 4 && o.ID[1] == '0' && o.ID[2] <= '4' }},
					{[]string{"WHEREIN", "f", "2", "1", "3", "MATCH", "s*"}, func(o c13Obj) bool { return o.F == 1 || o.F == 3 }},
				} {
					var sub []c13Obj
					for _, o := range objs {
						if flt.keep(o) {
							sub = append(sub, o)
						}
					}
					sort.Slice(sub, func(i, j int) bool { return sub[i].dist(p.lat, p.lon) < sub[j].dist(p.lat, p.lon) })
					in := map[string]bool{}
					for _, o := range sub {
						in[o.ID] = true
					}
					for _, k := range []int{1, 3, 10, len(sub), len(sub) + 5} {
						args := append(append([]string{"NEARBY", "sk"}, flt.args...), "LIMIT", strconv.Itoa(k), "DISTANCE", "IDS", "POINT", fnum(p.lat), fnum(p.lon))
						h, ok := c13Parse(c.Do(args...))
						res.Evaluations++
						wantN := k
						if wantN > len(sub) {
							wantN = len(sub)
						}
						if !ok || len(h) != wantN {
							viol("filtered-limit-k-size:structure", fmt.Sprintf("%v returned %d items, %d objects pass the filter", args, len(h), len(sub)))
							continue
						}
						kth := sub[wantN-1].dist(p.lat, p.lon)
						for i, e := range h {
							if !in[e.ID] {
								viol("filtered-returns-non-matching:structure", fmt.Sprintf("%v returned %s which does not pass the filter", args, e.ID))
							} else if e.Dist > kth+c13Tol(kth) {
								viol("filtered-limit-k-not-closest:structure", fmt.Sprintf("%v returned %s at %.3f m although the %d closest matching objects are within %.3f m", args, e.ID, e.Dist, wantN, kth))
							}
							if i > 0 && h[i-1].Dist > e.Dist+c13Tol(e.Dist) {
								viol("filtered-order:structure", fmt.Sprintf("%v returns %s (%.3f m) before %s (%.3f m)", args, h[i-1].ID, h[i-1].Dist, e.ID, e.Dist))
							}
						}
					}
				}
			}
			res.States++
		}
		if len(vsched.Crashes) > 0 {
			res.Violate("C13/server-crash", vsched.Crashes[0].Value, nil)
		}
	})
	if x.Err != "" {
		res.Violate("C13/hang", x.Err, nil)
	}
	res.Transitions = res.Evaluations
	res.Validated = res.Evaluations
	res.Bounds["datasets"] = len(subsets)
	res.Bounds["query_points"] = len(qps)
	res.Sample(map[string]any{"dataset": []string{cat[0].ID, cat[13].ID}, "query": []float64{0, 179.95}})
}
