//go:build verif

package server

// C17 - every reply is well-formed, and RESP and JSON outputs agree.
//
// SEQ over the command table: every catalogue command x argument shape x three
// states (empty, populated, names/values needing escaping) on two identical
// servers in lockstep, one connection in RESP and one in JSON output mode, plus
// telnet, native and HTTP transports for shapes that can be written in them.
// Oracle: JSON replies parse with encoding/json as ONE object with boolean "ok"
// (and string "err" when false); RESP replies parse with the harness's own
// RESP parser with nothing left over; both modes convey the same ids, objects,
// counts, cursors, values and error / success class.

import (
	"encoding/binary"
	"encoding/base64"
	"crypto/sha1"
	"bytes"
	"encoding/json"
	"fmt"
	"math"
	"net/url"
	"sort"
	"strconv"
	"strings"
	stdtime "time"

	"github.com/tidwall/tile38/internal/vshim/vsched"
)

func init() { checks["c17"] = checkC17 }

// jsonDoc validates a JSON-mode reply body.
func jsonDoc(body string) (doc map[string]any, problem string) {
	dec := json.NewDecoder(strings.NewReader(body))
	var v any
	if err := dec.Decode(&v); err != nil {
		return nil, "not valid JSON: " + err.Error()
	}
	if dec.More() {
		return nil, "more than one JSON document"
	}
	m, ok := v.(map[string]any)
	if !ok {
		return nil, "not a JSON object"
	}
	okv, has := m["ok"]
	b, isBool := okv.(bool)
	if !has || !isBool {
		return nil, `no boolean "ok" member`
	}
	if !b {
		if _, isStr := m["err"].(string); !isStr {
			return nil, `"ok":false without a string "err"`
		}
	}
	return m, ""
}

// idsOfJSON extracts the id sequence of a search-type JSON reply.
func idsOfJSON(m map[string]any) ([]string, bool) {
	for _, k := range []string{"ids", "objects", "points", "bounds", "hashes"} {
		arr, ok := m[k].([]any)
		if !ok {
			continue
		}
		var out []string
		for _, e := range arr {
			switch t := e.(type) {
			case string:
				out = append(out, t)
			case map[string]any:
				if id, ok := t["id"].(string); ok {
					out = append(out, id)
				}
			}
		}
		return out, true
	}
	return nil, false
}

func idsOfRESP(v rv) ([]string, bool) {
	if v.K != '*' || len(v.A) != 2 || v.A[1].K != '*' {
		return nil, false
	}
	var out []string
	for _, e := range v.A[1].A {
		if e.K == '*' && len(e.A) > 0 {
			out = append(out, e.A[0].S)
		} else {
			out = append(out, e.S)
		}
	}
	return out, true
}

func compactJSON(s string) string {
	var v any
	if json.Unmarshal([]byte(s), &v) != nil {
		return s
	}
	b, _ := json.Marshal(v)
	return string(b)
}

// c17Agree compares a RESP reply and a JSON document for the same command.
func c17Agree(name string, args []string, r rv, j map[string]any) string {
	jok, _ := j["ok"].(bool)
	rerr := r.K == '-'
	// RESP answers "not found" with nil / 0 / -2 / none where JSON answers with an error: allowed convention
	notFound := !jok && (strings.Contains(fmt.Sprint(j["err"]), "not found") || strings.Contains(fmt.Sprint(j["err"]), "already exists"))
	if rerr && jok {
		return fmt.Sprintf("RESP is an error (%s) but JSON says ok", r.S)
	}
	if !rerr && !jok && !notFound {
		return fmt.Sprintf("JSON is an error (%v) but RESP answered %s", j["err"], vclip(r.String(), 80))
	}
	if rerr || !jok {
		return ""
	}
	switch name {
	case "SCAN", "SEARCH", "NEARBY", "WITHIN", "INTERSECTS":
		if r.K == ':' { // COUNT output
			if fmt.Sprint(j["count"]) != r.S {
				return fmt.Sprintf("COUNT: RESP %s, JSON count %v", r.S, j["count"])
			}
			return ""
		}
		ri, ok1 := idsOfRESP(r)
		ji, ok2 := idsOfJSON(j)
		// JSON cannot carry invalid UTF-8: such bytes arrive as U+FFFD
		if ok1 && ok2 && strings.Join(ri, "\x00") != strings.Join(ji, "\x00") && strings.ToValidUTF8(strings.Join(ri, "\x00"), "\uFFFD") != strings.Join(ji, "\x00") {
			return fmt.Sprintf("ids differ: RESP %q, JSON %q", ri, ji)
		}
		// per-item fields: the names (and values) RESP lists for an item are the non-zero
		// entries of the JSON item's value array under the reply's "fields" header
		if hdr, hasHdr := j["fields"].([]any); ok1 && (hasHdr || true) {
			for _, k := range []string{"objects", "points", "bounds", "hashes"} {
				arr, ok := j[k].([]any)
				if !ok {
					continue
				}
				for i, e := range arr {
					if i >= len(r.A[1].A) {
						break
					}
					jf := map[string]string{}
					if m, isObj := e.(map[string]any); isObj {
						if vals, ok := m["fields"].([]any); ok {
							for vi, v := range vals {
								if vi < len(hdr) && fmt.Sprint(v) != "0" {
									jf[fmt.Sprint(hdr[vi])] = fmt.Sprint(v)
								}
							}
						}
					}
					rf := map[string]string{}
					re := r.A[1].A[i]
					if re.K == '*' {
						for pi, part := range re.A {
							// [id, object | [lat lon] | [[..][..]] | hash, [name value ...], distance?]
							if pi >= 2 && part.K == '*' && len(part.A)%2 == 0 && len(part.A) > 0 && part.A[0].K == '$' {
								for q := 0; q+1 < len(part.A); q += 2 {
									rf[strings.ToValidUTF8(part.A[q].S, "\uFFFD")] = part.A[q+1].S
								}
							}
						}
					}
					for n, v := range rf {
						jv, has := jf[n]
						if !has {
							return fmt.Sprintf("item %d: RESP lists field %q=%s, the JSON reply (header %v) does not", i, n, v, hdr)
						}
						a, e1 := strconv.ParseFloat(v, 64)
						b, e2 := strconv.ParseFloat(jv, 64)
						if v != jv && ((e1 == nil && e2 == nil && a != b) || ((e1 != nil || e2 != nil) && v != jv)) {
							return fmt.Sprintf("item %d: field %q is %s in RESP and %s in JSON", i, n, v, jv)
						}
					}
					for n, v := range jf {
						if _, has := rf[n]; !has {
							return fmt.Sprintf("item %d: JSON lists field %q=%s, RESP does not", i, n, v)
						}
					}
				}
			}
		}
		if ok1 && r.A[0].K == ':' && fmt.Sprint(j["cursor"]) != r.A[0].S {
			return fmt.Sprintf("cursor differs: RESP %s, JSON %v", r.A[0].S, j["cursor"])
		}
		if ok1 && ok2 && fmt.Sprint(j["count"]) != fmt.Sprint(len(ri)) {
			return fmt.Sprintf("JSON count %v but %d items", j["count"], len(ri))
		}
		// per-item distances: present in both modes or in neither, and equal
		for _, k := range []string{"ids", "objects", "points", "bounds", "hashes"} {
			arr, ok := j[k].([]any)
			if !ok || !ok1 {
				continue
			}
			for i, e := range arr {
				if i >= len(r.A[1].A) {
					break
				}
				jd, hasJ := any(nil), false
				if m, isObj := e.(map[string]any); isObj {
					jd, hasJ = m["distance"]
				}
				re := r.A[1].A[i]
				hasR := false
				var rd string
				if re.K == '*' && len(re.A) >= 2 {
					last := re.A[len(re.A)-1]
					if last.K == '$' || last.K == ':' {
						if _, err := strconv.ParseFloat(last.S, 64); err == nil && (k == "ids" || len(re.A) >= 3) {
							hasR, rd = true, last.S
						}
					}
				}
				if hasJ != hasR {
					return fmt.Sprintf("item %d (%s): distance present in JSON=%v (%v) but in RESP=%v (%s)", i, ri[i], hasJ, jd, hasR, vclip(re.String(), 80))
				}
				if hasJ {
					jf, _ := jd.(float64)
					rf, _ := strconv.ParseFloat(rd, 64)
					if math.Abs(jf-rf) > 1e-6*math.Max(1, math.Abs(jf)) {
						return fmt.Sprintf("item %d (%s): distance RESP %s, JSON %v", i, ri[i], rd, jd)
					}
				}
			}
		}
	case "GET":
		if obj, ok := j["object"]; ok {
			want, _ := json.Marshal(obj)
			got := r.S
			if r.K == '*' && len(r.A) > 0 {
				got = r.A[0].S
			}
			if s, isStr := obj.(string); isStr {
				// JSON cannot carry invalid UTF-8: such bytes arrive as U+FFFD
				if s != got && s != strings.ToValidUTF8(got, "\uFFFD") {
					return fmt.Sprintf("object differs: RESP %q, JSON %q", got, s)
				}
			} else if compactJSON(got) != string(want) {
				return fmt.Sprintf("object differs: RESP %s, JSON %s", vclip(got, 120), vclip(string(want), 120))
			}
		}
		if f, ok := j["fields"].(map[string]any); ok && r.K == '*' && len(r.A) == 2 {
			if len(f)*2 != len(r.A[1].A) {
				return fmt.Sprintf("fields differ: RESP %s, JSON %v", r.A[1], f)
			}
		}
	case "KEYS":
		arr, _ := j["keys"].([]any)
		var jk []string
		for _, e := range arr {
			jk = append(jk, fmt.Sprint(e))
		}
		var rk []string
		for _, e := range r.A {
			rk = append(rk, e.S)
		}
		if strings.Join(jk, "\x00") != strings.Join(rk, "\x00") {
			return fmt.Sprintf("keys differ: RESP %v, JSON %v", rk, jk)
		}
	case "TTL":
		if fmt.Sprint(j["ttl"]) != r.S {
			return fmt.Sprintf("ttl differs: RESP %s, JSON %v", r.S, j["ttl"])
		}
	case "EXISTS", "FEXISTS":
		if (r.S == "1") != (j["exists"] == true) {
			return fmt.Sprintf("exists differs: RESP %s, JSON %v", r.S, j["exists"])
		}
	case "FGET":
		jv := j["value"]
		js := fmt.Sprint(jv)
		if s, ok := jv.(string); ok {
			js = s
		} else if b, err := json.Marshal(jv); err == nil {
			js = string(b)
		}
		if js != r.S && compactJSON(r.S) != js {
			return fmt.Sprintf("field value differs: RESP %q, JSON %s", r.S, js)
		}
	case "JGET":
		if v, ok := j["value"]; ok && fmt.Sprint(v) != r.S {
			return fmt.Sprintf("value differs: RESP %q, JSON %q", r.S, v)
		}
	case "HOOKS", "CHANS":
		key := strings.ToLower(name)
		arr, _ := j[key].([]any)
		if len(arr) != len(r.A) {
			return fmt.Sprintf("%d %s in RESP, %d in JSON", len(r.A), key, len(arr))
		}
	case "STATS":
		arr, _ := j["stats"].([]any)
		if len(arr) != len(r.A) {
			return fmt.Sprintf("%d entries in RESP, %d in JSON", len(r.A), len(arr))
		}
		for i, e := range arr {
			if (e == nil) != r.A[i].Null {
				return fmt.Sprintf("entry %d: RESP %s, JSON %v", i, r.A[i], e)
			}
			if m, ok := e.(map[string]any); ok {
				rm := asMap(r.A[i])
				for k, v := range m {
					if rm[k] != fmt.Sprint(v) {
						return fmt.Sprintf("stats %s: RESP %s, JSON %v", k, rm[k], v)
					}
				}
			}
		}
	case "DEL", "PDEL", "DROP", "FSET", "EXPIRE", "PERSIST", "RENAMENX", "DELHOOK", "DELCHAN", "PDELHOOK", "PDELCHAN", "SETHOOK", "SETCHAN":
		// success in both; counts are only in RESP
	}
	return ""
}

// state set-ups
func c17Setup(c *Cli, state string) map[string]string {
	switch state {
	case "empty":
		return map[string]string{"@W": Sha1Sum(catScriptW), "@R": Sha1Sum(catScriptR), "@F": Sha1Sum("return FIELDS.f == 1")}
	case "escaping":
		sha := catSetup(c)
		c.Do("SET", `k"q`, `id"\`, "FIELD", `f"n`, "v\"\x01\\", "STRING", "va\"l\\ue\n\xff\x00end")
		c.Do("SET", `k"q`, "i\td", "FIELD", "plain", "1", "POINT", "1", "2")
		c.Do("SET", "k1", "unié世", "STRING", "café 世界 </script>")
		c.Do("SET", "k%d", "100%", "FIELD", "f%s", "5", "FIELD", "g%", "50%v", "STRING", "%!s(MISSING)%%")
		c.Do("SET", "k%d", "%x", "FIELD", "f%s", "7", "POINT", "1", "2")
		// ids / keys / values with control characters, DEL, NUL and invalid UTF-8
		c.Do("SET", "kc\x01\x1b", "i\x7f\x00d", "FIELD", "f\x02", "3", "STRING", "v\x1b[0m\x7f")
		c.Do("SET", "kc\x01\x1b", "bad\xffutf", "FIELD", "g\x0b", "4", "POINT", "1", "2")
		// a value larger than 64 KiB (8-byte WebSocket length, native length prefix)
		c.Do("SET", "kbig", "v", "STRING", strings.Repeat("0123456789", 7000))
		// field values at the edges of the number type
		c.Do("SET", "kn", "a", "FIELD", "nan", "NaN", "FIELD", "pinf", "+Inf", "FIELD", "ninf", "-Inf", "FIELD", "big", "1e308", "FIELD", "tiny", "1e-320", "FIELD", "negz", "-0", "FIELD", "int", "9007199254740993", "POINT", "1", "2")
		c.Do("SET", "kn", "b", "FIELD", "nan", "1", "POINT", "1", "3")
		// spellings Go's float parser accepts and JSON does not
		c.Do("SET", "kn", "c", "FIELD", "plus", "+7", "FIELD", "nolead", ".5", "FIELD", "trail", "5.", "FIELD", "negzero", "-012", "FIELD", "exp", "1.e3", "FIELD", "hex", "0x1p-2", "FIELD", "under", "1_0", "FIELD", "upinf", "Infinity", "POINT", "1", "4")
		// objects whose field names differ, so that the last object of a LIMIT page brings a new name
		c.Do("SET", "kf", "a", "FIELD", "f1", "1", "POINT", "1", "1")
		c.Do("SET", "kf", "b", "FIELD", "f2", "2", "POINT", "1", "2")
		c.Do("SET", "kf", "c", "FIELD", "f3", "3", "POINT", "1", "3")
		c.Do("SET", "kf", "d", "FIELD", "f0", "4", "FIELD", "f4", "5", "POINT", "1", "4")
		c.Do("SETCHAN", `ch"q`, "META", `m"k`, `m\v`, "NEARBY", `k"q`, "FENCE", "POINT", "1", "2", "100")
		return sha
	}
	return catSetup(c)
}

func c17Extra(state string) [][]string {
	if state != "escaping" {
		return nil
	}
	k, id := `k"q`, `id"\`
	return [][]string{{"KEYS", "*"}, {"SCAN", k}, {"SCAN", k, "IDS"}, {"SEARCH", k}, {"SEARCH", k, "IDS"}, {"GET", k, id}, {"GET", k, id, "WITHFIELDS"}, {"FGET", k, id, `f"n`},
		{"TYPE", k}, {"BOUNDS", k}, {"EXISTS", k, id}, {"TTL", k, id}, {"STATS", k}, {"CHANS", "*"}, {"HOOKS", "*"}, {"SCAN", k, "MATCH", `id"*`, "IDS"}, {"NEARBY", k, "POINT", "1", "2"},
		{"GET", "k1", "unié世"}, {"SEARCH", "k1"}, {"JGET", k, id}, {"PDEL", k, `i*`}, {"GET", "no\"such", "x"}, {"GET", k, "no\"id"}, {"FSET", k, "no\"id", "f", "1"},
		{"BOGUS\"CMD", "x"}, {"SET", k, "x", "POINT", "bad\"num", "1"}, {"DELCHAN", `ch"q`},
		{"SCAN", "kc\x01\x1b"}, {"SCAN", "kc\x01\x1b", "IDS"}, {"GET", "kc\x01\x1b", "i\x7f\x00d", "WITHFIELDS"}, {"GET", "kc\x01\x1b", "bad\xffutf"}, {"KEYS", "kc*"}, {"GET", "kc\x01\x1b", "no\x1bsuch"}, {"GET", "no\x7fkey", "x"}, {"ECHO\x01", "x"}, {"TYPE", "kc\x01\x1b"}, {"SEARCH", "kc\x01\x1b"},
		{"GET", "kbig", "v"}, {"SCAN", "kbig"},
		{"GET", "kn", "a", "WITHFIELDS"}, {"SCAN", "kn"}, {"SCAN", "kn", "POINTS"}, {"FGET", "kn", "a", "nan"}, {"FGET", "kn", "c", "plus"}, {"FGET", "kn", "c", "nolead"}, {"FGET", "kn", "c", "trail"}, {"FGET", "kn", "c", "exp"}, {"FGET", "kn", "c", "hex"}, {"GET", "kn", "c", "WITHFIELDS"}, {"SCAN", "kn", "WHERE", "plus", "7", "7"}, {"FGET", "kn", "a", "pinf"}, {"FGET", "kn", "a", "int"}, {"NEARBY", "kn", "POINT", "1", "2"}, {"SCAN", "kn", "WHERE", "nan", "0", "2"}, {"SCAN", "kn", "WHERE", "pinf", ">", "5"},
		{"SCAN", "kf", "LIMIT", "1"}, {"SCAN", "kf", "LIMIT", "2"}, {"SCAN", "kf", "LIMIT", "3"}, {"SCAN", "kf", "CURSOR", "1", "LIMIT", "2"}, {"NEARBY", "kf", "LIMIT", "2", "POINT", "1", "1"}, {"NEARBY", "kf", "DISTANCE", "IDS", "POINT", "1", "1"}, {"NEARBY", "kf", "DISTANCE", "POINT", "1", "2"}, {"NEARBY", "kf", "DISTANCE", "LIMIT", "1", "IDS", "POINT", "1", "3"}, {"WITHIN", "kf", "LIMIT", "3", "BOUNDS", "0", "0", "5", "5"}, {"SCAN", "kf", "LIMIT", "2", "POINTS"},
		{"SCAN", "k%d"}, {"SCAN", "k%d", "IDS"}, {"SEARCH", "k%d"}, {"GET", "k%d", "100%", "WITHFIELDS"}, {"GET", "k%d", "%x", "WITHFIELDS", "POINT"}, {"FGET", "k%d", "100%", "g%"}, {"NEARBY", "k%d", "POINT", "1", "2"},
		{"GET", "k%d", "no%sid"}, {"GET", "no%dkey", "x"}, {"BOGUS%s"}, {"TYPE", "k%d"}, {"STATS", "k%d"}, {"SET", "k%d", "y", "POINT", "bad%d", "1"}}
}

func checkC17(job *Job, res *Result) {
	res.Rule = "SEQ over the command table: catalogue command x argument shape (+ 27 commands on names needing escaping) x state {empty, populated, escaping} on two identical servers in lockstep (RESP mode / JSON mode), plus telnet, native, HTTP and WebSocket transports; replies of 16 lengths at the boundaries of the WebSocket / native / HTTP length encodings; a server with JSON as its default output x 6 first commands (HELLO forms, COMMAND DOCS) x 7 follow-up commands; distinct = distinct (state, command, shape, reply class RESP, ok JSON)"
	res.Assumptions = append(res.Assumptions, "RESP may answer nil / 0 / -2 / 'none' where JSON answers with a 'not found' error (documented convention)",
		"commands that switch the connection to a stream (SUBSCRIBE, PSUBSCRIBE, MONITOR, AOF, FENCE searches) are checked for their first reply only")
	repo, _ := job.Params["repo"].(string)
	names, uncat := catalogueNames(repo)
	res.Extra["uncatalogued"] = uncat
	cat := catalogue()
	for k, v := range catLive {
		cat[k] = v
		names = append(names, k)
	}
	sort.Strings(names)
	states := []string{"empty", "populated", "escaping"}
	type item struct {
		name string
		si   int
		args []string
	}
	n := 0
	for _, state := range states {
		var items []item
		for _, name := range names {
			if name == "FOLLOW" || name == "SLAVEOF" || name == "REPLCONF" || name == "AOFSHRINK" || name == "QUIT" || name == "AUTH" || name == "CONFIG SET" || name == "CONFIG REWRITE" || name == "READONLY" || name == "OUTPUT" {
				if name != "OUTPUT" {
					continue
				}
			}
			for si, shape := range cat[name] {
				items = append(items, item{name, si, shape})
			}
		}
		for ei, e := range c17Extra(state) {
			items = append(items, item{strings.ToUpper(e[0]), 100 + ei, e})
		}
		state := state
		// each shard takes a slice of the items; servers are shared by its items
		var mine []item
		for _, it := range items {
			n++
			if n%job.NShards == job.Shard {
				mine = append(mine, it)
			}
		}
		// the two servers are shared by the shard's items: reads first, on the pristine
		// state, then the commands that change it (so that what a read shape meets does
		// not depend on how the items fall into shards)
		sort.SliceStable(mine, func(i, j int) bool { return !mutating(mine[i].name) && mutating(mine[j].name) })
		x := runExec(job, freezeAllBut(), func(x *Exec) {
			a := x.Start("A", x.dir+"/A", 9001, nil)
			b := x.Start("B", x.dir+"/B", 9002, nil)
			ca, cb := x.Dial(a.Addr), x.Dial(b.Addr)
			sha := c17Setup(ca, state)
			c17Setup(cb, state)
			jsonConn := func() *Cli {
				c := x.Dial(b.Addr)
				c.Do("OUTPUT", "json")
				return c
			}
			cr, cj := x.Dial(a.Addr), jsonConn()
			if job.Shard == 0 {
				// OUTPUT json / OUTPUT resp take effect for the very next command, also
				// when the commands arrive pipelined in one segment
				pc := x.Dial(a.Addr)
				var seg []byte
				pipe := [][]string{w("OUTPUT json"), w("PING"), w("GET k1 a"), w("KEYS *"), w("OUTPUT resp"), w("PING"), w("KEYS *"), w("OUTPUT json"), w("SCAN k1 IDS")}
				for _, cmd := range pipe {
					seg = append(seg, respCmd(cmd...)...)
				}
				pc.Send(seg)
				mode := "resp"
				for _, cmd := range pipe {
					v, err := pc.ReadReply()
					if err != nil {
						res.Violate("C17/pipelined-mode-switch:no-reply", err.Error(), map[string]any{"state": state})
						break
					}
					if cmd[0] == "OUTPUT" {
						mode = cmd[1]
					}
					isJSON := v.K == '$' && strings.HasPrefix(v.S, "{")
					if (mode == "json") != isJSON {
						res.Violate("C17/pipelined-mode-switch:"+strings.ToLower(cmd[0]), fmt.Sprintf("pipeline %v in one segment: after OUTPUT %s the reply to %v is %s", pipe, mode, cmd, vclip(v.String(), 100)), map[string]any{"state": state})
					} else if isJSON {
						if _, p := jsonDoc(v.S); p != "" {
							res.Violate("C17/pipelined-json-malformed", p+": "+vclip(v.S, 200), map[string]any{"state": state})
						}
					}
				}
				pc.Close()
				res.Evaluations++
				res.DistinctS("pipeline" + state)
			}
			for _, it := range mine {
				args := catSubst(it.args, sha)
				viol := func(sig, detail string) {
					res.Violate("C17/"+sig+":"+strings.ToLower(it.name), fmt.Sprintf("%s  [state %s, command %q]", detail, state, args), map[string]any{"state": state, "cmd": args})
				}
				_, live := catLive[it.name]
				fence := false
				for _, s := range args {
					fence = fence || strings.EqualFold(s, "FENCE")
				}
				if it.name == "OUTPUT" {
					// OUTPUT changes the mode of its own connection: use throw-away connections
					t1, t2 := x.Dial(a.Addr), jsonConn()
					r := t1.Do(args...)
					j := t2.Do(args...)
					if r.K == '!' {
						viol("resp-malformed", r.S)
					}
					if j.K == '$' {
						if _, p := jsonDoc(j.S); p != "" {
							viol("json-malformed", p+": "+vclip(j.S, 200))
						}
					}
					t1.Close()
					t2.Close()
					res.Evaluations++
					continue
				}
				r := cr.Do(args...)
				j := cj.Do(args...)
				vsched.Quiesce()
				if r.K == '!' {
					viol("resp-malformed", r.S)
				}
				var doc map[string]any
				switch {
				case j.K == '$' && !j.Null:
					var p string
					doc, p = jsonDoc(j.S)
					if p != "" {
						viol("json-malformed", p+": "+vclip(j.S, 300))
					}
				case j.K == '!':
					viol("json-no-reply", j.S)
				default:
					viol("json-mode-reply-not-a-json-document", "JSON mode answered "+vclip(j.String(), 200))
					_ = 0
				}
				if doc != nil && r.K != '!' && !live && !fence {
					if why := c17Agree(it.name, args, r, doc); why != "" {
						viol("modes-disagree", why)
					}
				}
				res.Evaluations++
				res.Transitions++
				res.Validated++
				res.DistinctS(fmt.Sprint(state, it.name, it.si, replyClass(r.String()), doc != nil && doc["ok"] == true))
				if live || fence || cr.c.EOF() || cj.c.EOF() {
					cr.Close()
					cj.Close()
					cr, cj = x.Dial(a.Addr), jsonConn()
				}
				// ---- other transports (arguments without spaces / quotes only)
				simple := true
				for _, s := range args {
					if s == "" || strings.ContainsAny(s, " \"'\\\r\n\t{}") || len(s) > 60 {
						simple = false
					}
				}
				if !simple || live || fence || it.name == "TIMEOUT" && false {
					continue
				}
				line := strings.Join(args, " ")
				// telnet -> RESP reply
				tc := x.Dial(a.Addr)
				tc.Send([]byte(line + "\r\n"))
				if tv, err := tc.ReadReply(); err != nil {
					viol("telnet-malformed", err.Error())
				} else if tv.K == '-' != (r.K == '-') && !mutating(it.name) {
					viol("telnet-vs-resp", fmt.Sprintf("telnet %s, RESP array %s", vclip(tv.String(), 80), vclip(r.String(), 80)))
				}
				tc.Close()
				// native -> "$<len> <json>\r\n"
				nc := x.Dial(b.Addr)
				nc.Send([]byte(fmt.Sprintf("$%d %s\r\n", len(line), line)))
				vsched.WaitUntilOr(func() bool { return nc.c.Avail() > 0 || nc.c.EOF() }, int64(5*stdtime.Second))
				vsched.Quiesce()
				nb := string(nc.c.Drain())
				if !strings.HasPrefix(nb, "$") || !strings.HasSuffix(nb, "\r\n") || !strings.Contains(nb, " ") {
					viol("native-malformed", "native transport answered "+vclip(nb, 200))
				} else {
					body := nb[strings.Index(nb, " ")+1 : len(nb)-2]
					if lenStr := nb[1:strings.Index(nb, " ")]; lenStr != fmt.Sprint(len(body)) {
						viol("native-malformed", "length prefix "+lenStr+" but body has "+fmt.Sprint(len(body))+" bytes")
					}
					if _, p := jsonDoc(body); p != "" {
						viol("native-json-malformed", p+": "+vclip(body, 200))
					}
				}
				nc.Close()
				natBody := ""
				if strings.HasPrefix(nb, "$") && strings.Contains(nb, " ") && len(nb) > 2 {
					natBody = nb[strings.Index(nb, " ")+1 : len(nb)-2]
				}
				// HTTP -> JSON body
				hc := x.Dial(b.Addr)
				hc.Send([]byte("GET /" + url.PathEscape(line) + " HTTP/1.1\r\nHost: x\r\n\r\n"))
				vsched.WaitUntilOr(func() bool { return hc.c.EOF() }, int64(5*stdtime.Second))
				vsched.Quiesce()
				hb := string(hc.c.Drain())
				if i := strings.Index(hb, "\r\n\r\n"); !strings.HasPrefix(hb, "HTTP/1.1 ") || i < 0 {
					viol("http-malformed", "HTTP transport answered "+vclip(hb, 200))
				} else {
					body := strings.TrimSuffix(hb[i+4:], "\r\n")
					cl := ""
					for _, h := range strings.Split(hb[:i], "\r\n") {
						if strings.HasPrefix(h, "Content-Length: ") {
							cl = strings.TrimPrefix(h, "Content-Length: ")
						}
					}
					if cl != fmt.Sprint(len(hb)-(i+4)) {
						viol("http-malformed", fmt.Sprintf("Content-Length %s but %d body bytes", cl, len(hb)-(i+4)))
					}
					if !strings.HasPrefix(args[0], "viewer") {
						if _, p := jsonDoc(body); p != "" {
							viol("http-json-malformed", p+": "+vclip(body, 200))
						}
						// the same server, the same state, the same command: the JSON
						// connection, the native and the HTTP transport carry one document
						if !mutating(it.name) && !c17Volatile[it.name] && j.K == '$' {
							jn, nn, hn := c17Norm(j.S), c17Norm(natBody), c17Norm(body)
							if jn != nn || jn != hn {
								viol("transports-disagree", fmt.Sprintf("JSON-mode connection %s | native %s | HTTP %s", vclip(jn, 200), vclip(nn, 200), vclip(hn, 200)))
							}
						}
					}
				}
				hc.Close()
				// WebSocket -> 101 handshake, then one unmasked text frame carrying the JSON document
				wc := x.Dial(b.Addr)
				wsKey := "dGhlIHNhbXBsZSBub25jZQ=="
				wc.Send([]byte("GET /" + url.PathEscape(line) + " HTTP/1.1\r\nHost: x\r\nUpgrade: websocket\r\nConnection: Upgrade\r\nSec-WebSocket-Version: 13\r\nSec-WebSocket-Key: " + wsKey + "\r\n\r\n"))
				vsched.WaitUntilOr(func() bool { return wc.c.EOF() }, int64(5*stdtime.Second))
				vsched.Quiesce()
				wb := wc.c.Drain()
				wc.Close()
				if hi := bytes.Index(wb, []byte("\r\n\r\n")); !bytes.HasPrefix(wb, []byte("HTTP/1.1 101 ")) || hi < 0 {
					viol("websocket-handshake", "the upgrade request was answered "+vclip(string(wb), 160))
				} else {
					sum := sha1.Sum([]byte(wsKey + "258EAFA5-E914-47DA-95CA-C5AB0DC85B11"))
					if !bytes.Contains(wb[:hi], []byte("Sec-WebSocket-Accept: "+base64.StdEncoding.EncodeToString(sum[:]))) {
						viol("websocket-handshake", "wrong or missing Sec-WebSocket-Accept in "+vclip(string(wb[:hi]), 200))
					}
					fr := wb[hi+4:]
					var payload []byte
					okFrame := len(fr) >= 2 && fr[0] == 0x81 && fr[1]&0x80 == 0
					if okFrame {
						switch n := int(fr[1] & 0x7f); {
						case n < 126:
							okFrame = len(fr) == 2+n
							payload = fr[2:]
						case n == 126:
							okFrame = len(fr) >= 4 && len(fr) == 4+int(binary.BigEndian.Uint16(fr[2:])) && int(binary.BigEndian.Uint16(fr[2:])) >= 126
							if okFrame {
								payload = fr[4:]
							}
						default:
							okFrame = len(fr) >= 10 && uint64(len(fr)) == 10+binary.BigEndian.Uint64(fr[2:]) && binary.BigEndian.Uint64(fr[2:]) > 0xFFFF
							if okFrame {
								payload = fr[10:]
							}
						}
					}
					if !okFrame {
						viol("websocket-frame", fmt.Sprintf("not exactly one well-formed unmasked text frame with a minimal length encoding: %d bytes after the handshake, first bytes % x", len(fr), fr[:min(len(fr), 12)]))
					} else if _, p := jsonDoc(string(payload)); p != "" {
						viol("websocket-json-malformed", p+": "+vclip(string(payload), 200))
					} else if !mutating(it.name) && !c17Volatile[it.name] && j.K == '$' && c17Norm(j.S) != c17Norm(string(payload)) {
						viol("transports-disagree", fmt.Sprintf("JSON-mode connection %s | WebSocket %s", vclip(c17Norm(j.S), 200), vclip(c17Norm(string(payload)), 200)))
					}
				}
			}
		})
		if len(x.Crashes) > 0 {
			res.Violate("C17/server-crash:"+state, x.Crashes[0].Thread+": "+x.Crashes[0].Value+"\n"+vclip(x.Crashes[0].Stack, 1500), map[string]any{"state": state})
		} else if x.Err != "" {
			res.Violate("C17/hang:"+state, x.Err, map[string]any{"state": state})
		}
		res.States++
	}
	if job.Shard == 0 && job.Replay == nil {
		c17Frames(job, res)
		c17DefaultJSON(job, res)
		c17Sequences(job, res)
		c17Live(job, res)
		c17Tiles(job, res)
	}
}

// c17WSFrame parses exactly one unmasked text frame with a minimal length encoding (RFC 6455).
func c17WSFrame(fr []byte) (payload []byte, ok bool) {
	if len(fr) < 2 || fr[0] != 0x81 || fr[1]&0x80 != 0 {
		return nil, false
	}
	switch n := int(fr[1] & 0x7f); {
	case n < 126:
		return fr[2:], len(fr) == 2+n
	case n == 126:
		if len(fr) < 4 {
			return nil, false
		}
		l := int(binary.BigEndian.Uint16(fr[2:]))
		return fr[4:], len(fr) == 4+l && l >= 126
	default:
		if len(fr) < 10 {
			return nil, false
		}
		l := binary.BigEndian.Uint64(fr[2:])
		return fr[10:], uint64(len(fr)) == 10+l && l > 0xFFFF
	}
}

// c17Frames: replies whose length sits at every boundary of the transports'
// length encodings (WebSocket 125/126, 65535/65536; native and HTTP decimal widths).
func c17Frames(job *Job, res *Result) {
	x := runExec(job, freezeAllBut(), func(x *Exec) {
		in := x.Start("L", x.dir+"/L", 9001, nil)
		ws := func(line string) ([]byte, string) {
			wc := x.Dial(in.Addr)
			wc.Send([]byte("GET /" + url.PathEscape(line) + " HTTP/1.1\r\nHost: x\r\nUpgrade: websocket\r\nConnection: Upgrade\r\nSec-WebSocket-Version: 13\r\nSec-WebSocket-Key: dGhlIHNhbXBsZSBub25jZQ==\r\n\r\n"))
			vsched.WaitUntilOr(func() bool { return wc.c.EOF() }, int64(5*stdtime.Second))
			vsched.Quiesce()
			wb := wc.c.Drain()
			wc.Close()
			hi := bytes.Index(wb, []byte("\r\n\r\n"))
			if !bytes.HasPrefix(wb, []byte("HTTP/1.1 101 ")) || hi < 0 {
				return nil, "the upgrade request was answered " + vclip(string(wb), 120)
			}
			return wb[hi+4:], ""
		}
		base, problem := ws("ECHO b")
		p0, ok := c17WSFrame(base)
		if problem != "" || !ok {
			res.Violate("C17/websocket-frame:boundary", "ECHO b: "+problem, nil)
			return
		}
		for _, target := range []int{124, 125, 126, 127, 128, 129, 255, 256, 257, 999, 1000, 65534, 65535, 65536, 65537, 70000} {
			pad := target - len(p0) + 1
			if pad < 1 {
				continue
			}
			arg := strings.Repeat("x", pad)
			fr, problem := ws("ECHO " + arg)
			payload, ok := c17WSFrame(fr)
			res.Evaluations++
			res.DistinctS(fmt.Sprint("frame", target))
			switch {
			case problem != "":
				res.Violate("C17/websocket-frame:boundary", fmt.Sprintf("payload of %d bytes: %s", target, problem), map[string]any{"target": target})
			case !ok:
				res.Violate("C17/websocket-frame:boundary", fmt.Sprintf("a reply of %d bytes is not sent as exactly one well-formed unmasked text frame with a minimal length encoding: %d bytes after the handshake, first bytes % x", target, len(fr), fr[:min(len(fr), 12)]), map[string]any{"target": target})
			case len(payload) != target:
				res.Violate("C17/websocket-frame:boundary", fmt.Sprintf("expected a payload of %d bytes, got %d", target, len(payload)), map[string]any{"target": target})
			default:
				if _, p := jsonDoc(string(payload)); p != "" {
					res.Violate("C17/websocket-json-malformed:boundary", p+": "+vclip(string(payload), 120), map[string]any{"target": target})
				}
			}
			// native: "$<len> <json>\r\n" and HTTP Content-Length around the same sizes
			nc := x.Dial(in.Addr)
			line := "ECHO " + arg
			nc.Send([]byte(fmt.Sprintf("$%d %s\r\n", len(line), line)))
			vsched.WaitUntilOr(func() bool { return nc.c.Avail() > 0 || nc.c.EOF() }, int64(5*stdtime.Second))
			vsched.Quiesce()
			nb := string(nc.c.Drain())
			nc.Close()
			if i := strings.Index(nb, " "); !strings.HasPrefix(nb, "$") || !strings.HasSuffix(nb, "\r\n") || i < 0 || nb[1:i] != fmt.Sprint(len(nb)-i-3) {
				res.Violate("C17/native-malformed:boundary", fmt.Sprintf("a reply of about %d bytes arrives as %s", target, vclip(nb, 60)), map[string]any{"target": target})
			}
		}
		res.States++
	})
	if x.Err != "" {
		res.Violate("C17/hang:frames", x.Err, nil)
	}
}

// c17DefaultJSON: a server started with JSON as the default output (-o json).
// Every RESP connection starts in JSON mode; a HELLO <n> refused in plain RESP
// (redis clients insist on it) must not change the mode of what follows.
func c17DefaultJSON(job *Job, res *Result) {
	for _, first := range [][]string{nil, {"HELLO", "3"}, {"HELLO", "2", "AUTH", "a", "b"}, {"HELLO"}, {"COMMAND", "DOCS"}, {"PING"}} {
		first := first
		x := runExec(job, freezeAllBut(), func(x *Exec) {
			in := x.Start("L", x.dir+"/L", 9001, func(o *Options) { o.ClientOutput = "json" })
			c0 := x.Dial(in.Addr)
			c0.Do("SET", "k1", "a", "FIELD", "f", "1", "POINT", "1", "2")
			c := x.Dial(in.Addr)
			if first != nil {
				c.Do(first...)
			}
			for _, cmd := range [][]string{{"GET", "k1", "a"}, {"SCAN", "k1"}, {"GET", "nokey", "x"}, {"OUTPUT"}, {"NOSUCHCOMMAND"}, {"SET", "k1", "b", "POINT", "3", "4"}, {"TTL", "k1", "a"}} {
				r := c.Do(cmd...)
				res.Evaluations++
				res.DistinctS(fmt.Sprint("defaultjson", first, cmd[0]))
				if r.K != '$' {
					res.Violate("C17/default-json-connection-left-json-mode", fmt.Sprintf("server started with JSON as the default output; after %v, %v is answered %s instead of one JSON document", first, cmd, vclip(r.String(), 120)), map[string]any{"first": first, "cmd": cmd})
					continue
				}
				if _, p := jsonDoc(r.S); p != "" {
					res.Violate("C17/default-json-malformed", fmt.Sprintf("after %v, %v: %s: %s", first, cmd, p, vclip(r.S, 120)), map[string]any{"first": first, "cmd": cmd})
				}
				if cmd[0] == "OUTPUT" && !strings.Contains(r.S, `"output":"json"`) {
					res.Violate("C17/default-json-connection-left-json-mode", fmt.Sprintf("after %v, OUTPUT reports %s", first, vclip(r.S, 120)), map[string]any{"first": first, "cmd": cmd})
				}
			}
			res.States++
		})
		if x.Err != "" {
			res.Violate("C17/hang:default-json", x.Err, nil)
		}
	}
}

// c17Sequences: replies that render something an earlier command of the
// connection stored (client names, output modes), in JSON mode.
func c17Sequences(job *Job, res *Result) {
	seqs := [][][]string{
		{{"CLIENT", "SETNAME", "nan"}, {"CLIENT", "GETNAME"}, {"CLIENT", "LIST"}},
		{{"CLIENT", "SETNAME", "inf"}, {"CLIENT", "LIST"}, {"CLIENT", "SETNAME", "-Inf"}, {"CLIENT", "LIST"}},
		{{"CLIENT", "SETNAME", "1e999"}, {"CLIENT", "LIST"}, {"CLIENT", "SETNAME", "007"}, {"CLIENT", "LIST"}, {"CLIENT", "GETNAME"}},
		{{"CLIENT", "SETNAME", `a"b\`}, {"CLIENT", "LIST"}, {"CLIENT", "GETNAME"}},
		{{"CLIENT", "SETNAME", "true"}, {"CLIENT", "LIST"}, {"CLIENT", "SETNAME", "null"}, {"CLIENT", "LIST"}, {"CLIENT", "SETNAME", `{"x":1}`}, {"CLIENT", "LIST"}},
	}
	for si, seq := range seqs {
		seq := seq
		x := runExec(job, freezeAllBut(), func(x *Exec) {
			in := x.Start("L", x.dir+"/L", 9001, nil)
			c := x.Dial(in.Addr)
			c.Do("OUTPUT", "json")
			other := x.Dial(in.Addr)
			other.Do("OUTPUT", "json")
			for _, cmd := range seq {
				for who, cl := range []*Cli{c, other} {
					if who == 1 && cmd[1] != "LIST" {
						continue // the second connection only lists
					}
					r := cl.Do(cmd...)
					res.Evaluations++
					res.DistinctS(fmt.Sprint("seq", si, cmd, who))
					if r.K != '$' {
						res.Violate("C17/json-not-one-document:client", fmt.Sprintf("%v in JSON mode is answered %s", cmd, vclip(r.String(), 120)), map[string]any{"seq": seq})
					} else if _, p := jsonDoc(r.S); p != "" {
						res.Violate("C17/json-malformed:client", fmt.Sprintf("%v after %v: %s: %s", cmd, seq[0], p, vclip(r.S, 200)), map[string]any{"seq": seq})
					}
				}
			}
			res.States++
		})
		if x.Err != "" {
			res.Violate("C17/hang:sequences", x.Err, nil)
		}
	}
}

// c17Live: a live geofence opened over each transport: the opening reply and
// every notification are one well-formed JSON document in that transport's framing.
func c17Live(job *Job, res *Result) {
	for _, tr := range []string{"resp-json", "native", "websocket"} {
		tr := tr
		x := runExec(job, freezeAllBut(), func(x *Exec) {
			in := x.Start("L", x.dir+"/L", 9001, nil)
			c0 := x.Dial(in.Addr)
			c0.Do("SET", "k1", "a", "POINT", "5", "5")
			lc := x.Dial(in.Addr)
			line := "NEARBY k1 FENCE POINT 1 2 100000"
			switch tr {
			case "resp-json":
				lc.Do("OUTPUT", "json")
				lc.Send(respCmd(strings.Fields(line)...))
			case "native":
				lc.Send([]byte(fmt.Sprintf("$%d %s\r\n", len(line), line)))
			case "websocket":
				lc.Send([]byte("GET /" + url.PathEscape(line) + " HTTP/1.1\r\nHost: x\r\nUpgrade: websocket\r\nConnection: Upgrade\r\nSec-WebSocket-Version: 13\r\nSec-WebSocket-Key: dGhlIHNhbXBsZSBub25jZQ==\r\n\r\n"))
			}
			vsched.WaitUntilOr(func() bool { return lc.c.Avail() > 0 }, int64(5*stdtime.Second))
			vsched.Quiesce()
			opening := lc.c.Drain()
			if tr == "websocket" {
				if hi := bytes.Index(opening, []byte("\r\n\r\n")); hi >= 0 && bytes.HasPrefix(opening, []byte("HTTP/1.1 101 ")) {
					opening = opening[hi+4:]
				}
			}
			c0.Do("SET", "k1", "b", "POINT", "1", "2")
			vsched.Sleep(int64(600 * stdtime.Millisecond))
			vsched.Quiesce()
			note := lc.c.Drain()
			lc.c.Kill()
			for what, raw := range map[string][]byte{"opening reply": opening, "notification": note} {
				res.Evaluations++
				res.DistinctS("live" + tr + what)
				var docs []string
				ok := len(raw) > 0
				for rest := raw; ok && len(rest) > 0; {
					switch tr {
					case "resp-json":
						v, r2, full, err := parseRESP(rest)
						if ok = err == nil && full && v.K == '$'; ok {
							docs, rest = append(docs, v.S), r2
						}
					case "native":
						// "$<n> <n bytes>\r\n"
						r := string(rest)
						sp := strings.Index(r, " ")
						n, err := strconv.Atoi(strings.TrimPrefix(r[:max(sp, 0)], "$"))
						if ok = sp > 0 && strings.HasPrefix(r, "$") && err == nil && len(r) >= sp+1+n+2 && r[sp+1+n:sp+1+n+2] == "\r\n"; ok {
							docs, rest = append(docs, r[sp+1:sp+1+n]), rest[sp+1+n+2:]
						}
					case "websocket":
						// frame length from the header, then the strict single-frame parser
						fl := 0
						if len(rest) >= 2 {
							switch n := int(rest[1] & 0x7f); {
							case n < 126:
								fl = 2 + n
							case n == 126 && len(rest) >= 4:
								fl = 4 + int(binary.BigEndian.Uint16(rest[2:]))
							case n == 127 && len(rest) >= 10:
								fl = 10 + int(binary.BigEndian.Uint64(rest[2:]))
							}
						}
						if ok = fl > 0 && fl <= len(rest); ok {
							var pl []byte
							if pl, ok = c17WSFrame(rest[:fl]); ok {
								docs, rest = append(docs, string(pl)), rest[fl:]
							}
						}
					}
				}
				doc := strings.Join(docs, "\n")
				if what == "opening reply" && len(docs) != 1 {
					ok = false
				}
				if !ok {
					res.Violate("C17/live-frame-malformed:"+tr, fmt.Sprintf("the %s of a live fence over %s is not one well-formed frame: %s", what, tr, vclip(string(raw), 160)), map[string]any{"transport": tr})
				} else {
					for _, d := range docs {
						p := ""
						if what == "opening reply" {
							_, p = jsonDoc(d)
						} else if var_ := map[string]any{}; json.Unmarshal([]byte(d), &var_) != nil || var_["command"] == nil {
							p = "not a JSON object with a \"command\" member" // notifications are events, not replies
						}
						if p != "" {
							res.Violate("C17/live-json-malformed:"+tr, fmt.Sprintf("the %s of a live fence over %s: %s: %s", what, tr, p, vclip(d, 160)), map[string]any{"transport": tr})
						}
					}
				}
				_ = doc
			}
			res.States++
		})
		if x.Err != "" {
			res.Violate("C17/hang:live", x.Err+" ["+tr+"]", nil)
		}
	}
}

// c17Tiles: a vector tile is the same bytes over RESP (INTERSECTS key MVT x y z),
// inside the JSON document (member "mvt", unpadded base64) and as the body of
// HTTP GET /key/z/x/y.mvt - for tiles of every length modulo 3.
func c17Tiles(job *Job, res *Result) {
	x := runExec(job, freezeAllBut(), func(x *Exec) {
		in := x.Start("L", x.dir+"/L", 9001, nil)
		c := x.Dial(in.Addr)
		cj := x.Dial(in.Addr)
		cj.Do("OUTPUT", "json")
		seenMod := map[int]bool{}
		for n := 0; n <= 7; n++ {
			if n > 0 {
				c.Do("SET", "tk", fmt.Sprintf("obj%s", strings.Repeat("x", n)), "POINT", fmt.Sprint(10+n), fmt.Sprint(20+n))
			}
			r := c.Do("INTERSECTS", "tk", "LIMIT", "100000000", "MVT", "0", "0", "0")
			if r.K != '*' || len(r.A) != 2 {
				if n == 0 {
					continue // no collection yet
				}
				res.Violate("C17/tile:resp", fmt.Sprintf("INTERSECTS tk MVT 0 0 0 with %d objects replied %s", n, vclip(r.String(), 120)), nil)
				continue
			}
			tile := r.A[1].S
			seenMod[len(tile)%3] = true
			res.Evaluations++
			res.DistinctS(fmt.Sprint("tile", n, len(tile)%3))
			j := cj.Do("INTERSECTS", "tk", "LIMIT", "100000000", "MVT", "0", "0", "0")
			var doc struct {
				OK  bool   `json:"ok"`
				MVT string `json:"mvt"`
			}
			if j.K != '$' || json.Unmarshal([]byte(j.S), &doc) != nil || !doc.OK {
				res.Violate("C17/tile:json", fmt.Sprintf("JSON mode, %d objects: %s", n, vclip(j.String(), 160)), nil)
			} else if dec, err := base64.RawStdEncoding.DecodeString(doc.MVT); err != nil && func() bool { d2, e2 := base64.StdEncoding.DecodeString(doc.MVT); dec = d2; return e2 != nil }() {
				res.Violate("C17/tile:json", fmt.Sprintf("member mvt is not base64: %s", vclip(doc.MVT, 80)), nil)
			} else if string(dec) != tile {
				res.Violate("C17/tile:json", fmt.Sprintf("%d objects: the tile inside the JSON document (%d bytes) differs from the RESP tile (%d bytes)", n, len(dec), len(tile)), nil)
			}
			hc := x.Dial(in.Addr)
			hc.Send([]byte("GET /tk/0/0/0.mvt HTTP/1.1\r\nHost: x\r\n\r\n"))
			vsched.WaitUntilOr(func() bool { return hc.c.EOF() }, int64(5*stdtime.Second))
			vsched.Quiesce()
			hb := string(hc.c.Drain())
			hc.Close()
			i := strings.Index(hb, "\r\n\r\n")
			if i < 0 || !strings.HasPrefix(hb, "HTTP/1.1 200 ") || !strings.Contains(hb[:i], "application/vnd.mapbox-vector-tile") {
				res.Violate("C17/tile:http", fmt.Sprintf("GET /tk/0/0/0.mvt with %d objects (tile of %d bytes) answered %s", n, len(tile), vclip(hb, 200)), map[string]any{"objects": n})
			} else if body := strings.TrimSuffix(hb[i+4:], "\r\n"); body != tile {
				res.Violate("C17/tile:http", fmt.Sprintf("%d objects: the HTTP body (%d bytes) differs from the RESP tile (%d bytes)", n, len(body), len(tile)), map[string]any{"objects": n})
			}
		}
		if len(seenMod) < 3 {
			res.Assumptions = append(res.Assumptions, fmt.Sprintf("tile lengths modulo 3 covered: %v", seenMod))
		}
		res.States++
	})
	if x.Err != "" {
		res.Violate("C17/hang:tiles", x.Err, nil)
	}
}

func mutating(name string) bool {
	switch name {
	case "SET", "FSET", "DEL", "PDEL", "DROP", "RENAME", "RENAMENX", "FLUSHDB", "EXPIRE", "PERSIST", "JSET", "JDEL", "SETHOOK", "SETCHAN", "DELHOOK", "DELCHAN", "PDELHOOK", "PDELCHAN", "EVAL", "EVALNA", "EVALSHA", "EVALNASHA", "SCRIPT FLUSH", "SCRIPT LOAD":
		return true
	}
	return false
}

// commands whose reply legitimately differs between two executions
var c17Volatile = map[string]bool{"TTL": true /* virtual time passes while a transport waits for the close */, "SERVER": true, "INFO": true, "STATS": false, "GC": true, "HEALTHZ": false, "CLIENT": true, "CONFIG": false, "TIMEOUT": false, "SLEEP": true}

// c17Norm: the document without "elapsed", keys sorted.
func c17Norm(body string) string {
	var v map[string]any
	if json.Unmarshal([]byte(body), &v) != nil {
		return "<unparsable> " + body
	}
	delete(v, "elapsed")
	b, _ := json.Marshal(v)
	return string(b)
}
