//go:build verif

package server

import (
	"github.com/tidwall/tile38/internal/collection"
	"github.com/tidwall/tile38/internal/object"
)

type collectionT = collection.Collection
type objectT = object.Object
