//go:build verif

package server

import "github.com/tidwall/tile38/internal/collection"

type collectionT = collection.Collection
