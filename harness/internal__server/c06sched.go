//go:build verif

package server

// c06sched (SCHED): a follower connecting to its leader while the leader rewrites
// its log - every schedule of the follower's replication thread, the leader's
// connection threads and the rewrite within the deviation bound. After the
// race the leader makes one more write; once the follower says caught_up (and
// the leader is quiescent) its dataset and log are the leader's.

import (
	"bytes"
	"fmt"
	"strings"
	stdtime "time"

	"github.com/tidwall/tile38/internal/vshim/vnet"
	"github.com/tidwall/tile38/internal/vshim/vsched"
)

type c06SchedParams struct {
	Name string `json:"name"`
	// Reconnect: the follower was caught up before; its link is cut while the rewrite starts
	Reconnect bool `json:"reconnect,omitempty"`
	// AtRequest: the rewrite is started (and the exploration begins) at the moment the
	// follower sends its request for the log, the last step of its handshake
	AtRequest bool `json:"at_request,omitempty"`
	// Big: the log exceeds one checksum window (512 KiB), so a reconnecting follower keeps
	// its copy and asks for the log from a position > 0; the rewrite makes the log shorter
	// than that position
	Big bool `json:"big,omitempty"`
}

func init() { checks["c06sched"] = checkC06Sched }

func c06SchedRun(job *Job, p c06SchedParams, prefix []int) (out schedOut) {
	x := runExec(job, freezeAllBut("follow", "Serve#2", "Serve#4"), func(x *Exec) {
		L := x.Start("L", x.dir+"/L", 9001, nil)
		F := x.Start("F", x.dir+"/F", 9002, nil)
		lc, fc := x.Dial(L.Addr), x.Dial(F.Addr)
		for i := 0; i < 5; i++ {
			lc.Do("SET", "lk", fmt.Sprintf("w%d", i), "FIELD", "n", fmt.Sprint(i), "POINT", "1", fmt.Sprint(i))
		}
		lc.Do("DEL", "lk", "w0") // the rewrite makes the log shorter
		lc.Do("SET", "lk", "w1", "POINT", "2", "2")
		if p.Big {
			big := strings.Repeat("0123456789", 30000)
			lc.Do("SET", "lk", "big", "STRING", big+"a")
			lc.Do("SET", "lk", "big", "STRING", big+"b")
			lc.Do("SET", "lk", "big", "STRING", big+"c")
		}
		caught := func() bool { return F.S.fcupflags.Peek()&bitCaughtUp != 0 }
		if p.Reconnect {
			fc.Do("FOLLOW", "127.0.0.1", "9001")
			ok := false
			for i := 0; i < 100 && !ok; i++ {
				vsched.Sleep(int64(100 * stdtime.Millisecond))
				vsched.Quiesce()
				ok = followerCaughtUp(fc)
			}
			if !ok {
				out.Err = "the follower did not catch up within 10 virtual seconds"
				return
			}
			lc.Do("SET", "lk", "w5", "POINT", "5", "5")
			vsched.Quiesce()
			for _, c := range vnet.All {
				if c.Owner == F.Name && !c.Closed() {
					c.Kill()
				}
			}
		} else {
			fc.c.Inject(respCmd("FOLLOW", "127.0.0.1", "9001"))
		}
		if p.AtRequest {
			armed := false
			vnet.OnAnyWrite = func(e *vnet.End, b []byte) {
				if !armed && e.Owner == F.Name && bytes.Contains(bytes.ToLower(b), []byte("$3\r\naof\r\n")) {
					armed = true
					lc.c.Inject(respCmd("AOFSHRINK"))
					vsched.Prefix = prefix
					vsched.Exploring = true
				}
			}
		} else {
			lc.c.Inject(respCmd("AOFSHRINK"))
			vsched.Prefix = prefix
			vsched.Exploring = true
		}
		vsched.WaitUntilOr(func() bool {
			return countReplies(lc) >= 1 && (p.Reconnect || countReplies(fc) >= 1) && !L.S.shrinking && vsched.AliveNamed("L", "aofshrink") == 0 && caught()
		}, int64(4*stdtime.Second))
		vsched.Quiesce()
		vsched.Exploring = false
		vnet.OnAnyWrite = nil
		out.Trace = append([]vsched.ChoicePoint(nil), vsched.Trace...)
		out.Diverged = vsched.Diverged
		if len(vsched.Crashes) > 0 {
			out.VSig, out.VDetail = "C06/server-crash:"+p.Name, vsched.Crashes[0].Value
			return
		}
		lc.ReadReply()
		if !p.Reconnect {
			fc.ReadReply()
		}
		// the leader moves on; then it is quiescent
		lc.Do("SET", "lk", "after", "POINT", "9", "9")
		ok := false
		for i := 0; i < 300 && !ok; i++ {
			vsched.Sleep(int64(100 * stdtime.Millisecond))
			vsched.Quiesce()
			ok = followerCaughtUp(fc)
		}
		if !ok {
			out.VSig, out.Obs = "C06/never-caught-up:"+p.Name, "NEVER"
			out.VDetail = fmt.Sprintf("the follower did not report caught_up within 30 virtual seconds after the leader's rewrite; SERVER: %v", asMap(fc.Do("SERVER")))
			return
		}
		vsched.Sleep(int64(300 * stdtime.Millisecond))
		vsched.Quiesce()
		ld, fd := fullDump(lc), fullDump(fc)
		la, fa := asMap(lc.Do("SERVER"))["aof_size"], asMap(fc.Do("SERVER"))["aof_size"]
		out.Obs = fmt.Sprintf("caught-up leader=%s follower=%s same=%v", la, fa, ld == fd)
		if ld != fd {
			out.VSig = "C06/dataset-differs:" + p.Name
			out.VDetail = fmt.Sprintf("the follower reports caught_up while the leader is quiescent; leader: %s ; follower: %s", vclip(ld, 300), vclip(fd, 300))
			return
		}
		if la != fa {
			out.VSig = "C06/aof-size-differs:" + p.Name
			out.VDetail = fmt.Sprintf("follower reports caught_up with aof_size %s, the leader's is %s", fa, la)
			return
		}
		if lm, fm := lc.Do("AOFMD5", "0", la).String(), fc.Do("AOFMD5", "0", fa).String(); lm != fm {
			out.VSig = "C06/log-differs:" + p.Name
			out.VDetail = fmt.Sprintf("AOFMD5 0 %s is %s on the leader and %s on the follower", la, lm, fm)
		}
	})
	if len(x.Crashes) > 0 && out.VSig == "" {
		out.VSig, out.VDetail = "C06/server-crash:"+p.Name, x.Crashes[0].Value
	} else if len(x.Err) >= 8 && x.Err[:8] == "deadlock" && out.VSig == "" {
		out.VSig, out.VDetail, out.Obs = "C06/deadlock:"+p.Name, x.Err, "DEADLOCK"
		out.Trace = append([]vsched.ChoicePoint(nil), vsched.Trace...)
	} else if x.Err != "" {
		out.Err = x.Err
	}
	return out
}

func checkC06Sched(job *Job, res *Result) {
	res.Rule = "SCHED: a follower's first connection (FOLLOW) and a follower's reconnect after a cut link, each racing an AOFSHRINK on the leader: every schedule of the follower's replication thread, the leader's connection threads and the rewrite with at most 1 (thorough 2) deviations from the default schedule, and - with the rewrite started at the moment the follower sends its request for the log - at most 2 (thorough 3); then one more leader write; oracle: the follower reports caught_up within 30 virtual seconds and then holds the leader's dataset, aof_size and log bytes; distinct = distinct (scenario, outcome)"
	res.Assumptions = append(res.Assumptions, "both servers in one process on the in-memory network, virtual time")
	if job.Replay != nil {
		replaySched(job, res, func(params []byte, sched []int) schedOut {
			var p c06SchedParams
			mustJSON(params, &p)
			return c06SchedRun(job, p, sched)
		})
		return
	}
	bound := 1
	if b, ok := job.Params["sbound"].(float64); ok {
		bound = int(b)
	}
	for _, p := range []c06SchedParams{{Name: "follow-vs-leader-shrink"}, {Name: "reconnect-vs-leader-shrink", Reconnect: true},
		{Name: "log-request-vs-leader-shrink", AtRequest: true}, {Name: "reconnect-log-request-vs-leader-shrink", Reconnect: true, AtRequest: true},
		{Name: "big-reconnect-log-request-vs-leader-shrink", Reconnect: true, AtRequest: true, Big: true}} {
		p := p
		bound := bound
		if p.AtRequest && !p.Big {
			bound++ // a narrow window: few threads are active from the request on
		}
		sc := schedScenario{Name: "c06." + p.Name, Params: p, Run: func(prefix []int) schedOut { return c06SchedRun(job, p, prefix) }, DevBound: true}
		st := exploreSched(job, res, sc, bound)
		res.Extra[sc.Name] = map[string]any{"execs": st.Execs, "outcomes": len(st.Outcomes), "max_choice_points": st.MaxPoints, "bound": bound}
		if res.EngineError != "" {
			return
		}
	}
}
