//go:build verif

package server

// Core of the verification harness: controlled execution wrapper, server
// instances, clients over the in-memory network, an independent RESP parser,
// the job / result plumbing shared by all checks.

import (
	"encoding/json"
	"fmt"
	"os"
	"path/filepath"
	stdruntime "runtime"
	"runtime/debug"
	"sort"
	"strconv"
	"strings"
	"testing"
	stdtime "time"

	"github.com/tidwall/tile38/internal/log"
	"github.com/tidwall/tile38/internal/vshim/vnet"
	"github.com/tidwall/tile38/internal/vshim/vos"
	"github.com/tidwall/tile38/internal/vshim/vsched"
)

// ---------------------------------------------------------------- job / result

type Job struct {
	Check   string          `json:"check"`
	Tier    string          `json:"tier"`
	Shard   int             `json:"shard"`
	NShards int             `json:"nshards"`
	Seed    int64           `json:"seed"`
	Out     string          `json:"out"`
	Scratch string          `json:"scratch"`
	Replay  json.RawMessage `json:"replay,omitempty"`
	Budget  float64         `json:"budget_s"` // soft wall-clock budget for this shard
	Params  map[string]any  `json:"params,omitempty"`
}

type Violation struct {
	Sig    string `json:"sig"`    // specific signature (known-findings key)
	Detail string `json:"detail"` // human readable
	Replay any    `json:"replay"` // scenario + parameters + schedule
}

type Result struct {
	Check       string         `json:"check"`
	Shard       int            `json:"shard"`
	States      int            `json:"states"`
	Transitions int            `json:"transitions"`
	Evaluations int            `json:"evaluations"`
	Validated   int            `json:"traces_validated_against_impl"`
	Exhaustive  bool           `json:"exhaustive"`
	Caps        []string       `json:"caps,omitempty"`
	Bounds      map[string]any `json:"bounds,omitempty"`
	Samples     []any          `json:"samples,omitempty"`
	Violations  []Violation    `json:"violations,omitempty"`
	Flaky       int            `json:"flaky_discarded"`
	Assumptions []string       `json:"assumptions,omitempty"`
	Rule        string         `json:"rule,omitempty"`
	Extra       map[string]any `json:"extra,omitempty"`
	EngineError string         `json:"engine_error,omitempty"`
	WallS       float64        `json:"wall_s"`

	distinct map[uint64]struct{} // distinct non-trivial observations (hashes)
	outcomes map[uint64]struct{}
	vseen    map[string]bool
	start    stdtime.Time
	job      *Job
}

func (r *Result) Distinct(h uint64) { r.distinct[h] = struct{}{} }
func (r *Result) DistinctS(s string) { r.distinct[fnv(s)] = struct{}{} }

func (r *Result) Sample(v any) {
	if len(r.Samples) < 6 {
		r.Samples = append(r.Samples, v)
	}
}

// Violate records a violation once per signature.
func (r *Result) Violate(sig, detail string, replay any) {
	if r.vseen[sig] {
		return
	}
	r.vseen[sig] = true
	if len(r.Violations) < 200 {
		r.Violations = append(r.Violations, Violation{Sig: sig, Detail: detail, Replay: replay})
	}
}

func (r *Result) OverBudget() bool {
	return r.job.Budget > 0 && stdtime.Since(r.start).Seconds() > r.job.Budget
}

func (r *Result) Cap(s string) {
	r.Exhaustive = false
	for _, c := range r.Caps {
		if c == s {
			return
		}
	}
	r.Caps = append(r.Caps, s)
}

func fnv(s string) uint64 {
	h := uint64(1469598103934665603)
	for i := 0; i < len(s); i++ {
		h ^= uint64(s[i])
		h *= 1099511628211
	}
	return h
}

type checkFn func(job *Job, res *Result)

var checks = map[string]checkFn{}

func TestVerif(t *testing.T) {
	jf := os.Getenv("VERIF_JOB")
	if jf == "" {
		t.Skip("no VERIF_JOB")
	}
	data, err := os.ReadFile(jf)
	if err != nil {
		t.Fatal(err)
	}
	var job Job
	if err := json.Unmarshal(data, &job); err != nil {
		t.Fatal(err)
	}
	if job.NShards == 0 {
		job.NShards = 1
	}
	log.SetOutput(vsched.LogTail)
	debug.SetGCPercent(400)
	res := &Result{Check: job.Check, Shard: job.Shard, Exhaustive: true,
		distinct: map[uint64]struct{}{}, outcomes: map[uint64]struct{}{}, vseen: map[string]bool{},
		start: stdtime.Now(), job: &job, Bounds: map[string]any{}, Extra: map[string]any{}}
	fn := checks[job.Check]
	if fn == nil {
		res.EngineError = "unknown check " + job.Check
	} else {
		func() {
			defer func() {
				if v := recover(); v != nil {
					res.EngineError = fmt.Sprintf("harness panic: %v\n%s", v, debug.Stack())
				}
			}()
			fn(&job, res)
		}()
	}
	res.WallS = stdtime.Since(res.start).Seconds()
	out, _ := json.Marshal(res)
	if err := os.WriteFile(job.Out, out, 0644); err != nil {
		t.Fatal(err)
	}
	// distinct hashes as a binary side file (driver takes the union over shards)
	hs := make([]uint64, 0, len(res.distinct))
	for h := range res.distinct {
		hs = append(hs, h)
	}
	sort.Slice(hs, func(i, j int) bool { return hs[i] < hs[j] })
	b := make([]byte, 0, 8*len(hs))
	for _, h := range hs {
		for k := 0; k < 8; k++ {
			b = append(b, byte(h>>(8*k)))
		}
	}
	os.WriteFile(job.Out+".distinct", b, 0644)
	os.RemoveAll(job.Scratch)
}

// ---------------------------------------------------------------- executions

var execCounter int

type Exec struct {
	job     *Job
	dir     string // scratch root of this execution
	insts   []*Inst
	Err     string // deadlock / harness failure (not a property verdict)
	Crashes []vsched.Crash
}

// frozenDefault freezes every polling loop Serve starts; scenarios thaw by name.
var pollers = map[string]string{}

func init() {
	// spawn sites are identified at run time by function behaviour, not line
	// numbers: see siteOf().  (Filled lazily.)
}

// runExec runs body as the harness thread of a fresh controlled execution.
// frozen decides which spawn sites are frozen.  It always tears down.
func runExec(job *Job, frozen func(name string) bool, body func(x *Exec)) (x *Exec) {
	execCounter++
	x = &Exec{job: job, dir: filepath.Join(job.Scratch, fmt.Sprintf("x%d", execCounter%4))}
	os.RemoveAll(x.dir)
	os.MkdirAll(x.dir, 0700)
	vsched.Reset()
	vnet.ResetAll()
	vos.Reset()
	memStatsMu = syncMutexZero
	memStatsBG = false
	vsched.Frozen = frozen
	vsched.Attach("harness")
	func() {
		defer func() {
			if v := recover(); v != nil {
				if d, ok := vsched.IsDeadlock(v); ok {
					x.Err = "deadlock: " + d
				} else {
					x.Err = fmt.Sprintf("harness panic: %v\n%s", v, debug.Stack())
				}
			}
		}()
		body(x)
	}()
	x.Crashes = append(x.Crashes, vsched.Crashes...)
	captured := vsched.Captured
	vsched.Finish()
	for _, c := range captured {
		if s, ok := c.(*Server); ok {
			if s.qdb != nil {
				s.qdb.Close()
			}
			if s.aof != nil {
				s.aof.RealClose()
			}
			if s.luapool != nil {
				func() { defer func() { recover() }(); s.luapool.Shutdown() }()
			}
		}
	}
	return x
}

// freezeAllBut returns a Frozen predicate that freezes every thread that
// sleeps, except those whose spawn site matches one of keep (prefix match on
// "file.go:" or exact "file.go:line") and except harness-created threads.
func freezeAllBut(keep ...string) func(string) bool {
	return func(name string) bool {
		if strings.HasPrefix(name, "h:") {
			return false
		}
		for _, k := range keep {
			if name == k || (strings.HasSuffix(k, ":") && strings.HasPrefix(name, k)) {
				return false
			}
		}
		return true
	}
}

// ---------------------------------------------------------------- instances

type Inst struct {
	x        *Exec
	Name     string
	Dir      string
	Addr     string
	Port     int
	shutdown chan bool
	exited   bool
	err      error
	S        *Server
	opts     Options
}

var nextPortBase = 9000

// Start starts a real server (Serve) as a thread group and waits until it
// accepts connections and reports loaded.
func (x *Exec) Start(name, dir string, port int, mod func(o *Options)) *Inst {
	in := &Inst{x: x, Name: name, Dir: dir, Port: port, Addr: fmt.Sprintf("127.0.0.1:%d", port), shutdown: make(chan bool, 1)}
	in.opts = Options{Host: "127.0.0.1", Port: port, Dir: dir, AppendOnly: true, Shutdown: in.shutdown,
		UseHTTP: true, QueueFileName: ":memory:"}
	if mod != nil {
		mod(&in.opts)
	}
	in.Addr = fmt.Sprintf("%s:%d", in.opts.Host, in.opts.Port)
	ncap := len(vsched.Captured)
	vsched.GoGroup(name, name+":serve", func() {
		in.err = Serve(in.opts)
		in.exited = true
	})
	ok := vsched.WaitUntilOr(func() bool {
		if in.exited {
			return true
		}
		if len(vsched.Captured) > ncap && in.S == nil {
			in.S, _ = vsched.Captured[ncap].(*Server)
		}
		return in.S != nil && vnet.Listening(in.Addr) && in.S.loadedAndReady.Peek()
	}, int64(600*stdtime.Second))
	if !ok || in.exited {
		panic(fmt.Sprintf("server %s did not start: exited=%v err=%v threads=%s", name, in.exited, in.err, vsched.Dump()))
	}
	x.insts = append(x.insts, in)
	return in
}

// TryStart is Start but reports failure instead of panicking (C04: start on a
// damaged log may legitimately be the thing under test).
func (x *Exec) TryStart(name, dir string, port int, mod func(o *Options)) (in *Inst, err error) {
	defer func() {
		if v := recover(); v != nil {
			if _, ok := vsched.IsDeadlock(v); ok {
				panic(v)
			}
			err = fmt.Errorf("%v", v)
		}
	}()
	return x.Start(name, dir, port, mod), nil
}

// Stop shuts the instance down through the real shutdown path.
func (in *Inst) Stop() {
	vsched.Thawed[in.Name] = true
	vsched.Send(in.shutdown, true)
	ok := vsched.WaitUntilOr(func() bool { return in.exited }, int64(600*stdtime.Second))
	if !ok {
		panic("server " + in.Name + " did not stop: " + vsched.Dump())
	}
	// let stragglers (connection handlers observing EOF) finish
	vsched.Quiesce()
	vsched.Thawed[in.Name] = false
}

// StopProcess models a process that is told to stop and then exits: the real
// shutdown path runs, and connections the instance itself dialed (a follower's
// replication link, which the shutdown path does not close and which has no
// read deadline) are closed the way the operating system closes a dead
// process's sockets.
func (in *Inst) StopProcess() {
	vsched.Thawed[in.Name] = true
	vsched.Send(in.shutdown, true)
	if !vsched.WaitUntilOr(func() bool { return in.exited }, int64(2*stdtime.Second)) {
		for _, c := range vnet.All {
			if c.Owner == in.Name && !c.Closed() {
				c.Kill()
			}
		}
		if !vsched.WaitUntilOr(func() bool { return in.exited }, int64(600*stdtime.Second)) {
			panic("server " + in.Name + " did not stop: " + vsched.Dump())
		}
	}
	vsched.Quiesce()
	vsched.Thawed[in.Name] = false
}

// rwm returns the vsync.RWMutex behind Server.mu (nil for the spinlock).
func (in *Inst) lockState() (exclusive bool, writer int, readers int) {
	switch l := in.S.mu.(type) {
	case *rwmutex:
		return l.mu.HeldExclusive(), l.mu.Writer, l.mu.ReaderCount()
	case *rwspinlock:
		v := l.state.Peek()
		return v < 0, -1, int(max(v, 0))
	}
	return false, -1, 0
}

// ---------------------------------------------------------------- RESP

type rv struct {
	K    byte // + - : $ * ; 0 = null
	S    string
	A    []rv
	Null bool
}

func (v rv) String() string {
	switch v.K {
	case '+':
		return "+" + v.S
	case '-':
		return "-" + v.S
	case ':':
		return ":" + v.S
	case '$':
		if v.Null {
			return "<nil>"
		}
		return strconv.Quote(v.S)
	case '*':
		if v.Null {
			return "<nilarr>"
		}
		parts := make([]string, len(v.A))
		for i, a := range v.A {
			parts[i] = a.String()
		}
		return "[" + strings.Join(parts, " ") + "]"
	}
	return "?"
}

func (v rv) IsErr() bool { return v.K == '-' }

// parseRESP parses one value; ok=false means incomplete; err means malformed.
func parseRESP(b []byte) (v rv, rest []byte, ok bool, err error) {
	if len(b) == 0 {
		return v, b, false, nil
	}
	i := 0
	for ; i+1 < len(b); i++ {
		if b[i] == '\r' && b[i+1] == '\n' {
			break
		}
	}
	if i+1 >= len(b) {
		return v, b, false, nil
	}
	line := string(b[1:i])
	rest = b[i+2:]
	switch b[0] {
	case '+', '-', ':':
		if b[0] == ':' {
			if _, e := strconv.ParseInt(line, 10, 64); e != nil {
				return v, b, false, fmt.Errorf("bad integer %q", line)
			}
		}
		return rv{K: b[0], S: line}, rest, true, nil
	case '$':
		n, e := strconv.Atoi(line)
		if e != nil || n < -1 {
			return v, b, false, fmt.Errorf("bad bulk length %q", line)
		}
		if n == -1 {
			return rv{K: '$', Null: true}, rest, true, nil
		}
		if len(rest) < n+2 {
			return v, b, false, nil
		}
		if rest[n] != '\r' || rest[n+1] != '\n' {
			return v, b, false, fmt.Errorf("bulk not terminated")
		}
		return rv{K: '$', S: string(rest[:n])}, rest[n+2:], true, nil
	case '*':
		n, e := strconv.Atoi(line)
		if e != nil || n < -1 {
			return v, b, false, fmt.Errorf("bad array length %q", line)
		}
		if n == -1 {
			return rv{K: '*', Null: true}, rest, true, nil
		}
		out := rv{K: '*', A: make([]rv, 0, n)}
		for k := 0; k < n; k++ {
			e, r2, ok, err := parseRESP(rest)
			if err != nil || !ok {
				return v, b, ok, err
			}
			out.A = append(out.A, e)
			rest = r2
		}
		return out, rest, true, nil
	}
	return v, b, false, fmt.Errorf("bad type byte %q", b[0])
}

func respCmd(args ...string) []byte {
	var b []byte
	b = append(b, '*')
	b = strconv.AppendInt(b, int64(len(args)), 10)
	b = append(b, '\r', '\n')
	for _, a := range args {
		b = append(b, '$')
		b = strconv.AppendInt(b, int64(len(a)), 10)
		b = append(b, '\r', '\n')
		b = append(b, a...)
		b = append(b, '\r', '\n')
	}
	return b
}

// ---------------------------------------------------------------- client

type Cli struct {
	c   *vnet.End
	buf []byte
}

func (x *Exec) Dial(addr string) *Cli { return x.DialFrom(addr, "") }

func (x *Exec) DialFrom(addr, from string) *Cli {
	c, err := vnet.Dial(addr, from)
	if err != nil {
		panic("dial " + addr + ": " + err.Error())
	}
	return &Cli{c: c}
}

const ioTimeout = int64(120 * stdtime.Second) // virtual

// fill waits for more bytes; false on EOF/timeout.
func (c *Cli) fill() bool {
	ok := vsched.WaitUntilOr(func() bool { return c.c.Avail() > 0 || c.c.EOF() }, ioTimeout)
	if !ok || c.c.Avail() == 0 {
		return false
	}
	c.buf = append(c.buf, c.c.Drain()...)
	return true
}

// Send writes raw bytes as one segment.
func (c *Cli) Send(b []byte) { c.c.Write(b) }

// ReadReply reads one RESP value.
func (c *Cli) ReadReply() (rv, error) {
	for {
		v, rest, ok, err := parseRESP(c.buf)
		if err != nil {
			return v, fmt.Errorf("malformed RESP: %v in %q", err, vclip(string(c.buf), 200))
		}
		if ok {
			c.buf = append(c.buf[:0], rest...)
			return v, nil
		}
		if !c.fill() {
			return v, fmt.Errorf("no reply (eof/timeout), have %q", vclip(string(c.buf), 200))
		}
	}
}

// Do sends one command (RESP array) and reads its reply.
func (c *Cli) Do(args ...string) rv {
	c.Send(respCmd(args...))
	v, err := c.ReadReply()
	if err != nil {
		return rv{K: '!', S: err.Error()}
	}
	return v
}

// DoS is Do with the arguments split on spaces (no quoting).
func (c *Cli) DoS(cmd string) rv { return c.Do(strings.Fields(cmd)...) }

func (c *Cli) Close() { c.c.Close() }

func vclip(s string, n int) string {
	if len(s) > n {
		return s[:n] + "…"
	}
	return s
}

func sortedKeys[M ~map[string]V, V any](m M) []string {
	ks := make([]string, 0, len(m))
	for k := range m {
		ks = append(ks, k)
	}
	sort.Strings(ks)
	return ks
}

type jsonRaw = json.RawMessage

func mustJSON(b []byte, v any) {
	if err := json.Unmarshal(b, v); err != nil {
		panic("bad json: " + err.Error())
	}
}

// blockedStacks: the stacks of the goroutines that are inside tile38 server code
// (for deadlock / no-reply reports).
func blockedStacks() string {
	buf := make([]byte, 4<<20)
	buf = buf[:stdruntime.Stack(buf, true)]
	var sb strings.Builder
	for _, g := range strings.Split(string(buf), "\n\n") {
		if !strings.Contains(g, "internal/server.") || strings.Contains(g, "blockedStacks") {
			continue
		}
		var keep []string
		for _, l := range strings.Split(g, "\n") {
			if strings.HasPrefix(l, "goroutine ") || (strings.Contains(l, "tile38/internal/") && !strings.Contains(l, "vshim/vsched.") && !strings.HasPrefix(l, "\t")) {
				keep = append(keep, strings.TrimSpace(l))
			} else if strings.HasPrefix(l, "\t") && strings.Contains(l, "/repo/internal/server/") && !strings.Contains(l, "zz_verif") {
				keep = append(keep, "    "+strings.TrimSpace(l))
			}
		}
		sb.WriteString("\n" + strings.Join(keep, "\n"))
	}
	return sb.String()
}

// Pending records, before an input is handed to the server, the violation to
// report if the process does not survive it: a fatal runtime error (out of
// memory, stack overflow) cannot be recovered, and a server thread that spins
// for real stops the whole cooperative scheduler.  The driver turns a shard
// that died with a pending record into that violation; a real-time watchdog
// ends a spinning shard after a minute instead of waiting for the shard timeout.
func (r *Result) Pending(sig, detail string, replay any) (done func()) {
	f := r.job.Out + ".pending"
	b, _ := json.Marshal(map[string]any{"sig": sig, "detail": detail, "replay": replay})
	os.WriteFile(f, b, 0644)
	t := stdtime.AfterFunc(60*stdtime.Second, func() {
		fmt.Fprintf(os.Stderr, "verif watchdog: no progress for 60 s of real time while handling: %s\n", detail)
		os.Exit(3)
	})
	return func() {
		t.Stop()
		os.Remove(f)
	}
}
