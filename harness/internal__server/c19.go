//go:build verif

package server

// C19 - counters, bounds and every access path agree with the retrievable
// dataset.  The SEQ explorer enumerates update histories (kind-changing
// overwrites, deadline / size changes, renames, drops); in every reached state
// the expectations are recomputed from what SCAN + GET actually return (not
// from the model, so a C01 defect cannot raise a C19 alarm).

import (
	"fmt"
	"math"
	"sort"
	"strconv"
	"strings"

	"github.com/tidwall/geojson"
)

func init() { checks["c19"] = checkC19 }

func c19Alphabet(tier string) []seqSym {
	a := []seqSym{
		sy("SET", "k1", "a", "POINT", "33.000000123", "-115.00000987"),
		sy("SET", "k1", "b", "POINT", "33.000000123", "-115.00000988"),
		sy("SET", "k1", "s", "POINT", "32", "-114"), // makes the near-duplicate pair extreme in one axis only
		sy("SET", "k1", "n", "POINT", "NaN", "1"),
		sy("SET", "k1", "n", "BOUNDS", "1", "2", "+Inf", "4"),
		sy("SET", "k1", "a", "STRING", "hello"),
		sy("SET", "k1", "b", "STRING", `{"x":1}`),
		sy("SET", "k1", "a", "OBJECT", gEmpty),
		sy("SET", "k1", "a", "OBJECT", gPoly),
		sy("SET", "k1", "b", "OBJECT", gFeature),
		sy("SET", "k1", "a", "BOUNDS", "1", "2", "3", "4"),
		sy("SET", "k1", "a", "EX", "100", "STRING", "v2"),
		sy("SET", "k1", "a", "EX", "100", "POINT", "5", "5"),
		sy("SET", "k1", "a", "EX", "-3000000000", "POINT", "5", "5"), // a deadline before 1970: negative, not "none"
		sy("EXPIRE", "k1", "b", "-3000000000"),
		sy("SET", "k1", "b", "FIELD", "f", "1", "FIELD", "g", "a-longer-string-value", "POINT", "3", "4"),
		sy("SET", "k2", "a", "OBJECT", gLine),
		sy("SET", "k3", "x", "XX", "POINT", "1", "1"), // refused: must leave nothing behind
		sy("SET", "k1", "a", "NX", "POINT", "9", "9"),
		sy("FSET", "k1", "a", "f", "5"),
		sy("FSET", "k1", "b", "g", "0"),
		sy("EXPIRE", "k1", "a", "100"),
		sy("EXPIRE", "k1", "a", "200"), // a second, different deadline (virtual time does not advance between commands)
		sy("PERSIST", "k1", "a"),
		sy("DEL", "k1", "a"),
		sy("DEL", "k1", "b"),
		sy("PDEL", "k1", "*"),
		sy("DROP", "k1"),
		sy("RENAME", "k1", "k2"),
		sy("RENAME", "k2", "k1"),
		sy("RENAMENX", "k1", "k2"),
		sy("FLUSHDB"),
		sy("JSET", "k1", "a", "x", "1"),
		sy("JSET", "k3", "x", "", "1"), // refused (empty path) on a key that does not exist: must leave nothing behind
		sy("JDEL", "k1", "a", "x"),
	}
	if tier == "thorough" {
		a = append(a,
			sy("SET", "k2", "b", "STRING", "hello"),
			sy("SET", "k2", "a", "EX", "100", "OBJECT", gEmpty),
			sy("SET", "k1", "c", "POINT", "-90", "180"),
			sy("SET", "k1", "a", "OBJECT", `{"type":"MultiPoint","coordinates":[[1,1],[2,2],[3,3]]}`),
			sy("DEL", "k2", "a"),
			sy("PDEL", "k1", "b*"),
			sy("DROP", "k2"),
		)
	}
	return a
}

type c19Obj struct {
	id, val string
	nfields int
}

func asMap(v rv) map[string]string {
	m := map[string]string{}
	for i := 0; i+1 < len(v.A); i += 2 {
		m[v.A[i].S] = v.A[i+1].S
	}
	return m
}

func idsOf(v rv) ([]string, bool) {
	if v.K != '*' || len(v.A) != 2 || v.A[1].K != '*' {
		return nil, false
	}
	var out []string
	for _, e := range v.A[1].A {
		out = append(out, e.S)
	}
	return out, true
}

func sameSet(a, b []string) bool {
	a, b = append([]string(nil), a...), append([]string(nil), b...)
	sort.Strings(a)
	sort.Strings(b)
	return strings.Join(a, "\x00") == strings.Join(b, "\x00")
}

// isRectPolygon: 5-point axis-aligned closed ring (what BOUNDS prints as).
func isRectPolygon(g geojson.Object) bool {
	p, ok := g.(*geojson.Polygon)
	if !ok || p.NumPoints() != 5 {
		return false
	}
	r := p.Rect()
	return strings.Contains(p.String(), fmt.Sprintf("[[[%s,%s],[%s,%s],[%s,%s],[%s,%s],[%s,%s]]]",
		fnum(r.Min.X), fnum(r.Min.Y), fnum(r.Max.X), fnum(r.Min.Y), fnum(r.Max.X), fnum(r.Max.Y), fnum(r.Min.X), fnum(r.Max.Y), fnum(r.Min.X), fnum(r.Min.Y)))
}

func c19AtState(x *Exec, in *Inst, c *Cli, _ *mState) (out [][2]string) {
	add := func(sig, detail string) { out = append(out, [2]string{sig, detail}) }
	keys := c.Do("KEYS", "*")
	if keys.K != '*' {
		add("keys", "KEYS * -> "+keys.String())
		return
	}
	totObjects, totStrings, totCols := 0, 0, 0
	totPtsMin, totPtsMax, totSize := 0, 0, 0
	for _, kv := range keys.A {
		key := kv.S
		totCols++
		sc := c.Do("SCAN", key, "LIMIT", "1000000")
		if sc.K != '*' || len(sc.A) != 2 {
			add("scan", "SCAN -> "+sc.String())
			continue
		}
		var all, strs, geoms []string
		ptsMin, ptsMax := 0, 0
		var bminx, bminy, bmaxx, bmaxy float64
		first := true
		type gi struct {
			id string
			r  [4]float64
		}
		var gis []gi
		for _, it := range sc.A[1].A {
			id, val := it.A[0].S, it.A[1].S
			all = append(all, id)
			g := c.Do("GET", key, id)
			if g.K != '$' || g.Null || g.S != val {
				add("access-path:get-vs-scan", fmt.Sprintf("SCAN %s lists %s=%s but GET returns %s", key, id, val, g))
			}
			obj, err := geojson.Parse(val, nil)
			if err != nil || !strings.HasPrefix(val, `{"type"`) {
				strs = append(strs, id)
				continue
			}
			np := obj.NumPoints()
			ptsMax += np
			if isRectPolygon(obj) {
				ptsMin += 2
			} else {
				ptsMin += np
			}
			if obj.Empty() {
				continue
			}
			geoms = append(geoms, id)
			r := obj.Rect()
			gis = append(gis, gi{id, [4]float64{r.Min.X, r.Min.Y, r.Max.X, r.Max.Y}})
			if first {
				bminx, bminy, bmaxx, bmaxy = r.Min.X, r.Min.Y, r.Max.X, r.Max.Y
				first = false
			} else {
				bminx, bminy = math.Min(bminx, r.Min.X), math.Min(bminy, r.Min.Y)
				bmaxx, bmaxy = math.Max(bmaxx, r.Max.X), math.Max(bmaxy, r.Max.Y)
			}
		}
		if len(all) == 0 {
			add("empty-collection-listed", "KEYS lists "+key+" but SCAN returns no object")
		}
		totObjects += len(all)
		totStrings += len(strs)
		totPtsMin += ptsMin
		totPtsMax += ptsMax
		// STATS
		st := c.Do("STATS", key)
		if st.K != '*' || len(st.A) != 1 || st.A[0].K != '*' {
			add("stats", "STATS "+key+" -> "+st.String())
		} else {
			m := asMap(st.A[0])
			if m["num_objects"] != strconv.Itoa(len(all)) {
				add("stats:num_objects", fmt.Sprintf("STATS %s num_objects=%s, retrievable objects: %d %v", key, m["num_objects"], len(all), all))
			}
			if m["num_strings"] != strconv.Itoa(len(strs)) {
				add("stats:num_strings", fmt.Sprintf("STATS %s num_strings=%s, retrievable strings: %d %v", key, m["num_strings"], len(strs), strs))
			}
			np, _ := strconv.Atoi(m["num_points"])
			if np < ptsMin || np > ptsMax {
				add("stats:num_points", fmt.Sprintf("STATS %s num_points=%s, recomputed %d..%d", key, m["num_points"], ptsMin, ptsMax))
			}
			sz, _ := strconv.Atoi(m["in_memory_size"])
			if sz <= 0 && len(all) > 0 {
				add("stats:in_memory_size", fmt.Sprintf("STATS %s in_memory_size=%s for %d objects", key, m["in_memory_size"], len(all)))
			}
			totSize += sz
		}
		// counts
		if v := c.Do("SCAN", key, "COUNT"); v.String() != ":"+strconv.Itoa(len(all)) {
			add("count:scan", fmt.Sprintf("SCAN %s COUNT -> %s, SCAN lists %d", key, v, len(all)))
		}
		if v := c.Do("SEARCH", key, "COUNT"); v.String() != ":"+strconv.Itoa(len(strs)) {
			add("count:search", fmt.Sprintf("SEARCH %s COUNT -> %s, retrievable strings: %d (objects: %d)", key, v, len(strs), len(all)))
		}
		// access paths
		if ids, ok := idsOf(c.Do("SCAN", key, "LIMIT", "1000000", "IDS")); !ok || !sameSet(ids, all) {
			add("access-path:scan-ids", fmt.Sprintf("SCAN %s IDS -> %v, want %v", key, ids, all))
		}
		if ids, ok := idsOf(c.Do("SEARCH", key, "LIMIT", "1000000", "IDS")); !ok || !sameSet(ids, strs) {
			add("access-path:search", fmt.Sprintf("SEARCH %s IDS -> %v, retrievable strings %v", key, ids, strs))
		}
		// ranges: several literal prefixes, both directions (ids for SCAN, values for SEARCH)
		vals := map[string]string{}
		for _, it := range sc.A[1].A {
			vals[it.A[0].S] = it.A[1].S
		}
		for _, ord := range []string{"ASC", "DESC"} {
			var wantIDs, wantStrs []string
			for _, id := range all {
				if strings.HasPrefix(id, "a") || strings.HasPrefix(id, "b") {
					wantIDs = append(wantIDs, id)
				}
			}
			for _, id := range strs {
				if strings.HasPrefix(vals[id], "h") || strings.HasPrefix(vals[id], "v") || strings.HasPrefix(vals[id], "{") {
					wantStrs = append(wantStrs, id)
				}
			}
			if ids, ok := idsOf(c.Do("SCAN", key, "LIMIT", "1000000", "MATCH", "a*", "MATCH", "b*", ord, "IDS")); !ok || !sameSet(ids, wantIDs) {
				add("access-path:scan-prefix-ranges:"+strings.ToLower(ord), fmt.Sprintf("SCAN %s MATCH a* MATCH b* %s IDS -> %v, retrievable ids with these prefixes %v", key, ord, ids, wantIDs))
			}
			if v := c.Do("SCAN", key, "MATCH", "a*", "MATCH", "b*", ord, "COUNT"); v.String() != ":"+strconv.Itoa(len(wantIDs)) {
				add("count:scan-prefix-ranges:"+strings.ToLower(ord), fmt.Sprintf("SCAN %s MATCH a* MATCH b* %s COUNT -> %s, retrievable ids with these prefixes: %d", key, ord, v, len(wantIDs)))
			}
			if ids, ok := idsOf(c.Do("SEARCH", key, "LIMIT", "1000000", "MATCH", "h*", "MATCH", "v*", "MATCH", "{*", ord, "IDS")); !ok || !sameSet(ids, wantStrs) {
				add("access-path:search-prefix-ranges:"+strings.ToLower(ord), fmt.Sprintf("SEARCH %s MATCH h* MATCH v* MATCH {* %s IDS -> %v, retrievable strings with these value prefixes %v", key, ord, ids, wantStrs))
			}
		}
		for _, q := range [][]string{{"INTERSECTS", key, "LIMIT", "1000000", "IDS", "BOUNDS", "-90", "-180", "90", "180"},
			{"WITHIN", key, "LIMIT", "1000000", "IDS", "BOUNDS", "-90", "-180", "90", "180"},
			{"NEARBY", key, "LIMIT", "1000000", "IDS", "POINT", "0", "0"}} {
			if ids, ok := idsOf(c.Do(q...)); !ok || !sameSet(ids, geoms) {
				add("access-path:"+strings.ToLower(q[0]), fmt.Sprintf("%s -> %v, retrievable non-empty geometries %v", strings.Join(q, " "), ids, geoms))
			}
		}
		for _, g := range gis {
			q := []string{"INTERSECTS", key, "LIMIT", "1000000", "IDS", "BOUNDS", fnum(g.r[1]), fnum(g.r[0]), fnum(g.r[3]), fnum(g.r[2])}
			ids, ok := idsOf(c.Do(q...))
			found := false
			for _, id := range ids {
				found = found || id == g.id
			}
			if !ok || !found {
				add("access-path:own-bbox", fmt.Sprintf("%s does not return %s whose bounding box it is (got %v)", strings.Join(q, " "), g.id, ids))
			}
		}
		// BOUNDS
		b := c.Do("BOUNDS", key)
		want := fmt.Sprintf(`[["%s" "%s"] ["%s" "%s"]]`, fnum(bminx), fnum(bminy), fnum(bmaxx), fnum(bmaxy))
		if b.String() != want {
			sig := "bounds:wrong"
			if b.K == '*' && len(b.A) == 2 && len(b.A[0].A) == 2 && len(b.A[1].A) == 2 {
				w := [4]float64{bminx, bminy, bmaxx, bmaxy}
				same32 := true
				for i, e := range []rv{b.A[0].A[0], b.A[0].A[1], b.A[1].A[0], b.A[1].A[1]} {
					f, err := strconv.ParseFloat(e.S, 64)
					if err != nil || float32(f) != float32(w[i]) {
						same32 = false
					}
				}
				if same32 {
					sig = "bounds:off-by-less-than-float32-resolution"
				}
			}
			add(sig, fmt.Sprintf("BOUNDS %s -> %s, recomputed from retrievable geometries %s", key, b, want))
		}
	}
	sv := c.Do("SERVER")
	m := asMap(sv)
	for _, e := range []struct {
		name string
		want int
	}{{"num_collections", totCols}, {"num_objects", totObjects}, {"num_strings", totStrings}, {"in_memory_size", totSize}} {
		if m[e.name] != strconv.Itoa(e.want) {
			add("server:"+e.name, fmt.Sprintf("SERVER %s=%s, recomputed %d", e.name, m[e.name], e.want))
		}
	}
	np, _ := strconv.Atoi(m["num_points"])
	if np < totPtsMin || np > totPtsMax {
		add("server:num_points", fmt.Sprintf("SERVER num_points=%s, recomputed %d..%d", m["num_points"], totPtsMin, totPtsMax))
	}
	if v := c.Do("STATS", "nokey"); v.String() != "[<nil>]" {
		add("stats:absent", "STATS nokey -> "+v.String())
	}
	return
}

func checkC19(job *Job, res *Result) {
	res.Rule = "SEQ: BFS over update histories (kind/size/deadline-changing overwrites, renames, drops) deduplicated on the reference model; in every reached state STATS/SERVER/BOUNDS/COUNT and each access path are compared with a recomputation from the objects SCAN+GET return, plus the in-package index/counter audit; distinct = distinct (model state, reply) pairs"
	res.Assumptions = append(res.Assumptions,
		"num_points of an axis-aligned 5-point polygon may be 2 (BOUNDS keeps a rectangle) or 5: both accepted",
		"in_memory_size is audited in-package against the sum of object weights and from outside only for SERVER = sum of STATS; all polling loops frozen")
	depth := 3
	if d, ok := job.Params["depth"].(float64); ok {
		depth = int(d)
	}
	runSeqCheckOpt(job, res, "C19", c19Alphabet(job.Tier), depth, seqHooks{AtState: c19AtState}, true)
}
