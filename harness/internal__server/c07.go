//go:build verif

package server

// C07 - concurrent clients see one serial order, and it is the order in the log.
//
// Part c07 (SCHED): 2-3 connections with 1-2 commands each on colliding keys
// are released together; all schedules up to the preemption bound are executed
// on the real server.  Oracle per execution: brute-force linearizability of the
// recorded replies against the reference model (multi-object commands and
// scripts are single steps), final visible state = model state of that
// linearization, and the order of the commands in appendonly.aof = the order of
// the writes in that linearization.  A step-level lock-discipline monitor
// watches every scheduling point.
// Part c07lock (SEQ): every command of the catalogue, from a populated state;
// the internal state may change only while Server.mu was held exclusively.

import (
	"bytes"
	"fmt"
	"path/filepath"
	"sort"
	"strings"
	stdtime "time"

	"github.com/tidwall/tile38/internal/vshim/vos"
	"github.com/tidwall/tile38/internal/vshim/vsched"
)

func init() {
	checks["c07"] = checkC07
	checks["c07lock"] = checkC07Lock
}

type c07Params struct {
	Name   string       `json:"name"`
	Pre    [][]string   `json:"pre"`
	Conns  [][][]string `json:"conns"`
	After  map[int]int  `json:"after,omitempty"` // conn -> conn whose first reply releases it
	Model  map[string][][]string `json:"model,omitempty"` // "conn.cmd" -> model commands (scripts)
	NonAtomic map[string]bool    `json:"nonatomic,omitempty"` // "conn.cmd" -> each model command is its own step (EVALNA)
	Live   bool         `json:"live,omitempty"`  // a live fence connection on key k participates
	Expire bool         `json:"expire,omitempty"`
	Spin   bool         `json:"spinlock,omitempty"`
	// Shrink: an AOFSHRINK runs concurrently with the commands; the rewrite
	// re-encodes the log, so log positions are not compared; instead the
	// reported log size must be the file's size, no command may be in the file
	// twice, and a restart must reproduce the final state
	Shrink bool `json:"shrink,omitempty"`
	// QuickBound: preemption bound of this scenario in the quick tier (0 = the tier's bound)
	QuickBound int `json:"quick_bound,omitempty"`
	// ThoroughBound: preemption bound of this scenario in the thorough tier (0 = the tier's bound);
	// for scenarios with many threads, so that they do not use up the budget of the ones after them
	ThoroughBound int `json:"thorough_bound,omitempty"`
	Prop   string       `json:"prop,omitempty"` // property the scenario reports under (default C07)
	// Fine: every function entry of a server thread is a scheduling point (state
	// shared without a synchronisation operation between the conflicting accesses)
	Fine bool `json:"fine,omitempty"`
	// LiveDels: the live fence connection must be told of every logged DEL on key k
	// (explicit or the sweeper's), once each, with the right id, in log order
	LiveDels bool `json:"live_dels,omitempty"`
}

func (p c07Params) prop() string {
	if p.Prop != "" {
		return p.Prop
	}
	return "C07"
}

type c07Op struct {
	conn, idx int
	sub       int // position inside a non-atomic script
	args      []string
	model     [][]string
	reply     rv
	done      bool
	anyReply  bool // no reply is observed for this step (inner call of a non-atomic script)
	silent    bool // not a wire command (does not consume a reply)
}

func (o *c07Op) apply(st *mState) string {
	if o.model != nil {
		for _, c := range o.model {
			mApply(st, c)
		}
		return "~any"
	}
	return mApply(st, o.args)
}

// logKey: the bytes by which a write of this op is recognised in the log.
func (o *c07Op) logKeys() [][]byte {
	if o.model != nil {
		var out [][]byte
		for _, c := range o.model {
			out = append(out, respCmd(c...))
		}
		return out
	}
	return [][]byte{respCmd(o.args...)}
}

// fingerprint cheap enough for every scheduling point.
func (in *Inst) cheapFP() string {
	s := in.S
	var sb strings.Builder
	s.cols.Scan(func(k string, c *collectionT) bool {
		fmt.Fprintf(&sb, "%s:%d:%d:%d;", k, c.Count(), c.StringCount(), c.PointCount())
		return true
	})
	fmt.Fprintf(&sb, "h%d,%d,%d,%d,g%d,%d,e%d", s.hooks.Len(), s.hooksOut.Len(), s.hookTree.Len(), s.hookCross.Len(),
		s.groupHooks.Len(), s.groupObjects.Len(), s.hookExpires.Len())
	return sb.String()
}

func c07Run(job *Job, p c07Params, prefix []int) (out schedOut) {
	keep := []string{}
	if p.Expire {
		keep = append(keep, "backgroundExpiring")
	}
	x := runExec(job, freezeAllBut(keep...), func(x *Exec) {
		in := x.Start("L", x.dir+"/L", 9001, func(o *Options) { o.Spinlock = p.Spin })
		aofPath := filepath.Clean(filepath.Join(in.Dir, "appendonly.aof"))
		c0 := x.Dial(in.Addr)
		for _, cmd := range p.Pre {
			c0.Do(cmd...)
		}
		base := newMState()
		for _, cmd := range p.Pre {
			mApply(base, cmd)
		}
		var live *Cli
		if p.Live {
			live = x.Dial(in.Addr)
			live.Send(respCmd("NEARBY", "k", "FENCE", "POINT", "1", "1", "1000000"))
			live.ReadReply()
		}
		n := len(p.Conns)
		clis := make([]*Cli, n)
		var ops []*c07Op
		perConn := make([][]*c07Op, n)
		for i := range clis {
			clis[i] = x.Dial(in.Addr)
			for k, cmd := range p.Conns[i] {
				key := fmt.Sprintf("%d.%d", i, k)
				if p.NonAtomic[key] {
					// every inner call is a step of its own; the wire reply belongs to the last
					inner := p.Model[key]
					for j, c := range inner {
						o := &c07Op{conn: i, idx: k, sub: j, args: cmd, model: [][]string{c}, anyReply: true, silent: j < len(inner)-1, done: j < len(inner)-1}
						ops = append(ops, o)
						if !o.silent {
							perConn[i] = append(perConn[i], o)
						}
					}
					continue
				}
				o := &c07Op{conn: i, idx: k, args: cmd, model: p.Model[key]}
				ops = append(ops, o)
				perConn[i] = append(perConn[i], o)
			}
		}
		vsched.Quiesce()
		preLog := len(vos.Image(len(vos.Log))[aofPath])
		released := make([]bool, n)
		release := func(i int) {
			if released[i] {
				return
			}
			released[i] = true
			var seg []byte
			for _, cmd := range p.Conns[i] {
				seg = append(seg, respCmd(cmd...)...)
			}
			clis[i].c.Inject(seg)
		}
		for i := range clis {
			i := i
			var pend []byte
			k := 0
			clis[i].c.Peer.OnWrite = func(b []byte) {
				pend = append(pend, b...)
				for {
					v, rest, ok, err := parseRESP(pend)
					if err != nil || !ok {
						return
					}
					pend = rest
					if k < len(perConn[i]) {
						perConn[i][k].reply = v
						perConn[i][k].done = true
					}
					if k == 0 {
						for j, a := range p.After {
							if a == i {
								release(j)
							}
						}
					}
					k++
				}
			}
		}
		// step-level lock-discipline monitor
		var lockViol string
		lastFP := in.cheapFP()
		lastTid := -1
		vsched.OnPoint = func() {
			fp := in.cheapFP()
			if fp != lastFP {
				excl, writer, _ := in.lockState()
				// the step that changed the state was executed by the thread that
				// was running before this point = the current thread (points are
				// taken before an operation, by the thread about to perform it).
				tid := vsched.CurID()
				if !(excl && (writer == tid || writer == -1)) && lockViol == "" {
					lockViol = fmt.Sprintf("internal state changed (%s -> %s) by thread %d (%s) which does not hold Server.mu exclusively (exclusive=%v holder=%d)",
						lastFP, fp, tid, vsched.Cur().Name, excl, writer)
				}
				lastFP = fp
			}
			lastTid = vsched.CurID()
		}
		_ = lastTid
		if p.Expire {
			// align with the sweeper tick at which the EX 1.1 object is first seen
			// expired (ticks every 200 ms: 1.0 s not yet, 1.2 s expired)
			for {
				t := vsched.WakeTimeOf("L", "backgroundExpiring")
				if t < 0 {
					panic("sweeper not sleeping")
				}
				vsched.SleepUntil(t)
				if vsched.Clock >= int64(1150*stdtime.Millisecond) {
					break
				}
				vsched.Sleep(1)
			}
		}
		if p.Shrink {
			c0.c.Inject(respCmd("AOFSHRINK"))
		}
		for i := range clis {
			if _, gated := p.After[i]; !gated {
				release(i)
			}
		}
		vsched.Prefix = prefix
		vsched.Fine = p.Fine
		vsched.Exploring = true
		done := vsched.WaitUntilOr(func() bool {
			for _, o := range ops {
				if !o.done {
					return false
				}
			}
			if p.Shrink && (countReplies(c0) < 1 || vsched.AliveNamed("L", "aofshrink") > 0) {
				return false
			}
			return true
		}, int64(30*stdtime.Second))
		vsched.Quiesce()
		vsched.Exploring = false
		vsched.Fine = false
		vsched.OnPoint = nil
		out.Trace = append([]vsched.ChoicePoint(nil), vsched.Trace...)
		out.Diverged = vsched.Diverged
		if len(vsched.Crashes) > 0 {
			out.VSig = p.prop() + "/server-crash:" + p.Name
			out.VDetail = vsched.Crashes[0].Value + "\n" + vsched.Crashes[0].Stack
			return
		}
		if !done {
			// a command that is never answered (server-side deadlock) violates the property
			out.VSig = p.prop() + "/no-reply:" + p.Name
			out.VDetail = "not every command was answered within 30 virtual seconds; threads: " + vsched.Dump()
			out.Obs = "NO-REPLY"
			return
		}
		if p.Shrink {
			c0.ReadReply()
		}
		if p.LiveDels {
			// let every deadline of the scenario pass and be swept before the observation:
			// a DEL the sweeper logs later than the last look at the live connection
			// would be missing there for no fault of the server
			vsched.Sleep(int64(450 * stdtime.Millisecond))
			vsched.Quiesce()
		}
		final, err := serverCanon(c0)
		if err != nil {
			out.Err = err.Error()
			return
		}
		var liveMsgs []string
		if live != nil {
			liveMsgs = drainMessages(live)
		}
		c0.Close()
		for _, c := range clis {
			c.Close()
		}
		if live != nil {
			live.Close()
		}
		in.Stop()
		// the server's own idea of its log size (what SERVER aof_size reports), read
		// after the shutdown flush so that a late sweeper DEL is counted on both sides
		reportedSize := fmt.Sprint(in.S.aofsz)
		img := vos.Image(len(vos.Log))[aofPath]
		if len(img) >= preLog {
			img = img[preLog:]
		}
		if p.Shrink {
			img = vos.Image(len(vos.Log))[aofPath]
			if reportedSize != fmt.Sprint(len(img)) {
				out.VSig = p.prop() + "/aof-size-vs-file:" + p.Name
				out.VDetail = fmt.Sprintf("SERVER reported aof_size %s, appendonly.aof holds %d bytes after the rewrite and the concurrent commands", reportedSize, len(img))
			}
			for _, o := range ops {
				for _, k := range o.logKeys() {
					if bytes.Count(img, k) > 1 && out.VSig == "" {
						out.VSig = p.prop() + "/command-in-log-twice:" + p.Name
						out.VDetail = fmt.Sprintf("the log holds %q %d times after a concurrent AOFSHRINK", k, bytes.Count(img, k))
					}
				}
			}
			in2, serr := x.TryStart("L2", in.Dir, 9002, nil)
			if serr != nil {
				out.VSig, out.VDetail = p.prop()+"/restart-fails-after-concurrent-shrink:"+p.Name, fmt.Sprint(serr)
				return
			}
			c2 := x.Dial(in2.Addr)
			again, _ := serverCanon(c2)
			c2.Close()
			if again != final && out.VSig == "" {
				out.VSig = p.prop() + "/restart-differs-after-concurrent-shrink:" + p.Name
				out.VDetail = fmt.Sprintf("served %s ; after restart %s", vclip(final, 300), vclip(again, 300))
			}
			if out.VSig != "" {
				out.Obs = "SHRINK-VIOLATION " + final
				return
			}
		}
		if !p.Shrink {
			// the log holds every command once, and the reported size is the file's size
			full := vos.Image(len(vos.Log))[aofPath]
			if reportedSize != fmt.Sprint(len(full)) {
				out.VSig = p.prop() + "/aof-size-vs-file:" + p.Name
				out.VDetail = fmt.Sprintf("SERVER reported aof_size %s, appendonly.aof holds %d bytes", reportedSize, len(full))
				out.Obs = "SIZE " + final
				return
			}
			want := map[string]int{}
			for _, o := range ops {
				for _, k := range o.logKeys() {
					want[string(k)]++
				}
			}
			for k, n := range want {
				if c := bytes.Count(img, []byte(k)); c > n {
					out.VSig = p.prop() + "/command-in-log-twice:" + p.Name
					out.VDetail = fmt.Sprintf("the log holds %q %d times, it was sent %d time(s)", k, c, n)
					out.Obs = "TWICE " + final
					return
				}
			}
		}
		if p.LiveDels {
			var logged, told []string
			for rest := img; len(rest) > 0; {
				v, r2, ok, err := parseRESP(rest)
				if err != nil || !ok {
					break
				}
				rest = r2
				if len(v.A) == 3 && strings.EqualFold(v.A[0].S, "del") && v.A[1].S == "k" {
					logged = append(logged, v.A[2].S)
				}
			}
			for _, m := range liveMsgs {
				if strings.Contains(m, `"command":"del"`) {
					id := m[strings.Index(m, `"id":"`)+6:]
					told = append(told, id[:strings.Index(id, `"`)])
				}
			}
			if strings.Join(logged, ",") != strings.Join(told, ",") {
				out.VSig = p.prop() + "/live-fence-dels-differ-from-log:" + p.Name
				out.VDetail = fmt.Sprintf("the log holds DEL k for %v (in this order), the live fence connection was told of the deletion of %v", logged, told)
				out.Obs = "LIVE " + final
				return
			}
		}
		// position of each op's (first) write in the log, -1 if not logged
		pos := make([]int, len(ops))
		for i, o := range ops {
			pos[i] = -1
			if p.Shrink {
				continue // the rewrite re-encodes and reorders: no position oracle
			}
			for _, k := range o.logKeys() {
				if j := bytes.Index(img, k); j >= 0 && (pos[i] < 0 || j < pos[i]) {
					pos[i] = j
				}
			}
		}
		var replies []string
		for _, o := range ops {
			replies = append(replies, fmt.Sprintf("%d.%d=%s@%d", o.conn, o.idx, o.reply, pos[len(replies)]))
		}
		out.Obs = strings.Join(replies, " ") + " | " + final
		if lockViol != "" && (p.prop() == "C07" || p.prop() == "C18") {
			out.VSig = p.prop() + "/lock-discipline:" + p.Name
			out.VDetail = lockViol
			return
		}
		// the log entries of one atomic step (script, multi-object command) are contiguous
		for i, o := range ops {
			if o.anyReply || len(o.logKeys()) < 2 || p.Shrink {
				continue
			}
			lo, hi := -1, -1
			for _, k := range o.logKeys() {
				if j := bytes.Index(img, k); j >= 0 {
					if lo < 0 || j < lo {
						lo = j
					}
					if j > hi {
						hi = j
					}
				}
			}
			for j2, o2 := range ops {
				if j2 == i || (o2.conn == o.conn && o2.idx == o.idx) {
					continue
				}
				for _, k := range o2.logKeys() {
					if q := bytes.Index(img, k); q > lo && q < hi {
						out.VSig = p.prop() + "/atomic-step-interleaved-in-log:" + p.Name
						out.VDetail = fmt.Sprintf("a log entry of op %d.%d lies between the entries of the atomic step %d.%d (positions %d < %d < %d) | %s", o2.conn, o2.idx, o.conn, o.idx, lo, q, hi, out.Obs)
						return
					}
				}
			}
		}
		// brute-force linearizability (with the sweeper as an extra actor that may
		// delete an object carrying a deadline at any point of the order)
		why := c07Linearize(base, ops, p.After, pos, final, p.Expire)
		if why != "" {
			out.VSig = p.prop() + "/not-linearizable:" + p.Name
			out.VDetail = why + " | observed: " + out.Obs
		}
	})
	if strings.HasPrefix(x.Err, "deadlock") && out.VSig == "" {
		out.VSig = p.prop() + "/deadlock:" + p.Name
		out.VDetail = x.Err
		out.Obs = "DEADLOCK"
		out.Trace = append([]vsched.ChoicePoint(nil), vsched.Trace...)
	} else if x.Err != "" {
		out.Err = x.Err
	}
	return out
}

// c07Linearize searches a total order of ops consistent with per-connection
// order and After edges such that every reply matches the model, the final
// state matches and logged writes appear in the log in that order.  Returns ""
// if one exists, else a description of the best failure.
func c07Linearize(base *mState, ops []*c07Op, after map[int]int, pos []int, final string, sweeper bool) string {
	n := len(ops)
	used := make([]bool, n)
	order := make([]int, 0, n)
	best := "no order explains the replies"
	sweep := func(st *mState) *mState {
		c := st.clone()
		for _, k := range sortedKeys(c.Cols) {
			for _, id := range sortedKeys(c.Cols[k]) {
				if o := c.Cols[k][id]; o.Dead && o.TTL < 10 { // only deadlines that pass during the scenario
					c.del(k, id)
				}
			}
		}
		return c
	}
	var rec func(st *mState, lastPos int) bool
	var rec0 func(st *mState, lastPos int) bool
	rec = func(st *mState, lastPos int) bool {
		if rec0(st, lastPos) {
			return true
		}
		if sweeper {
			if sw := sweep(st); sw.canon() != st.canon() {
				return rec0(sw, lastPos)
			}
		}
		return false
	}
	rec0 = func(st *mState, lastPos int) bool {
		if len(order) == n {
			mc := st.canon()
			if i := strings.Index(mc, "@"); i >= 0 {
				mc = mc[:i] // hooks / channels are not part of what serverCanon reads
			}
			if mc != final {
				best = fmt.Sprintf("replies are explained by order %v but the final state is %q, model gives %q", order, final, st.canon())
				return false
			}
			return true
		}
		for i := 0; i < n; i++ {
			if used[i] {
				continue
			}
			o := ops[i]
			ok := true
			for j := 0; j < n; j++ {
				if used[j] || j == i {
					continue
				}
				// earlier command of the same connection must come first
				if ops[j].conn == o.conn && (ops[j].idx < o.idx || ops[j].idx == o.idx && ops[j].sub < o.sub) {
					ok = false
				}
				// the releasing connection's first command precedes every command of the released one
				if a, gated := after[o.conn]; gated && ops[j].conn == a && ops[j].idx == 0 {
					ok = false
				}
			}
			if !ok {
				continue
			}
			st2 := st.clone()
			exp := o.apply(st2)
			if !o.anyReply && !mMatch(exp, o.reply) {
				continue
			}
			lp := lastPos
			if pos[i] >= 0 {
				if pos[i] < lastPos {
					best = fmt.Sprintf("replies explained only by orders in which op %d.%d precedes a write that the log records before it", o.conn, o.idx)
					continue
				}
				lp = pos[i]
			}
			used[i] = true
			order = append(order, i)
			if rec(st2, lp) {
				return true
			}
			order = order[:len(order)-1]
			used[i] = false
		}
		return false
	}
	if rec(base.clone(), -1) {
		return ""
	}
	return best
}

func c07Scenarios(tier string) []c07Params {
	pre := [][]string{w("SET k a FIELD f 1 POINT 1 1"), w("SET k b POINT 2 2")}
	scr := "tile38.call('SET','k','a','POINT',7,7); return tile38.call('SET','k','b','POINT',8,8)"
	scrModel := [][]string{w("SET k a POINT 7 7"), w("SET k b POINT 8 8")}
	S := func(name string, pre [][]string, conns ...[][]string) c07Params {
		return c07Params{Name: name, Pre: pre, Conns: conns}
	}
	one := func(s string) [][]string { return [][]string{w(s)} }
	two := func(a, b string) [][]string { return [][]string{w(a), w(b)} }
	scs := []c07Params{
		S("set-set", pre, one("SET k a POINT 3 3"), one("SET k a POINT 4 4")),
		S("set-get", pre, one("SET k a POINT 3 3"), one("GET k a")),
		S("fset-fset", pre, one("FSET k a f 5"), one("FSET k a g 6")),
		S("pdel-scan", pre, one("PDEL k *"), one("SCAN k")),
		S("drop-gets", pre, one("DROP k"), two("GET k a", "GET k b")),
		S("rename-scans", pre, one("RENAME k k2"), two("SCAN k", "SCAN k2")),
		S("flushdb-keys-set", pre, one("FLUSHDB"), two("KEYS *", "SET k c POINT 5 5")),
		S("del-set", pre, one("DEL k a"), one("SET k a POINT 3 3")),
		S("jset-fset", append(pre, []string{"SET", "k", "j", "STRING", `{"x":1}`}), one("JSET k j y 2"), one("FSET k j f 3")),
		S("jdel-get", append(pre, []string{"SET", "k", "j", "STRING", `{"x":1}`}), one("JDEL k j x"), one("GET k j")),
		{Name: "eval-gets", Pre: pre, Conns: [][][]string{{{"EVAL", scr, "0"}}, two("GET k a", "GET k b")}, Model: map[string][][]string{"0.0": scrModel}},
		{Name: "set-then-get", Pre: pre, Conns: [][][]string{one("SET k a POINT 3 3"), one("GET k a")}, After: map[int]int{1: 0}},
		// two objects expiring in one sweep, watched by a live fence connection
		{Name: "two-expiring-vs-live-fence", Pre: append(append([][]string{}, pre...), w("SET k e EX 1.1 POINT 1 1"), w("SET k f EX 1.1 POINT 1.001 1.001")),
			Conns: [][][]string{one("GET k e"), one("DEL k a")}, Expire: true, Live: true, LiveDels: true, QuickBound: 1, ThoroughBound: 2},
		{Name: "set-live", Pre: pre, Conns: [][][]string{one("SET k a POINT 1.001 1.001")}, Live: true},
		{Name: "set-del-vs-aofshrink", Pre: pre, Conns: [][][]string{two("SET k a POINT 3 3", "DEL k b"), one("SET k c POINT 4 4")}, Shrink: true, QuickBound: 1},
		// a write racing with the command that makes the server read-only: once READONLY is answered no write takes effect
		{Name: "second-aofshrink-and-sets-vs-aofshrink", Pre: pre, Conns: [][][]string{two("AOFSHRINK", "SET k c POINT 4 4"), one("SET k d POINT 5 5")}, Shrink: true, QuickBound: 1,
			Model: map[string][][]string{"0.0": {}}},
		{Name: "set-vs-readonly", Pre: pre, Conns: [][][]string{one("SET k a POINT 3 3"), two("READONLY yes", "GET k a")}},
		// a non-atomic script's write against a plain write on the same object (apply order = log order)
		{Name: "evalna-vs-set", Pre: pre, Conns: [][][]string{{{"EVALNA", "return tile38.call('SET','k','a','POINT',7,7)", "0"}}, one("SET k a POINT 3 3")}, Model: map[string][][]string{"0.0": {w("SET k a POINT 7 7")}}},
		{Name: "set-set-get-spin", Pre: pre, Conns: [][][]string{one("SET k a POINT 3 3"), one("SET k a POINT 4 4"), one("GET k a")}, Spin: true},
		// readers share Server.mu and perform no synchronisation operation while they
		// work: function-entry scheduling points (one preemption; thorough: two)
		{Name: "fine:get-vs-scan", Pre: pre, Conns: [][][]string{two("GET k a WITHFIELDS", "FGET k a f"), two("SCAN k", "SCAN k WHERE f 1 1 IDS")}, Fine: true},
		{Name: "fine:nearby-vs-within", Pre: pre, Conns: [][][]string{one("NEARBY k POINT 1 1"), one("WITHIN k BOUNDS 0 0 5 5")}, Fine: true},
		{Name: "fine:evalro-vs-evalro", Pre: pre, Conns: [][][]string{{{"EVALRO", "return tile38.call('GET','k','a')", "0"}}, {{"EVALRO", "return tile38.call('GET','k','b')", "0"}}}, Fine: true},
		{Name: "fine:set-vs-get", Pre: pre, Conns: [][][]string{one("SET k a FIELD f 2 POINT 3 3"), one("GET k a WITHFIELDS")}, Fine: true},
		// a channel whose WHEREEVAL filter runs on every write, next to a lock-free script
		{Name: "evalna-vs-set-with-whereeval-channel", Pre: append(append([][]string{}, pre...), []string{"SETCHAN", "whe", "WITHIN", "k", "WHEREEVAL", "return FIELDS.f ~= nil and FIELDS.f > 0", "0", "FENCE", "BOUNDS", "-90", "-180", "90", "180"}),
			Conns: [][][]string{{{"EVALNA", "local a = tile38.call('GET','k','a'); local b = tile38.call('GET','k','b'); return {a, b}", "0"}}, one("SET k a FIELD f 2 POINT 3 3")},
			Model: map[string][][]string{"0.0": {}}},
		// a script that assigns to the global naming its own flavour: the locking must not follow it
		{Name: "evalna-assigning-eval-cmd-vs-get", Pre: pre, Conns: [][][]string{{{"EVALNA", "EVAL_CMD = 'eval'; return tile38.call('SET','k','n','POINT',7,7)", "0"}}, two("GET k n", "SCAN k")},
			Model: map[string][][]string{"0.0": {w("SET k n POINT 7 7")}}, NonAtomic: map[string]bool{"0.0": true}},
		{Name: "evalro-assigning-eval-cmd-vs-set", Pre: pre, Conns: [][][]string{{{"EVALRO", "EVAL_CMD = 'eval'; return tile38.pcall('SET','k','n','POINT',7,7)", "0"}}, one("SET k b POINT 5 5")},
			Model: map[string][][]string{"0.0": {}}},
		{Name: "set-vs-sweeper", Pre: append(pre, w("SET k e EX 1.1 POINT 6 6")), Conns: [][][]string{one("SET k e POINT 6 6"), one("GET k e")}, Expire: true},
	}
	if tier == "thorough" {
		scs = append(scs,
			S("expire-persist", append(pre, w("EXPIRE k a 100")), one("PERSIST k a"), one("EXPIRE k a 200")),
			S("renamenx-set", pre, one("RENAMENX k k2"), one("SET k2 z POINT 9 9")),
			S("3-writers", pre, one("SET k a POINT 3 3"), one("DEL k a"), one("FSET k a f 9")),
			S("2x2", pre, two("SET k a POINT 3 3", "GET k b"), two("SET k b POINT 4 4", "GET k a")),
			S("pdel-set-scan", pre, one("PDEL k *"), one("SET k c POINT 5 5"), one("SCAN k")),
			c07Params{Name: "set-set-live", Pre: pre, Conns: [][][]string{one("SET k a POINT 1.001 1.001"), one("SET k b POINT 1.002 1.002")}, Live: true},
			c07Params{Name: "set-set-spin", Pre: pre, Conns: [][][]string{one("SET k a POINT 3 3"), one("SET k a POINT 4 4")}, Spin: true},
			c07Params{Name: "evalna-set", Pre: pre, Conns: [][][]string{{{"EVAL", scr, "0"}}, one("SET k a POINT 3 3"), one("GET k a")}, Model: map[string][][]string{"0.0": scrModel}},
		)
	}
	return scs
}

func checkC07(job *Job, res *Result) {
	res.Rule = "SCHED: every schedule (preemption bound 2; thorough 3 for pairs) of 2-3 connections x 1-2 commands on colliding keys over the real server; per execution brute-force linearizability against the reference model incl. final state and log order, plus a lock-discipline monitor at every scheduling point; distinct = distinct (scenario, reply vector, log positions, final state)"
	res.Assumptions = append(res.Assumptions,
		"all commands are sent at the same instant (real-time order between connections only where a connection is released by another one's reply)",
		"polling loops frozen except where a scenario names one; SC at the granularity of sync/atomic/socket/file operations; unsynchronised accesses are the business of the separate -race pass")
	if job.Replay != nil {
		replaySched(job, res, func(params []byte, sched []int) schedOut {
			var p c07Params
			mustJSON(params, &p)
			return c07Run(job, p, sched)
		})
		return
	}
	bound := 2
	if b, ok := job.Params["bound"].(float64); ok {
		bound = int(b)
	}
	only, _ := job.Params["only"].(string)
	for _, p := range c07Scenarios(job.Tier) {
		p := p
		if only != "" && only != p.Name {
			continue
		}
		sc := schedScenario{Name: "c07." + p.Name, Params: p, Run: func(prefix []int) schedOut { return c07Run(job, p, prefix) }}
		b := bound
		if p.QuickBound > 0 && job.Tier != "thorough" {
			b = p.QuickBound
		}
		if p.ThoroughBound > 0 && job.Tier == "thorough" && b > p.ThoroughBound {
			b = p.ThoroughBound
		}
		if p.Fine {
			b = bound - 1 // hundreds of points per execution
		}
		st := exploreSched(job, res, sc, b)
		res.Extra[sc.Name] = map[string]any{"execs": st.Execs, "outcomes": len(st.Outcomes), "max_choice_points": st.MaxPoints, "bound": b}
		if p.Name == "set-set" {
			keys := make([]string, 0, len(st.Outcomes))
			for k := range st.Outcomes {
				keys = append(keys, k)
			}
			sort.Strings(keys)
			res.Sample(map[string]any{"scenario": sc.Name, "params": p, "distinct_outcomes": keys})
		}
		if res.EngineError != "" {
			return
		}
	}
}

// ---- c07lock: whole command table, state may change only under the exclusive lock

func checkC07Lock(job *Job, res *Result) {
	res.Rule = "SEQ: every catalogue command x argument shape from a populated state; the internal dump (all indexes, counters, hook registries, group maps) may differ after the command only if Server.mu was acquired exclusively during it; distinct = distinct (command, changed?, exclusive?) classes"
	repo, _ := job.Params["repo"].(string)
	names, uncat := catalogueNames(repo)
	res.Extra["uncatalogued"] = uncat
	cat := catalogue()
	n := 0
	for _, name := range names {
		for si, shape := range cat[name] {
			n++
			if n%job.NShards != job.Shard {
				continue
			}
			if name == "FOLLOW" || name == "SLAVEOF" || name == "REPLCONF" || name == "AOFSHRINK" {
				continue // change replication / spawn background work: not dataset commands
			}
			shape := shape
			x := runExec(job, freezeAllBut(), func(x *Exec) {
				in := x.Start("L", x.dir+"/L", 9001, nil)
				c := x.Dial(in.Addr)
				sha := catSetup(c)
				args := catSubst(shape, sha)
				l, ok := in.S.mu.(*rwmutex)
				if !ok {
					return
				}
				before, _ := internalDump(in.S)
				g0 := l.mu.WGen
				// step monitor: the full internal dump is compared at every
				// scheduling point and before every unlock; a change must be
				// observed while the running thread holds the lock exclusively
				last := before
				bad := ""
				vsched.OnPoint = func() {
					d, _ := internalDump(in.S)
					if d != last {
						last = d
						if !l.mu.HeldExclusiveBy(vsched.CurID()) && bad == "" {
							bad = fmt.Sprintf("thread %d (%s) changed the internal state while Server.mu was not held exclusively by it (exclusive=%v)", vsched.CurID(), vsched.Cur().Name, l.mu.HeldExclusive())
						}
					}
				}
				rep := c.Do(args...)
				vsched.Quiesce()
				vsched.OnPoint = nil
				after, _ := internalDump(in.S)
				excl := l.mu.WGen != g0
				res.Distinct(fnv(fmt.Sprintf("%s|%v|%v", name, before != after, excl)))
				if before != after && !excl && bad == "" {
					bad = "the internal state changed without Server.mu ever being held exclusively"
				}
				if bad != "" {
					res.Violate(fmt.Sprintf("C07/lock-discipline:%s:shape%d", strings.ToLower(name), si),
						fmt.Sprintf("%v (reply %s): %s", args, vclip(rep.String(), 100), bad),
						map[string]any{"cmd": args})
				}
			})
			if x.Err != "" {
				res.EngineError = fmt.Sprintf("%v: %s", shape, x.Err)
				return
			}
			res.Evaluations++
			res.Transitions++
			res.Validated++
		}
	}
	res.States += len(names)
}

// ---- C14 schedules part: client commands racing the expiry sweeper at the
// tick at which it first sees the object expired.

func c14SchedScenarios() []c07Params {
	pre := [][]string{w("SET k a POINT 1 1"), w("SET k e EX 1.1 POINT 6 6")}
	one := func(s string) [][]string { return [][]string{w(s)} }
	mk := func(name string, conns ...[][]string) c07Params {
		return c07Params{Name: name, Pre: pre, Conns: conns, Expire: true, Prop: "C14"}
	}
	return []c07Params{
		mk("persist-vs-sweeper", one("PERSIST k e"), one("GET k e")),
		mk("expire-vs-sweeper", one("EXPIRE k e 100"), one("TTL k e")),
		mk("set-noex-vs-sweeper", one("SET k e POINT 6 6"), one("GET k e")),
		mk("set-ex-vs-sweeper", one("SET k e EX 100 POINT 6 6"), one("SCAN k")),
		mk("fset-vs-sweeper", one("FSET k e f 1"), one("GET k e WITHFIELDS")),
		mk("del-set-vs-sweeper", [][]string{w("DEL k e"), w("SET k e POINT 6 6")}),
	}
}

func init() { checks["c14sched"] = checkC14Sched }

func checkC14Sched(job *Job, res *Result) {
	res.Rule = "SCHED: client TTL commands released at the sweeper tick that first sees the object expired; every schedule within the preemption bound; linearizability with the sweeper as an actor that may delete only objects whose deadline has passed"
	if job.Replay != nil {
		replaySched(job, res, func(params []byte, sched []int) schedOut {
			var p c07Params
			mustJSON(params, &p)
			return c07Run(job, p, sched)
		})
		return
	}
	bound := 2
	if b, ok := job.Params["bound"].(float64); ok {
		bound = int(b)
	}
	for _, p := range c14SchedScenarios() {
		p := p
		sc := schedScenario{Name: "c14." + p.Name, Params: p, Run: func(prefix []int) schedOut { return c07Run(job, p, prefix) }}
		st := exploreSched(job, res, sc, bound)
		res.Extra[sc.Name] = map[string]any{"execs": st.Execs, "outcomes": len(st.Outcomes), "max_choice_points": st.MaxPoints}
		if res.EngineError != "" {
			return
		}
	}
}
