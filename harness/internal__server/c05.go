//go:build verif

package server

// C05 - fence notifications follow the documented enter/exit/inside/outside/
// cross rules.
//
// SEQ over configurations: fence shape x all 32 DETECT subsets (+ default) x
// COMMANDS filter x MATCH/WHERE filter x population of other hooks; for each
// configuration one movement history that visits every transition of the
// documented table (absent/inside/outside -> inside/outside, crossing and not),
// FSET, DEL, PDEL, DROP and expiry; three receivers (channel + SUBSCRIBE,
// webhook on a local HTTP endpoint, live FENCE connection) observe the same
// fence definition.  Oracle: an independent implementation of the documented
// table; at quiescence the received list equals the expected list exactly.

import (
	"encoding/json"
	"strconv"
	"sort"
	"fmt"
	"regexp"
	"strings"
	stdtime "time"

	"github.com/tidwall/tile38/internal/vshim/vsched"
)

func init() { checks["c05"] = checkC05 }

var c05Detects = []string{"inside", "outside", "enter", "exit", "cross"}

type c05Step struct {
	Cmd  []string
	Verb string // set fset del pdel drop expire
	ID   string
	Prev string // absent inside outside
	New  string // inside outside gone
	Cross bool
	// IDs: several objects affected by one step (expiry of more than one object in one sweep)
	IDs []string
	// Loose: the statement does not settle this step (an FSET that makes an
	// object inside the area fail the filter: there is no previous position to
	// leave); any sub-list of the expected messages is accepted.
	Loose bool
}

// c05HistoryFor: the movement history of one configuration.  Under a WHERE
// filter it also flips the filter verdict of an object that stays inside the
// area (an object that fails the filter counts as outside); "long" puts more
// than the default LIMIT (100) of notifications in front; "limit" fences are
// created with LIMIT 2 and the plain history already exceeds that.
func c05HistoryFor(cfg c05Config) []c05Step {
	h := c05History()
	if strings.Contains(cfg.Filter, "where") {
		// the steps on id r carry no field: under a field filter their verdict is another question
		var h2 []c05Step
		for _, st := range h {
			if st.ID != "r" {
				h2 = append(h2, st)
			}
		}
		h = h2
	}
	if cfg.Filter == "where" || cfg.Filter == "whereeval" {
		flip := []c05Step{
			{Cmd: w("SET fk a FIELD speed 5000 POINT 0.1 0.1"), Verb: "set", ID: "a", Prev: "inside", New: "outside"},
			{Cmd: w("SET fk a FIELD speed 7 POINT 0 0"), Verb: "set", ID: "a", Prev: "outside", New: "inside"},
			{Cmd: w("FSET fk a speed 5000"), Verb: "fset", ID: "a", Prev: "inside", New: "outside", Loose: true},
			{Cmd: w("FSET fk a speed 8"), Verb: "fset", ID: "a", Prev: "outside", New: "inside"},
			{Cmd: w("SET fk a FIELD speed 7 POINT 0.1 0.1"), Verb: "set", ID: "a", Prev: "inside", New: "inside"},
		}
		h = append(append(append([]c05Step{}, h[:4]...), flip...), h[4:]...)
	}
	// an extended object that straddles the border of the area: outside for WITHIN,
	// inside for INTERSECTS and NEARBY; placed after the crossing steps (a fence
	// definition must not be changed by the events it has seen)
	strad, in := "outside", "inside"
	if cfg.Fence != "within" {
		strad = "inside"
	}
	ext := []c05Step{
		{Cmd: w("SET fk e FIELD speed 7 BOUNDS 0.5 0.5 1.5 1.5"), Verb: "set", ID: "e", Prev: "absent", New: strad},
		{Cmd: w("SET fk e FIELD speed 7 BOUNDS -0.2 -0.2 0.2 0.2"), Verb: "set", ID: "e", Prev: strad, New: in},
		{Cmd: w("SET fk e FIELD speed 7 BOUNDS 0.5 0.5 1.5 1.5"), Verb: "set", ID: "e", Prev: in, New: strad},
		{Cmd: w("DEL fk e"), Verb: "del", ID: "e", Prev: strad, New: "gone"},
	}
	for i, st := range h {
		if st.Cross {
			h = append(append(append([]c05Step{}, h[:i+2]...), ext...), h[i+2:]...)
			break
		}
	}
	if cfg.Pop == "long" {
		var pre []c05Step
		pre = append(pre, c05Step{Cmd: w("SET fk w FIELD speed 7 POINT 0 0"), Verb: "set", ID: "w", Prev: "absent", New: "inside"})
		for i := 0; i < 104; i++ {
			pre = append(pre, c05Step{Cmd: []string{"SET", "fk", "w", "FIELD", "speed", "7", "POINT", fmt.Sprintf("0.%d", 1+i%2), "0"}, Verb: "set", ID: "w", Prev: "inside", New: "inside"})
		}
		pre = append(pre, c05Step{Cmd: w("SET fk w FIELD speed 7 POINT 0 3"), Verb: "set", ID: "w", Prev: "inside", New: "outside"})
		h = append(pre, h...)
	}
	return h
}

// the movement history: every transition of the table
func c05History() []c05Step {
	in1, in2 := []string{"0", "0"}, []string{"0.1", "0.1"}
	left, left2, right := []string{"0", "-3"}, []string{"2", "-3"}, []string{"0", "3"}
	set := func(id string, p []string, prev, nw string, cross bool) c05Step {
		return c05Step{Cmd: []string{"SET", "fk", id, "FIELD", "speed", "7", "POINT", p[0], p[1]}, Verb: "set", ID: id, Prev: prev, New: nw, Cross: cross}
	}
	return []c05Step{
		set("a", left, "absent", "outside", false),
		set("a", in1, "outside", "inside", false),
		{Cmd: w("FSET fk a speed 9"), Verb: "fset", ID: "a", Prev: "inside", New: "inside"},
		// a deadline is given to / taken from an object that stays where it is: no movement, no message
		{Cmd: w("EXPIRE fk a 1000"), Verb: "ttl", ID: "a", Prev: "inside", New: "inside"},
		{Cmd: w("PERSIST fk a"), Verb: "ttl", ID: "a", Prev: "inside", New: "inside"},
		set("a", in2, "inside", "inside", false),
		set("a", right, "inside", "outside", false),
		set("a", left, "outside", "outside", true),
		set("a", left2, "outside", "outside", false),
		{Cmd: w("FSET fk a speed 5"), Verb: "fset", ID: "a", Prev: "outside", New: "outside"},
		{Cmd: w("DEL fk a"), Verb: "del", ID: "a", Prev: "outside", New: "gone"},
		set("a", in1, "absent", "inside", false),
		{Cmd: w("DEL fk a"), Verb: "del", ID: "a", Prev: "inside", New: "gone"},
		set("b", in2, "absent", "inside", false),
		{Cmd: w("PDEL fk b*"), Verb: "pdel", ID: "b", Prev: "inside", New: "gone"},
		set("c", in1, "absent", "inside", false),
		{Cmd: w("SET fk c EX 20 FIELD speed 7 POINT 0 0"), Verb: "set", ID: "c", Prev: "inside", New: "inside"},
		{Cmd: w("SET fk c2 EX 20 FIELD speed 7 POINT 0.1 0.1"), Verb: "set", ID: "c2", Prev: "absent", New: "inside"},
		{Cmd: w("SET fk c3 EX 20 FIELD speed 7 POINT 0.1 0"), Verb: "set", ID: "c3", Prev: "absent", New: "inside"},
		{Cmd: []string{"@ADVANCE", "21"}, Verb: "expire", ID: "c", IDs: []string{"c", "c2", "c3"}, Prev: "inside", New: "gone"},
		// the same position set again, without fields or a deadline: still a report
		{Cmd: w("SET fk r POINT 0.1 0"), Verb: "set", ID: "r", Prev: "absent", New: "inside"},
		{Cmd: w("SET fk r POINT 0.1 0"), Verb: "set", ID: "r", Prev: "inside", New: "inside"},
		{Cmd: w("SET fk r POINT 0 3"), Verb: "set", ID: "r", Prev: "inside", New: "outside"},
		{Cmd: w("SET fk r POINT 0 3"), Verb: "set", ID: "r", Prev: "outside", New: "outside"},
		{Cmd: w("DEL fk r"), Verb: "del", ID: "r", Prev: "outside", New: "gone"},
		// an id that holds a string (no position) and then a point outside the area: nothing was inside before
		{Cmd: w("SET fk s FIELD speed 7 STRING hello"), Verb: "set", ID: "s", Prev: "absent", New: "outside", Loose: true},
		set("s", right, "absent", "outside", false),
		{Cmd: w("SET fk s FIELD speed 7 STRING again"), Verb: "set", ID: "s", Prev: "outside", New: "outside", Loose: true},
		set("s", left2, "absent", "outside", false),
		{Cmd: w("DEL fk s"), Verb: "del", ID: "s", Prev: "outside", New: "gone"},
		set("d", in1, "absent", "inside", false),
		{Cmd: w("DROP fk"), Verb: "drop", Prev: "inside", New: "gone"},
	}
}

type c05Msg struct{ Cmd, Detect, ID string }

func (m c05Msg) String() string { return m.Cmd + "/" + m.Detect + "/" + m.ID }

// c05Expect: the documented table, filtered by DETECT and COMMANDS.
// mustDel tells whether a del message is REQUIRED (object was inside) or only allowed.
func c05Expect(st c05Step, detect map[string]bool, accept map[string]bool, filterOK bool) (msgs []c05Msg, optionalDel bool) {
	all := func(d string) bool { return detect == nil || detect[d] }
	acc := func(c string) bool { return len(accept) == 0 || accept[c] }
	switch st.Verb {
	case "ttl":
		return nil, false
	case "drop":
		if acc("drop") {
			// promised "for every fence with default detection"; optional otherwise
			return []c05Msg{{"drop", "", ""}}, !(detect == nil || len(detect) == 5)
		}
		return nil, false
	case "del", "pdel", "expire":
		if !acc("del") {
			return nil, false
		}
		if len(st.IDs) > 0 {
			for _, id := range st.IDs {
				msgs = append(msgs, c05Msg{"del", "", id})
			}
			return msgs, st.Prev != "inside" || !filterOK
		}
		return []c05Msg{{"del", "", st.ID}}, st.Prev != "inside" || !filterOK
	}
	if !filterOK {
		if st.Verb == "fset" && (detect == nil || detect["outside"]) && acc("fset") {
			// an object that fails WHERE both before and after an FSET: the
			// documentation does not say whether it counts as "outside"; allowed, not required
			return []c05Msg{{"fset", "outside", st.ID}}, true
		}
		return nil, false
	}
	var ds []string
	switch {
	case st.New == "inside" && st.Prev == "inside":
		ds = []string{"inside"}
	case st.New == "inside": // absent or outside before
		if st.Verb == "fset" {
			ds = []string{"inside"}
		} else {
			ds = []string{"enter", "inside"}
		}
	case st.Prev == "inside": // now outside
		ds = []string{"exit", "outside"}
	case st.Cross:
		ds = []string{"cross", "outside"}
	default:
		ds = []string{"outside"}
	}
	if !acc(st.Verb) {
		return nil, false
	}
	for _, d := range ds {
		if all(d) {
			msgs = append(msgs, c05Msg{st.Verb, d, st.ID})
		}
	}
	return msgs, false
}

var reCmd = regexp.MustCompile(`"command":"([^"]*)"`)

func c05Parse(m string) c05Msg {
	out := c05Msg{}
	if x := reCmd.FindStringSubmatch(m); x != nil {
		out.Cmd = x[1]
	}
	if x := reDetect.FindStringSubmatch(m); x != nil {
		out.Detect = x[1]
	}
	if x := reID.FindStringSubmatch(m); x != nil {
		out.ID = x[1]
	}
	return out
}

type c05Config struct {
	Fence   string `json:"fence"`  // nearby within intersects
	Detect  int    `json:"detect"` // bitmask over c05Detects; -1 = default (no DETECT clause)
	Accept  string `json:"accept"` // "" | "set" | "del" | "set,fset"
	Filter  string `json:"filter"` // none match nomatch where nowhere
	Pop     string `json:"pop"`    // none disjoint overlap outside many
}

func (c c05Config) String() string {
	return fmt.Sprintf("%s detect=%d commands=%q filter=%s others=%s", c.Fence, c.Detect, c.Accept, c.Filter, c.Pop)
}

func (c c05Config) fenceArgs() (pre []string, area []string) {
	var opts []string
	switch c.Filter {
	case "match":
		opts = append(opts, "MATCH", "*")
	case "nomatch":
		opts = append(opts, "MATCH", "zz*")
	case "where":
		opts = append(opts, "WHERE", "speed", "0", "100")
	case "nowhere":
		opts = append(opts, "WHERE", "speed", "1000", "2000")
	case "whereeval": // the same verdicts as "where", computed by a script that uses its ARGV
		opts = append(opts, "WHEREEVAL", "return FIELDS.speed >= ARGV[1]+0 and FIELDS.speed <= ARGV[2]+0", "2", "0", "100")
	case "nowhereeval":
		opts = append(opts, "WHEREEVAL", "return FIELDS.speed >= ARGV[1]+0", "1", "1000")
	case "limit":
		opts = append(opts, "LIMIT", "2")
	}
	opts = append(opts, "FENCE")
	if c.Detect >= 0 {
		var ds []string
		for i, d := range c05Detects {
			if c.Detect&(1<<i) != 0 {
				ds = append(ds, d)
			}
		}
		if len(ds) > 0 {
			opts = append(opts, "DETECT", strings.Join(ds, ","))
		}
	}
	if c.Accept != "" {
		opts = append(opts, "COMMANDS", c.Accept)
	}
	switch c.Fence {
	case "nearby":
		return append([]string{"NEARBY", "fk"}, opts...), []string{"POINT", "0", "0", "100000"}
	case "within":
		return append([]string{"WITHIN", "fk"}, opts...), []string{"BOUNDS", "-1", "-1", "1", "1"}
	default:
		return append([]string{"INTERSECTS", "fk"}, opts...), []string{"OBJECT", `{"type":"Polygon","coordinates":[[[-1,-1],[1,-1],[1,1],[-1,1],[-1,-1]]]}`}
	}
}

func c05RunConfig(job *Job, res *Result, cfg c05Config) {
	viol := func(sig, detail string) {
		res.Violate("C05/"+sig, detail+"  [fence "+cfg.String()+"]", cfg)
	}
	var detect map[string]bool
	if cfg.Detect >= 0 && cfg.Detect != 0 {
		detect = map[string]bool{}
		for i, d := range c05Detects {
			if cfg.Detect&(1<<i) != 0 {
				detect[d] = true
			}
		}
	}
	accept := map[string]bool{}
	for _, a := range strings.Split(cfg.Accept, ",") {
		if a != "" {
			accept[a] = true
		}
	}
	filterOK := cfg.Filter != "nomatch" && cfg.Filter != "nowhere" && cfg.Filter != "nowhereeval"
	var script []int
	if cfg.Pop == "flaky" {
		// the webhook endpoint fails every second request once: the retries must
		// make the webhook see what the channel and the live connection see
		for i := 0; i < 200; i++ {
			script = append(script, []int{200, 500}[i%2])
		}
	}
	ep := newFakeEndpoint(script)
	defer ep.Close()
	x := runExec(job, freezeAllBut("manager", "backgroundExpiring"), func(x *Exec) {
		in := x.Start("L", x.dir+"/L", 9001, nil)
		c := x.Dial(in.Addr)
		pre, area := cfg.fenceArgs()
		full := append(append([]string{}, pre...), area...)
		// other hooks first (they drive candidate selection)
		switch cfg.Pop {
		case "disjoint":
			c.Do(w("SETCHAN other NEARBY fk FENCE POINT 60 60 1000")...)
		case "overlap":
			c.Do(w("SETCHAN other WITHIN fk FENCE BOUNDS -2 -4 2 4")...)
		case "outside":
			c.Do(w("SETCHAN other NEARBY fk FENCE DETECT outside POINT 60 60 1000")...)
		case "redefined":
			// the names under test existed before with another area and DETECT cross
			c.Do(append([]string{"SETCHAN", "fch"}, w("WITHIN fk FENCE DETECT cross,enter BOUNDS 0.5 -3.5 1.5 -2.5")...)...)
			c.Do(append([]string{"SETHOOK", "fhk", ep.URL()}, w("WITHIN fk FENCE DETECT cross,enter BOUNDS 0.5 -3.5 1.5 -2.5")...)...)
		case "otherkey":
			// fences on OTHER collections whose rectangles cover the area and its
			// surroundings (the candidate search meets them first)
			c.Do(w("SETCHAN o1 WITHIN other FENCE BOUNDS -5 -8 3 6")...)
			c.Do(w("SETCHAN o2 NEARBY other2 FENCE POINT 0 -1 900000")...)
			c.Do(w("SETCHAN o3 INTERSECTS other FENCE BOUNDS -1.5 -4 1.5 4")...)
			c.Do(append([]string{"SETHOOK", "o4", ep.URL()}, w("WITHIN other3 FENCE BOUNDS -9 -9 9 9")...)...)
		case "many":
			for i := 0; i < 70; i++ {
				c.Do(w(fmt.Sprintf("SETCHAN other%02d NEARBY fk FENCE POINT %d %d 1000", i, 20+i%8*5, 20+i/8*5))...)
			}
		}
		if r := c.Do(append([]string{"SETCHAN", "fch"}, full...)...); r.IsErr() {
			viol("setchan", "SETCHAN replied "+r.String())
			return
		}
		c.Do(append([]string{"SETHOOK", "fhk", ep.URL()}, full...)...)
		sub := x.Dial(in.Addr)
		sub.Send(respCmd("SUBSCRIBE", "fch"))
		live := x.Dial(in.Addr)
		live.Send(respCmd(full...))
		vsched.Quiesce()
		// a pub/sub connection that never subscribed to the fence's channel unsubscribes from it
		foreign := x.Dial(in.Addr)
		foreign.Send(respCmd("SUBSCRIBE", "some-other-channel"))
		foreign.Send(respCmd("UNSUBSCRIBE", "fch"))
		foreign.Send(respCmd("PUNSUBSCRIBE", "f*"))
		vsched.Quiesce()
		recvPayloads(sub)
		recvPayloads(live)
		hookSeen := 0
		hist := c05HistoryFor(cfg)
		for si, st := range hist {
			if st.Cmd[0] == "@ADVANCE" {
				sec, _ := strconv.ParseFloat(st.Cmd[1], 64)
				vsched.Sleep(int64(sec * float64(stdtime.Second)))
			} else {
				c.Do(st.Cmd...)
			}
			vsched.Quiesce()
			want, optDel := c05Expect(st, detect, accept, filterOK)
			// webhook deliveries are synchronous HTTP posts by the hook manager thread
			vsched.WaitUntilOr(func() bool { return len(ep.OK())-hookSeen >= len(want) }, int64(2*stdtime.Second))
			vsched.Quiesce()
			gotAll := map[string][]string{"channel": recvPayloads(sub), "live": recvPayloads(live)}
			okb := ep.OK()
			gotAll["webhook"] = okb[hookSeen:]
			hookSeen = len(okb)
			var wants []string
			for _, m := range want {
				wants = append(wants, m.String())
			}
			for _, recv := range []string{"channel", "webhook", "live"} {
				var gots []string
				for _, raw := range gotAll[recv] {
					pm := c05Parse(raw)
					gots = append(gots, pm.String())
					// each SET/FSET message carries the object's current id, geometry and fields
					if (pm.Cmd == "set" || pm.Cmd == "fset") && !st.Loose {
						cur := c.Do("GET", "fk", st.ID, "WITHFIELDS")
						if len(cur.A) > 0 && !strings.Contains(raw, `"object":`+cur.A[0].S) {
							viol("payload:object", fmt.Sprintf("step %d %v: %s message does not carry the current geometry %s: %s", si, st.Cmd, recv, cur.A[0].S, vclip(raw, 300)))
						}
						if !strings.Contains(raw, `"fields":{"speed":`) && strings.Contains(strings.Join(st.Cmd, " "), " speed ") {
							viol("payload:fields", fmt.Sprintf("step %d %v: %s message lacks the object's fields: %s", si, st.Cmd, recv, vclip(raw, 300)))
						}
					}
				}
				if recv == "live" && (st.Verb == "drop") {
					continue // a live fence on a dropped key: not covered by the statement
				}
				if len(st.IDs) > 1 {
					// objects with one deadline: the order of their del messages is not specified
					sort.Strings(gots)
					sort.Strings(wants)
				}
				g, wnt := strings.Join(gots, " "), strings.Join(wants, " ")
				if optDel && (g == "" || g == wnt) {
					continue
				}
				if st.Loose && isSubList(gots, wants) {
					continue
				}
				if g != wnt {
					kind := "wrong"
					if len(gots) < len(wants) {
						kind = "missing"
					} else if len(gots) > len(wants) {
						kind = "extra"
					}
					viol(fmt.Sprintf("%s:%s:%s->%s%s", kind, st.Verb, st.Prev, st.New, map[bool]string{true: ":crossing", false: ""}[st.Cross]),
						fmt.Sprintf("step %d %v (%s -> %s): %s received [%s], the documented rules give [%s]", si, st.Cmd, st.Prev, st.New, recv, g, wnt))
				}
			}
			res.DistinctS(fmt.Sprint(cfg.Fence, cfg.Detect, cfg.Accept, cfg.Filter, si, wants))
		}
	})
	if len(x.Crashes) > 0 {
		viol("server-crash", x.Crashes[0].Value)
	} else if x.Err != "" {
		viol("hang", x.Err)
	}
	res.Evaluations += len(c05HistoryFor(cfg))
	res.Transitions += len(c05HistoryFor(cfg))
	res.Validated += len(c05HistoryFor(cfg))
	res.States++
}

func checkC05(job *Job, res *Result) {
	res.Rule = "SEQ over configurations: fence shape {NEARBY point, WITHIN bounds, INTERSECTS polygon} x 33 DETECT settings (default + all 32 subsets) x COMMANDS {none,set,del,'set,fset'} x filter {none, MATCH hit, MATCH miss, WHERE hit, WHERE miss, WHEREEVAL hit / miss (scripts reading ARGV)} x population of other hooks {none, disjoint, overlapping, outside-detecting, 70 disjoint, same names previously defined with another area, fences on other collections covering the area, none but with a webhook endpoint failing every second request}; per configuration an 18-step history covering every transition of the table, FSET, DEL, PDEL, expiry, DROP (+4 steps of an extended object straddling the border; +5 filter-verdict flips under WHERE; fences created with LIMIT 2; a 106-notification prefix exceeding the default LIMIT); receivers: channel, webhook, live; distinct = distinct (configuration class, step, expected list)"
	res.Assumptions = append(res.Assumptions,
		"a 'del' for an object that was outside the area (or fails the filter) is allowed but not required; 'drop' is required only under default detection; an FSET on an object that fails WHERE before and after may or may not produce 'outside'; a live fence connection is not asserted for DROP",
		"an object that does not satisfy the WHERE filter counts as outside the area (a SET/FSET that flips the verdict of an object inside the area is an enter or an exit)")
	var cfgs []c05Config
	quick := job.Tier != "thorough"
	for _, f := range []string{"nearby", "within", "intersects"} {
		for d := -1; d < 32; d++ {
			for _, a := range []string{"", "set", "del", "set,fset"} {
				for _, fl := range []string{"none", "match", "nomatch", "where", "nowhere", "limit", "whereeval", "nowhereeval"} {
					for _, p := range []string{"none", "disjoint", "overlap", "outside", "many", "redefined", "long", "otherkey", "flaky"} {
						if quick {
							// quick: full DETECT x shape x population for the plain fence; filters and COMMANDS on a DETECT sample
							plain := a == "" && fl == "none"
							sample := d == -1 || d == 3 || d == 12 || d == 31
							if !(plain && (p == "none" || p == "overlap" || p == "otherkey" || ((p == "many" || p == "redefined") && d%4 == 3) || (p == "long" || p == "flaky") && (d == -1 || d == 1)) || sample && p == "none") {
								continue
							}
						}
						cfgs = append(cfgs, c05Config{f, d, a, fl, p})
					}
				}
			}
		}
	}
	var only *c05Config
	if job.Replay != nil {
		only = &c05Config{}
		mustJSON(job.Replay, only)
	}
	for i, cfg := range cfgs {
		if only != nil {
			if *only != cfg {
				continue
			}
		} else if i%job.NShards != job.Shard {
			continue
		}
		if res.OverBudget() {
			res.Cap("time budget hit")
			break
		}
		c05RunConfig(job, res, cfg)
		if i < 2 {
			res.Sample(map[string]any{"config": cfg.String(), "history_steps": len(c05HistoryFor(cfg))})
		}
	}
	res.Bounds["configurations"] = len(cfgs)
	if job.Shard == 0 && only == nil {
		c05PolarCircle(job, res)
		c05Outputs(job, res)
	}
}

func isSubList(sub, full []string) bool {
	i := 0
	for _, f := range full {
		if i < len(sub) && sub[i] == f {
			i++
		}
	}
	return i == len(sub)
}

// c05PolarCircle: a circular fence at high latitude.  The circle reaches further
// east and west than the bounding box of the polygon that stands for it; an
// object entering there must be reported to a channel and a webhook (which are
// selected through an index of fence rectangles) exactly as to a live fence.
func c05PolarCircle(job *Job, res *Result) {
	ep := newFakeEndpoint(nil)
	defer ep.Close()
	steps := []struct {
		lat, lon string
		want     string
	}{
		// DETECT enter,exit: the fence is not among the "outside" detectors, which are always consulted
		{"70", "60", ""},
		{"79.6", "25.5", "set/enter/a"}, // inside the circle, east of the polygon's box
		{"79.6", "60", "set/exit/a"},
		{"79.6", "-25.5", "set/enter/a"}, // the same on the west side
		{"79.7", "-25.4", ""},
		{"60", "-25.5", "set/exit/a"},
	}
	x := runExec(job, freezeAllBut("manager"), func(x *Exec) {
		in := x.Start("L", x.dir+"/L", 9001, nil)
		c := x.Dial(in.Addr)
		fence := w("NEARBY pk FENCE DETECT enter,exit POINT 80 0 500000")
		c.Do(append([]string{"SETCHAN", "pch"}, fence...)...)
		c.Do(append([]string{"SETHOOK", "phk", ep.URL()}, fence...)...)
		sub := x.Dial(in.Addr)
		sub.Send(respCmd("SUBSCRIBE", "pch"))
		live := x.Dial(in.Addr)
		live.Send(respCmd(fence...))
		vsched.Quiesce()
		recvPayloads(sub)
		recvPayloads(live)
		seen := 0
		for si, st := range steps {
			c.Do("SET", "pk", "a", "POINT", st.lat, st.lon)
			vsched.Quiesce()
			nw := len(strings.Fields(st.want))
			vsched.WaitUntilOr(func() bool { return len(ep.OK())-seen >= nw }, int64(2*stdtime.Second))
			vsched.Quiesce()
			okb := ep.OK()
			got := map[string][]string{"channel": recvPayloads(sub), "live": recvPayloads(live), "webhook": okb[seen:]}
			seen = len(okb)
			for _, recv := range []string{"channel", "webhook", "live"} {
				var gs []string
				for _, raw := range got[recv] {
					gs = append(gs, c05Parse(raw).String())
				}
				res.Evaluations++
				if strings.Join(gs, " ") != st.want {
					res.Violate("C05/polar-circle:"+recv, fmt.Sprintf("step %d SET pk a POINT %s %s: %s received [%s], expected [%s]  [fence NEARBY DETECT enter,exit POINT 80 0 500000]", si, st.lat, st.lon, recv, strings.Join(gs, " "), st.want), map[string]any{"polar": si})
				}
			}
			res.DistinctS(fmt.Sprint("polar", si))
		}
	})
	if x.Err != "" || len(x.Crashes) > 0 {
		res.Violate("C05/polar-circle:hang-or-crash", fmt.Sprint(x.Err, x.Crashes), nil)
	}
}

// c05Outputs: whatever output form a fence is defined with, each message is one
// JSON document carrying the object's id as a string (and a top-level distance
// when DISTANCE is asked for).
func c05Outputs(job *Job, res *Result) {
	x := runExec(job, freezeAllBut(), func(x *Exec) {
		in := x.Start("L", x.dir+"/L", 9001, nil)
		c := x.Dial(in.Addr)
		for oi, out := range [][]string{nil, {"IDS"}, {"DISTANCE"}, {"DISTANCE", "IDS"}, {"POINTS"}, {"BOUNDS"}, {"HASHES", "5"}, {"DISTANCE", "POINTS"}, {"OBJECTS"}} {
			name := fmt.Sprintf("oc%d", oi)
			key := fmt.Sprintf("ok%d", oi)
			def := append(append([]string{"SETCHAN", name, "NEARBY", key, "FENCE"}, out...), "POINT", "5", "5", "10000")
			if r := c.Do(def...); r.IsErr() {
				res.Violate("C05/output-form:setchan", fmt.Sprintf("%v replied %s", def, r), nil)
				continue
			}
			sub := x.Dial(in.Addr)
			sub.Send(respCmd("SUBSCRIBE", name))
			vsched.Quiesce()
			recvPayloads(sub)
			c.Do("SET", key, "c", "FIELD", "speed", "7", "POINT", "5.01", "5")
			vsched.Quiesce()
			msgs := recvPayloads(sub)
			res.Evaluations++
			res.DistinctS(fmt.Sprint("outputform", out))
			if len(msgs) == 0 {
				res.Violate("C05/output-form:missing", fmt.Sprintf("a fence defined with output %v published nothing for an object entering it", out), map[string]any{"output": out})
			}
			for _, m := range msgs {
				var doc map[string]any
				if err := json.Unmarshal([]byte(m), &doc); err != nil {
					res.Violate("C05/output-form:not-json", fmt.Sprintf("fence output %v: %v: %s", out, err, vclip(m, 200)), map[string]any{"output": out})
					continue
				}
				if id, ok := doc["id"].(string); !ok || id != "c" {
					res.Violate("C05/output-form:id", fmt.Sprintf("fence output %v: the message does not carry the id as a string: %s", out, vclip(m, 240)), map[string]any{"output": out})
				}
				if len(out) > 0 && out[0] == "DISTANCE" {
					if d, ok := doc["distance"].(float64); !ok || d < 1000 || d > 1200 {
						res.Violate("C05/output-form:distance", fmt.Sprintf("fence output %v: no top-level distance of about 1112 m: %s", out, vclip(m, 240)), map[string]any{"output": out})
					}
				}
			}
			sub.c.Kill()
		}
	})
	if x.Err != "" || len(x.Crashes) > 0 {
		res.Violate("C05/output-form:hang-or-crash", fmt.Sprint(x.Err, x.Crashes), nil)
	}
}
