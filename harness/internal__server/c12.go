//go:build verif

package server

// C12 (server part) - filters mean what they say; range and count shortcuts
// never change results.
//
// SEQ over inputs on one real server: ALL well-formed patterns of length <= 3
// over {a b * ? [ ] \ ^ -} x every pattern consumer (SCAN / SEARCH MATCH, KEYS,
// PDEL, HOOKS, CHANS, PDELHOOK, PDELCHAN) against client-side filtering of the
// unfiltered listing with an independent matcher; WHERE / WHEREIN over 12 field
// values x all range / comparison forms against an independent implementation
// of the documented value order; COUNT = number of IDS for the same query,
// DESC = reverse of ASC.

import (
	"fmt"
	"math"
	"sort"
	"strconv"
	"strings"

	"github.com/tidwall/tile38/internal/glob"
	"github.com/tidwall/tile38/internal/vshim/vsched"
)

func init() { checks["c12srv"] = checkC12Srv }

var c12Names = []string{"a", "ab", "abc", "b", "ba", "a*b", "a?c", "a[b]", `a\b`, "A", "a-b", "^a", "bb", "é", "aé", "bü1"}

// value kinds for WHERE: rank, numeric value, string
type c12Val struct {
	Set  string // text given to FIELD / WHERE ("" = field missing)
	Rank int    // Null 0 < False 1 < Number 2 < String 3 < True 4 < JSON 5
	Num  float64
	Str  string
}

var c12Vals = []c12Val{
	{"", 2, 0, ""}, {"0", 2, 0, ""}, {"1", 2, 1, ""}, {"-1.5", 2, -1.5, ""}, {"a", 3, 0, "a"}, {"B", 3, 0, "b"}, {"true", 4, 0, "true"}, {"false", 1, 0, "false"},
	{"null", 0, 0, "null"}, {`{"x":1}`, 5, 0, `{"x":1}`}, {"+Inf", 2, math.Inf(1), ""}, {"-Inf", 2, math.Inf(-1), ""}, {"10", 2, 10, ""}, {"abc", 3, 0, "abc"},
	{"ABd", 3, 0, "abd"}, {"ab", 3, 0, "ab"}, {"Abz", 3, 0, "abz"}, {"aBC", 3, 0, "abc"}, {"7.50", 2, 7.5, ""},
}

// other spellings of numbers that are stored (or of the 0 a missing field reads
// as): only ever used on the query side
var c12Spellings = []c12Val{
	{"10.0", 2, 10, ""}, {"1e1", 2, 10, ""}, {"1.0", 2, 1, ""}, {"-1.50", 2, -1.5, ""}, {"0.0", 2, 0, ""}, {"-0", 2, 0, ""}, {"7.5", 2, 7.5, ""}, {"75e-1", 2, 7.5, ""},
}

func c12Less(a, b c12Val) bool {
	if a.Rank != b.Rank {
		return a.Rank < b.Rank
	}
	if a.Rank == 2 {
		return a.Num < b.Num
	}
	return a.Str < b.Str
}

func checkC12Srv(job *Job, res *Result) {
	res.Rule = "SEQ over inputs: all well-formed patterns of length <= 3 over 9 bytes x 8 pattern consumers (+ HOOKS / CHANS / PDELHOOK / PDELCHAN on a server whose hooks and channels have interleaved names); WHERE f min max for all pairs of 13 bounds x open/closed, WHERE f op v for 6 operators x 13 values, WHEREIN subsets of size 1-2, on 19 objects of every value kind; 8 alternative spellings of stored numbers (10.0, 1e1, -0, 75e-1 ...) on the query side of every operator, of a closed range and of WHEREIN; the virtual fields z and properties.<path> on points with / without z and GeoJSON features (incl. strings that differ only in case or after a common case-insensitive prefix); COUNT vs IDS and DESC vs ASC for every filter, with and without LIMIT and CURSOR (inside, at and beyond the size of the collection), on a collection mixing strings and geometries in three states (built; ids changed kind and values repeated; after deletions); every SEARCH value stored twice; distinct = distinct (consumer / filter form, expected result)"
	res.Assumptions = append(res.Assumptions, "malformed patterns (glob.Match reports an error) are skipped", "NaN is excluded from the comparison matrix (its order is not documented); strings compare case-insensitively; a missing field reads as 0")
	pa := []byte{'a', 'b', '*', '?', '[', ']', '\\', '^', '-'}
	var pats []string
	var gp func(cur []byte)
	gp = func(cur []byte) {
		if len(cur) > 0 {
			if _, err := glob.Match(string(cur), "x"); err == nil {
				pats = append(pats, string(cur))
			}
		}
		if len(cur) == 3 {
			return
		}
		for _, b := range pa {
			gp(append(cur, b))
		}
	}
	gp(nil)
	pats = append(pats, "[a-b]*", "[^a]*", `a\*b`, `a\?c`, `a\[b\]`, `a\\b`, "*b", "?", "??", "a*b*", `\a*`, "[ab][ab]", "[é]", "[à-ü]*", "a[^0-9]", "b[^0-9]1", "[^a]", "?[é]", "a?", "b?1", "[a-é]*")
	x := runExec(job, freezeAllBut(), func(x *Exec) {
		in := x.Start("L", x.dir+"/L", 9001, nil)
		c := x.Dial(in.Addr)
		// hooks and channels share one namespace: hooks live on a second server
		in2 := x.Start("H", x.dir+"/H", 9002, nil)
		ch := x.Dial(in2.Addr)
		fence := []string{"NEARBY", "k9", "FENCE", "POINT", "50", "50", "100"}
		setup := func() {
			for i, n := range c12Names {
				c.Do("SET", "gk", n, "POINT", "1", fmt.Sprint(i))                          // ids
				c.Do("SET", "vk", "id"+fmt.Sprint(100+i), "STRING", n)                     // values (SEARCH matches values)
				c.Do("SET", "vk", "it"+fmt.Sprint(100+i), "STRING", n)                     // every value twice
				c.Do("SET", n, "x", "POINT", "1", "1")                                     // keys
				c.Do(append([]string{"SETCHAN", n}, fence...)...)                          // channels
				ch.Do(append([]string{"SETHOOK", n, "http://127.0.0.1:1/x"}, fence...)...) // hooks
			}
		}
		setup()
		// search-type replies: [cursor, [item...]] where an item is an id or [id, ...]
		listOf := func(v rv) []string {
			var out []string
			if v.K != '*' || len(v.A) != 2 || v.A[0].K != ':' || v.A[1].K != '*' {
				return []string{"<not a search reply: " + vclip(v.String(), 60) + ">"}
			}
			for _, e := range v.A[1].A {
				if e.K == '*' && len(e.A) > 0 {
					out = append(out, e.A[0].S)
				} else {
					out = append(out, e.S)
				}
			}
			return out
		}
		// KEYS / HOOKS / CHANS replies: a flat list of names or of [name, ...] entries
		namesOf := func(v rv) []string {
			var out []string
			for _, e := range v.A {
				if e.K == '*' && len(e.A) > 0 {
					out = append(out, e.A[0].S)
				} else {
					out = append(out, e.S)
				}
			}
			return out
		}
		caseNo := 0
		for _, p := range pats {
			caseNo++
			if caseNo%job.NShards != job.Shard {
				continue
			}
			var want []string
			for _, n := range c12Names {
				if mGlob(p, n) {
					want = append(want, n)
				}
			}
			sort.Strings(want)
			cmp := func(consumer string, got []string, wantList []string, ordered bool) {
				g := append([]string(nil), got...)
				wl := append([]string(nil), wantList...)
				if !ordered {
					sort.Strings(g)
					sort.Strings(wl)
				}
				res.Evaluations++
				res.DistinctS(consumer + fmt.Sprint(len(wl) == 0, len(wl) == len(c12Names)))
				if strings.Join(g, "\x00") != strings.Join(wl, "\x00") {
					first := "literal-first"
					if p[0] == '*' || p[0] == '?' || p[0] == '[' || p[0] == '\\' {
						first = "meta-first"
					}
					res.Violate("C12/pattern:"+consumer+":"+first, fmt.Sprintf("%s with pattern %q selected %q, the names matching the glob are %q", consumer, p, g, wl), map[string]any{"consumer": consumer, "pattern": p})
				}
			}
			cmp("scan-match", listOf(c.Do("SCAN", "gk", "LIMIT", "100000", "MATCH", p, "IDS")), want, true)
			rev := append([]string(nil), want...)
			sort.Sort(sort.Reverse(sort.StringSlice(rev)))
			cmp("scan-match-desc", listOf(c.Do("SCAN", "gk", "LIMIT", "100000", "MATCH", p, "DESC", "IDS")), rev, true)
			// SEARCH matches values: expected ids are those whose value matches, in value order
			sv := listOf(c.Do("SEARCH", "vk", "LIMIT", "100000", "MATCH", p))
			var svWant []string
			type pair struct{ v, id string }
			var ps []pair
			for i, n := range c12Names {
				if mGlob(p, n) {
					ps = append(ps, pair{n, "id" + fmt.Sprint(100+i)}, pair{n, "it" + fmt.Sprint(100+i)})
				}
			}
			sort.Slice(ps, func(i, j int) bool { return ps[i].v < ps[j].v || ps[i].v == ps[j].v && ps[i].id < ps[j].id })
			for _, e := range ps {
				svWant = append(svWant, e.id)
			}
			cmp("search-match", sv, svWant, true)
			if cv := c.Do("SCAN", "gk", "MATCH", p, "COUNT"); cv.String() != ":"+strconv.Itoa(len(want)) {
				res.Violate("C12/count-vs-ids:scan-match", fmt.Sprintf("SCAN gk MATCH %q COUNT -> %s, IDS returns %d", p, cv, len(want)), map[string]any{"pattern": p})
			}
			// keys: the names plus the fixed keys gk, vk
			var kw []string
			for _, k := range append(append([]string{}, c12Names...), "gk", "vk") {
				if mGlob(p, k) {
					kw = append(kw, k)
				}
			}
			cmp("keys", namesOf(c.Do("KEYS", p)), kw, false)
			cmp("hooks", namesOf(ch.Do("HOOKS", p)), want, false)
			cmp("chans", namesOf(c.Do("CHANS", p)), want, false)
			// destructive consumers: compare the survivors, then restore
			c.Do("PDEL", "gk", p)
			var surv []string
			for _, n := range c12Names {
				if !mGlob(p, n) {
					surv = append(surv, n)
				}
			}
			cmp("pdel", listOf(c.Do("SCAN", "gk", "LIMIT", "100000", "IDS")), surv, false)
			ch.Do("PDELHOOK", p)
			cmp("pdelhook", namesOf(ch.Do("HOOKS", "*")), surv, false)
			c.Do("PDELCHAN", p)
			cmp("pdelchan", namesOf(c.Do("CHANS", "*")), surv, false)
			setup()
			res.States++
		}
		// ---- hooks and channels share one name-ordered registry: interleaved names of both kinds
		if job.Shard == 0 {
			m := x.Start("M", x.dir+"/M", 9003, nil)
			cm := x.Dial(m.Addr)
			mixed := []string{"job:1", "job:2", "job:3", "job:4", "job:5", "other", "zz"}
			mk := func() {
				for i, n := range mixed {
					if i%2 == 0 {
						cm.Do(append([]string{"SETHOOK", n, "http://127.0.0.1:1/x"}, fence...)...)
					} else {
						cm.Do(append([]string{"SETCHAN", n}, fence...)...)
					}
				}
			}
			kindOf := func(hook bool, pat string) (out []string) {
				for i, n := range mixed {
					if (i%2 == 0) == hook && mGlob(pat, n) {
						out = append(out, n)
					}
				}
				return
			}
			for _, pat := range []string{"*", "job:*", "job:[2-4]", "o*", "z*", "job:5", "j*3"} {
				mk()
				for _, q := range []struct {
					cmd  string
					hook bool
				}{{"HOOKS", true}, {"CHANS", false}} {
					got, want := namesOf(cm.Do(q.cmd, pat)), kindOf(q.hook, pat)
					sort.Strings(got)
					res.Evaluations++
					res.DistinctS(fmt.Sprint("mixed", q.cmd, pat, len(want)))
					if strings.Join(got, " ") != strings.Join(want, " ") {
						res.Violate("C12/pattern:"+strings.ToLower(q.cmd)+":mixed-registry", fmt.Sprintf("%s %s on a server holding hooks and channels with interleaved names %v selected %v, expected %v", q.cmd, pat, mixed, got, want), map[string]any{"consumer": q.cmd, "pattern": pat})
					}
				}
				for _, q := range []struct {
					cmd, list string
					hook      bool
				}{{"PDELHOOK", "HOOKS", true}, {"PDELCHAN", "CHANS", false}} {
					r := cm.Do(q.cmd, pat)
					left := namesOf(cm.Do(q.list, "*"))
					sort.Strings(left)
					var want []string
					for i, n := range mixed {
						if (i%2 == 0) == q.hook && !mGlob(pat, n) {
							want = append(want, n)
						}
					}
					res.Evaluations++
					if strings.Join(left, " ") != strings.Join(want, " ") || r.String() != ":"+strconv.Itoa(len(kindOf(q.hook, pat))) {
						res.Violate("C12/pattern:"+strings.ToLower(q.cmd)+":mixed-registry", fmt.Sprintf("%s %s replied %s and left %v, expected %d deletions leaving %v", q.cmd, pat, r, left, len(kindOf(q.hook, pat)), want), map[string]any{"consumer": q.cmd, "pattern": pat})
					}
				}
			}
		}
		// ---- WHERE / WHEREIN
		for i, v := range c12Vals {
			args := []string{"SET", "wk", fmt.Sprintf("v%02d", i)}
			if v.Set != "" {
				args = append(args, "FIELD", "f", v.Set)
			}
			c.Do(append(args, "POINT", "1", "1")...)
		}
		bounds := c12Vals[1:]
		expect := func(pred func(v c12Val) bool) []string {
			var out []string
			for i, v := range c12Vals {
				if pred(v) {
					out = append(out, fmt.Sprintf("v%02d", i))
				}
			}
			return out
		}
		chk := func(form string, q []string, want []string) {
			caseNo++
			if caseNo%job.NShards != job.Shard {
				return
			}
			got := listOf(c.Do(append(append([]string{"SCAN", "wk", "LIMIT", "100000"}, q...), "IDS")...))
			res.Evaluations++
			res.DistinctS(form + fmt.Sprint(len(want)))
			if strings.Join(got, " ") != strings.Join(want, " ") {
				res.Violate("C12/where:"+form, fmt.Sprintf("SCAN wk %v IDS -> %v, the documented value order gives %v (values: %v)", q, got, want, c12Vals), map[string]any{"query": q})
			}
			if cv := c.Do(append(append([]string{"SCAN", "wk"}, q...), "COUNT")...); cv.String() != ":"+strconv.Itoa(len(got)) {
				res.Violate("C12/count-vs-ids:where", fmt.Sprintf("SCAN wk %v COUNT -> %s, IDS returns %d", q, cv, len(got)), map[string]any{"query": q})
			}
		}
		for _, lo := range bounds {
			for _, hi := range bounds {
				for _, ox := range []int{0, 1, 2, 3} {
					lo, hi := lo, hi
					ls, hs := lo.Set, hi.Set
					if ox&1 != 0 {
						ls = "(" + ls
					}
					if ox&2 != 0 {
						hs = "(" + hs
					}
					if strings.HasPrefix(lo.Set, "{") || strings.HasPrefix(hi.Set, "{") {
						continue // JSON bounds cannot be written as range arguments unambiguously
					}
					if c0 := lo.Set[0]; (c0 >= 'a' && c0 <= 'z') || (c0 >= 'A' && c0 <= 'Z') {
						continue // WHERE name <word> ... is the expression form, not a range
					}
					chk(fmt.Sprintf("range:%d", ox), []string{"WHERE", "f", ls, hs}, expect(func(v c12Val) bool {
						if ox&1 != 0 && !c12Less(lo, v) || ox&1 == 0 && c12Less(v, lo) {
							return false
						}
						if ox&2 != 0 && !c12Less(v, hi) || ox&2 == 0 && c12Less(hi, v) {
							return false
						}
						return true
					}))
				}
			}
		}
		for _, b := range bounds {
			b := b
			eq := func(v c12Val) bool { return !c12Less(v, b) && !c12Less(b, v) }
			for op, pred := range map[string]func(v c12Val) bool{
				"<": func(v c12Val) bool { return c12Less(v, b) }, "<=": func(v c12Val) bool { return !c12Less(b, v) },
				">": func(v c12Val) bool { return c12Less(b, v) }, ">=": func(v c12Val) bool { return !c12Less(v, b) },
				"==": eq, "!=": func(v c12Val) bool { return !eq(v) }} {
				chk("op:"+op, []string{"WHERE", "f", op, b.Set}, expect(pred))
			}
			chk("wherein:1", []string{"WHEREIN", "f", "1", b.Set}, expect(eq))
			for _, b2 := range bounds[:4] {
				b2 := b2
				chk("wherein:2", []string{"WHEREIN", "f", "2", b.Set, b2.Set}, expect(func(v c12Val) bool {
					return eq(v) || (!c12Less(v, b2) && !c12Less(b2, v))
				}))
			}
		}
		for _, b := range c12Spellings {
			b := b
			eq := func(v c12Val) bool { return !c12Less(v, b) && !c12Less(b, v) }
			for op, pred := range map[string]func(v c12Val) bool{
				"<": func(v c12Val) bool { return c12Less(v, b) }, "<=": func(v c12Val) bool { return !c12Less(b, v) },
				">": func(v c12Val) bool { return c12Less(b, v) }, ">=": func(v c12Val) bool { return !c12Less(v, b) },
				"==": eq, "!=": func(v c12Val) bool { return !eq(v) }} {
				chk("spelling:op:"+op, []string{"WHERE", "f", op, b.Set}, expect(pred))
			}
			chk("spelling:range", []string{"WHERE", "f", b.Set, b.Set}, expect(eq))
			chk("spelling:wherein:1", []string{"WHEREIN", "f", "1", b.Set}, expect(eq))
			chk("spelling:wherein:2", []string{"WHEREIN", "f", "2", "abc", b.Set}, expect(func(v c12Val) bool { return eq(v) || v.Str == "abc" }))
		}
		// ---- virtual fields: z (third coordinate of a point, 0 otherwise) and properties.<path> of a GeoJSON feature
		c.Do("SET", "zk", "p1", "POINT", "1", "1", "5")
		c.Do("SET", "zk", "p2", "POINT", "1", "2")
		c.Do("SET", "zk", "p3", "POINT", "1", "3", "-2")
		c.Do("SET", "zk", "p4", "FIELD", "z2", "9", "POINT", "1", "4", "5.5")
		c.Do("SET", "zk", "ft", "OBJECT", `{"type":"Feature","geometry":{"type":"Point","coordinates":[5,1]},"properties":{"speed":7,"name":"x","nested":{"a":3}}}`)
		c.Do("SET", "zk", "fz", "OBJECT", `{"type":"Feature","geometry":{"type":"Point","coordinates":[6,1,8]},"properties":{"speed":70}}`)
		zvals := map[string]float64{"p1": 5, "p2": 0, "p3": -2, "p4": 5.5, "ft": 0, "fz": 8}
		speed := map[string]float64{"ft": 7, "fz": 70}
		nested := map[string]float64{"ft": 3}
		vchk := func(label string, q []string, pred func(id string) bool) {
			var want []string
			for _, id := range []string{"ft", "fz", "p1", "p2", "p3", "p4"} {
				if pred(id) {
					want = append(want, id)
				}
			}
			for _, cmd := range [][]string{{"SCAN", "zk"}, {"WITHIN", "zk"}, {"NEARBY", "zk"}} {
				args := append(append([]string{}, cmd...), q...)
				args = append(args, "IDS")
				switch cmd[0] {
				case "WITHIN":
					args = append(args, "BOUNDS", "-90", "-180", "90", "180")
				case "NEARBY":
					args = append(args, "POINT", "1", "1")
				}
				got := listOf(c.Do(args...))
				sort.Strings(got)
				res.Evaluations++
				res.DistinctS("virtual:" + label + cmd[0] + fmt.Sprint(len(want)))
				if strings.Join(got, " ") != strings.Join(want, " ") {
					res.Violate("C12/where:virtual-field:"+label, fmt.Sprintf("%v selected %v, expected %v", args, got, want), map[string]any{"query": args})
				}
			}
		}
		for _, b := range [][2]float64{{1, 10}, {-5, 0}, {0, 0}, {5, 5.5}, {6, 100}, {-100, 100}} {
			b := b
			vchk("z", []string{"WHERE", "z", fnum(b[0]), fnum(b[1])}, func(id string) bool { return zvals[id] >= b[0] && zvals[id] <= b[1] })
			vchk("properties", []string{"WHERE", "properties.speed", fnum(b[0]), fnum(b[1])}, func(id string) bool { return speed[id] >= b[0] && speed[id] <= b[1] })
			vchk("properties-nested", []string{"WHERE", "properties.nested.a", fnum(b[0]), fnum(b[1])}, func(id string) bool { return nested[id] >= b[0] && nested[id] <= b[1] })
		}
		vchk("z-wherein", []string{"WHEREIN", "z", "2", "5", "8"}, func(id string) bool { return zvals[id] == 5 || zvals[id] == 8 })
		vchk("properties-wherein", []string{"WHEREIN", "properties.speed", "2", "7", "0"}, func(id string) bool { return speed[id] == 7 || speed[id] == 0 })
		vchk("z-op", []string{"WHERE", "z", ">", "0"}, func(id string) bool { return zvals[id] > 0 })
		vchk("z-and-field", []string{"WHERE", "z", "5", "6", "WHERE", "z2", "9", "9"}, func(id string) bool { return id == "p4" })
		// ---- COUNT = len(IDS), DESC = reverse(ASC) on a mixed collection
		for i := 0; i < 9; i++ {
			if i%2 == 0 {
				c.Do("SET", "mix", fmt.Sprintf("m%d", i), "FIELD", "f", fmt.Sprint(i%3), "POINT", fmt.Sprint(i), "1")
			} else {
				c.Do("SET", "mix", fmt.Sprintf("m%d", i), "FIELD", "f", fmt.Sprint(i%3), "STRING", fmt.Sprintf("s%d", 9-i))
			}
		}
		filters := [][]string{nil, {"MATCH", "m*"}, {"MATCH", "m1"}, {"MATCH", "s6"}, {"MATCH", "s*"}, {"WHERE", "f", "1", "2"}, {"WHEREIN", "f", "1", "0"}, {"MATCH", "m?", "WHERE", "f", "0", "1"},
			{"WHEREEVAL", "return FIELDS.f == 1", "0"}}
		// the same questions in three states of the collection: as built; after ids
		// changed kind (string <-> geometry) and two strings share a value; after deletions
		for phase := 0; phase < 4; phase++ {
			switch phase {
			case 3:
				// strings written again with the value they already have but other fields,
				// and a field edit of a string: the value order is unchanged, the objects are not
				c.Do("SET", "mix", "m3", "FIELD", "f", "1", "STRING", "s6")
				c.Do("FSET", "mix", "m5", "f", "1")
				c.Do("SET", "mix", "m9", "FIELD", "f", "2", "STRING", "s6")
			case 1:
				c.Do("SET", "mix", "m0", "FIELD", "f", "0", "STRING", "s6")
				c.Do("SET", "mix", "m1", "FIELD", "f", "1", "POINT", "1", "1")
				c.Do("SET", "mix", "m2", "FIELD", "f", "2", "STRING", "s6")
				c.Do("SET", "mix", "m5", "FIELD", "f", "2", "STRING", "s4")
			case 2:
				c.Do("DEL", "mix", "m0")
				c.Do("DEL", "mix", "m4")
				c.Do("SET", "mix", "m7", "FIELD", "f", "1", "POINT", "7", "1")
				c.Do("SET", "mix", "m9", "FIELD", "f", "1", "STRING", "s6")
			}
			// SEARCH walks the value index, SCAN the id index: with the same field filter
			// SEARCH must select exactly the strings SCAN selects
			{
				isStr := map[string]bool{}
				for _, id := range listOf(c.Do("SEARCH", "mix", "LIMIT", "1000", "IDS")) {
					isStr[id] = true
				}
				for _, f := range filters {
					if len(f) > 0 && f[0] == "MATCH" {
						continue // MATCH means ids for SCAN and values for SEARCH
					}
					var want []string
					for _, id := range listOf(c.Do(append(append([]string{"SCAN", "mix", "LIMIT", "1000"}, f...), "IDS")...)) {
						if isStr[id] {
							want = append(want, id)
						}
					}
					got := listOf(c.Do(append(append([]string{"SEARCH", "mix", "LIMIT", "1000"}, f...), "IDS")...))
					sort.Strings(got)
					sort.Strings(want)
					res.Evaluations++
					res.DistinctS(fmt.Sprint("search-vs-scan", phase, len(f), len(want)))
					if strings.Join(got, " ") != strings.Join(want, " ") {
						res.Violate("C12/search-vs-scan", fmt.Sprintf("phase %d: SEARCH mix %v IDS selects %v, the strings SCAN mix %v IDS selects are %v", phase, f, got, f, want), map[string]any{"filter": f, "phase": phase})
					}
				}
			}
			for _, cmd := range []string{"SCAN", "SEARCH", "WITHIN", "INTERSECTS", "NEARBY"} {
				area := []string{}
				switch cmd {
				case "WITHIN", "INTERSECTS":
					area = []string{"BOUNDS", "-90", "-180", "90", "180"}
				case "NEARBY":
					area = []string{"POINT", "0", "0"}
				}
				for _, f := range filters {
					for _, lim := range []string{"", "1", "2", "3", "100"} {
						for _, cur := range []string{"", "2", "5", "9", "10", "1000", "9223372036854775808", "18446744073709551615"} {
							caseNo++
							if caseNo%job.NShards != job.Shard {
								continue
							}
							base := []string{cmd, "mix"}
							if cur != "" {
								base = append(base, "CURSOR", cur)
							}
							if lim != "" {
								base = append(base, "LIMIT", lim)
							}
							base = append(base, f...)
							ids := listOf(c.Do(append(append(append([]string{}, base...), "IDS"), area...)...))
							cv := c.Do(append(append(append([]string{}, base...), "COUNT"), area...)...)
							res.Evaluations++
							res.DistinctS(fmt.Sprint("count", phase, cmd, len(f), lim, cur != "", len(ids)))
							if cv.String() != ":"+strconv.Itoa(len(ids)) {
								ftag := "nofilter"
								if len(f) > 0 {
									ftag = strings.ToLower(f[0])
								}
								ltag := "nolimit"
								if lim != "" {
									ltag = "limit"
								}
								res.Violate(fmt.Sprintf("C12/count-vs-ids:%s:%s:%s", strings.ToLower(cmd), ftag, ltag),
									fmt.Sprintf("%v COUNT -> %s but IDS returns %d items %v", base, cv, len(ids), ids), map[string]any{"query": base})
							}
							if (cmd == "SCAN" || cmd == "SEARCH") && lim == "" && cur == "" {
								asc := listOf(c.Do(append(append([]string{}, base...), "ASC", "IDS")...))
								desc := listOf(c.Do(append(append([]string{}, base...), "DESC", "IDS")...))
								r := append([]string(nil), asc...)
								for i, j := 0, len(r)-1; i < j; i, j = i+1, j-1 {
									r[i], r[j] = r[j], r[i]
								}
								if strings.Join(r, " ") != strings.Join(desc, " ") {
									res.Violate("C12/desc-not-reverse-of-asc:"+strings.ToLower(cmd), fmt.Sprintf("%v ASC -> %v, DESC -> %v", base, asc, desc), map[string]any{"query": base})
								}
							}
						}
					}
				}
			}
		}
		// several MATCH patterns, both orders
		for _, q := range [][]string{{"MATCH", "a*", "MATCH", "b*"}, {"MATCH", "b*", "MATCH", "a*"}, {"MATCH", "ab*", "MATCH", "a*"}, {"MATCH", "a", "MATCH", "bb", "MATCH", "^*"}} {
			var want []string
			for _, n := range c12Names {
				for i := 1; i < len(q); i += 2 {
					if mGlob(q[i], n) {
						want = append(want, n)
						break
					}
				}
			}
			sort.Strings(want)
			asc := listOf(c.Do(append(append([]string{"SCAN", "gk", "LIMIT", "100000"}, q...), "IDS")...))
			desc := listOf(c.Do(append(append([]string{"SCAN", "gk", "LIMIT", "100000"}, q...), "DESC", "IDS")...))
			sort.Strings(desc)
			res.Evaluations += 2
			if strings.Join(asc, " ") != strings.Join(want, " ") || strings.Join(desc, " ") != strings.Join(want, " ") {
				res.Violate("C12/multi-match", fmt.Sprintf("SCAN gk %v: ASC %q, DESC (sorted) %q, expected %q", q, asc, desc, want), map[string]any{"query": q})
			}
		}
		if len(vsched.Crashes) > 0 {
			res.Violate("C12/server-crash", vsched.Crashes[0].Value, nil)
		}
	})
	if x.Err != "" {
		res.Violate("C12/hang", x.Err, nil)
	}
	res.Transitions = res.Evaluations
	res.Validated = res.Evaluations
	res.Bounds["patterns"] = len(pats)
	res.Sample(map[string]any{"names": c12Names, "patterns": len(pats), "field_values": len(c12Vals)})
}
