//go:build verif

package server

// C01 - command replies and visible state conform to a sequential keyspace
// model.  (The same executions carry the C19 oracles when job.Check == "c19".)

import (
	"sort"
	"fmt"
	"strings"
)

func init() {
	checks["c01"] = checkC01
}

const (
	gPoly    = `{"type":"Polygon","coordinates":[[[0,0],[1,0],[1,1],[0,1],[0,0]]]}`
	gFeature = `{"type":"Feature","geometry":{"type":"Point","coordinates":[5,6]},"properties":{"n":1}}`
	gEmpty   = `{"type":"GeometryCollection","geometries":[]}`
	gLine    = `{"type":"LineString","coordinates":[[0,0],[2,2]]}`
)

func sy(s ...string) seqSym { return seqSym{Name: strings.Join(s, " "), Args: s} }

// c01Alphabet: ordered simplest-first.  quick = core subset, thorough = all.
func c01Alphabet(tier string) []seqSym {
	core := []seqSym{
		sy("SET", "k1", "a", "POINT", "1", "2"),
		sy("SET", "k1", "b", "POINT", "3", "4", "5"),
		sy("SET", "k1", "a", "POINT", "1", "2", "0"),
		sy("SET", "k2", "a", "BOUNDS", "1", "2", "3", "4"),
		sy("SET", "k1", "a", "STRING", "hello"),
		sy("SET", "k1", "b", "STRING", `{"x":1}`),
		sy("SET", "k1", "b", "OBJECT", gFeature),
		sy("SET", "k1", "a", "OBJECT", gEmpty),
		sy("SET", "k1", "a", "FIELD", "f", "1", "POINT", "1", "2"),
		sy("SET", "k1", "a", "FIELD", "f", "0", "FIELD", "g", "str", "POINT", "1", "2"),
		sy("SET", "k1", "a", "EX", "100", "POINT", "1", "2"),
		sy("SET", "k1", "a", "NX", "POINT", "9", "9"),
		sy("SET", "k1", "b", "XX", "POINT", "8", "8"),
		sy("SET", "k2", "b", "XX", "POINT", "8", "8"),
		sy("FSET", "k1", "a", "f", "2"),
		sy("FSET", "k1", "a", "f", "7", "f", "2"),
		sy("SET", "k1", "a", "FIELD", "p.q", "5", "FIELD", "f", "1", "POINT", "1", "2"),
		sy("FSET", "k1", "a", "p.q", "6"),
		sy("FSET", "k1", "a", "p.q", "0"),
		sy("FSET", "k1", "b", "XX", "f", "1", "g", "0"),
		sy("DEL", "k1", "a"),
		sy("DEL", "k1", "b", "ERRON404"),
		sy("PDEL", "k1", "a*"),
		sy("DROP", "k1"),
		sy("RENAME", "k1", "k2"),
		sy("RENAMENX", "k1", "k2"),
		sy("SETCHAN", "chk", "NEARBY", "k2", "FENCE", "DETECT", "enter", "POINT", "50", "50", "100"), // (no event ever fires: the objects are far away) RENAME onto / from a watched key is refused
		sy("DELCHAN", "chk"),
		sy("FLUSHDB"),
		sy("EXPIRE", "k1", "a", "100"),
		sy("PERSIST", "k1", "a"),
		sy("JSET", "k1", "b", "x", "2"),
		sy("JSET", "k1", "b", "properties.p", "5"),
		sy("JDEL", "k1", "b", "x"),
		sy("JDEL", "k1", "b", "properties.n"),
	}
	if tier != "thorough" {
		return core
	}
	more := []seqSym{
		sy("SET", "k1", "a", "HASH", "9tbnwg"),
		sy("SET", "k1", "b", "POINT", "3", "4", "-0"),
		sy("SET", "k2", "a", "BOUNDS", "1", "2", "1", "2"),
		sy("SET", "k1", "a", "OBJECT", gPoly),
		sy("SET", "k2", "a", "OBJECT", gLine),
		sy("SET", "k1", "a", "FIELD", "j", `{"x":1}`, "POINT", "1", "2"),
		sy("SET", "k1", "a", "FIELD", "g", "STR", "STRING", "hello"),
		sy("SET", "k2", "b", "NX", "EX", "100", "STRING", "v"),
		sy("FSET", "k1", "a", "g", "STR"),
		sy("FSET", "k1", "a", "f", "0", "g", "x"),
		sy("FSET", "k2", "a", "f", "1"),
		// zero spelled otherwise is a value like any other: only the spelling "0" removes a field
		sy("FSET", "k1", "a", "f", "0.0"),
		sy("SET", "k1", "b", "FIELD", "f", "-0", "POINT", "3", "4"),
		// a deadline whose encoding needs the longest integer form (about 127 years)
		sy("SET", "k1", "a", "EX", "4000000000", "POINT", "1", "2"),
		sy("PDEL", "k1", "*"),
		sy("DROP", "k2"),
		sy("RENAME", "k2", "k1"),
		sy("RENAME", "k1", "k1"),
		sy("RENAMENX", "k2", "k2"),
		sy("EXPIRE", "k2", "a", "100"),
		sy("EXPIRE", "k1", "a", "200"),
		sy("PERSIST", "k2", "a"),
		sy("JSET", "k1", "a", "y", "str"),
		sy("JSET", "k2", "c", "v", "true"),
		sy("JSET", "k1", "b", "z", "7", "STR"),
		sy("JSET", "k2", "c", "v", "true", "STR"), // the text of a literal, stored as a string
		sy("JSET", "k1", "b", "properties.q", "null", "STR"),
		sy("JSET", "k2", "c", "w", "false", "RAW"),
		{Name: "SET k1 a FIELD p+ {json} FIELD p.q hello", Args: []string{"SET", "k1", "a", "FIELD", "p+", `{"q":1}`, "FIELD", "p.q", "hello", "POINT", "1", "1"}}, // a JSON-valued field sorting between "p" and "p.q"
		sy("JSET", "k2", "c", "n", ".5"), // not JSON numbers: stored as strings
		sy("JSET", "k2", "c", "n", "e5"),
		sy("JSET", "k1", "b", "properties.m", "-.5e1"),
		sy("JDEL", "k1", "a", "y"),
		// argument-shape errors: must change nothing
		sy("SET", "k1", "a"),
		sy("SET", "k1", "a", "FIELD", "z", "1", "POINT", "1", "2"),
		sy("SET", "k1", "a", "NX", "XX", "POINT", "1", "2"),
		sy("SET", "k1", "a", "POINT", "1", "x"),
		sy("SET", "k1", "a", "POINT", "NaN", "1"),
		sy("SET", "k1", "a", "POINT", "1", "2", "+Inf"),
		sy("SET", "k1", "a", "BOUNDS", "1", "2", "Inf", "4"),
		sy("FSET", "k1", "a", "f"),
		sy("DEL", "k1"),
		sy("DEL", "k1", "a", "BOGUS"),
		sy("EXPIRE", "k1", "a", "x"),
		sy("RENAME", "k1"),
		sy("PDEL", "k1"),
		sy("JSET", "k1", "a", "p"),
	}
	return append(core, more...)
}

// probes: read commands evaluated in every reached state against the model.
func c01Probes() []seqSym {
	var p []seqSym
	for _, k := range []string{"k1", "k2", "k3"} {
		p = append(p, sy("TYPE", k), sy("SCAN", k), sy("SCAN", k, "DESC", "IDS"), sy("SCAN", k, "MATCH", "a*", "MATCH", "b*", "DESC", "IDS"), sy("SCAN", k, "MATCH", "b*", "MATCH", "a*", "IDS"))
		for _, id := range []string{"a", "b"} {
			p = append(p, sy("GET", k, id), sy("GET", k, id, "WITHFIELDS"), sy("EXISTS", k, id), sy("TTL", k, id),
				sy("FGET", k, id, "f"), sy("FGET", k, id, "g"), sy("FEXISTS", k, id, "f"), sy("FEXISTS", k, id, "j"),
				sy("FGET", k, id, "p.q"), sy("FEXISTS", k, id, "p.q"), sy("FGET", k, id, "f.x"),
				sy("JGET", k, id), sy("JGET", k, id, "x"), sy("JGET", k, id, "properties.n"))
		}
	}
	p = append(p, sy("KEYS", "*"), sy("KEYS", "k1*"), sy("KEYS", "?2"))
	return p
}

type seqHooks struct {
	// AtState runs extra oracles in the destination state; returns violation
	// (sig, detail) or "".
	AtState func(x *Exec, in *Inst, c *Cli, st *mState) [][2]string
}

func runSeqCheck(job *Job, res *Result, prop string, alpha []seqSym, depth int, hooks seqHooks) {
	runSeqCheckOpt(job, res, prop, alpha, depth, hooks, false)
}

// runSeqCheckOpt: with hooksOnly the model is used only to enumerate and
// deduplicate; replies / visible dump are not compared with it (so that a
// defect of another property cannot raise this property's alarm).
func runSeqCheckOpt(job *Job, res *Result, prop string, alpha []seqSym, depth int, hooks seqHooks, hooksOnly bool) {
	probes := c01Probes()
	type arrival struct {
		hash uint64
		via  string
	}
	first := map[string]arrival{}
	owned := map[string]bool{}
	nEdges := 0
	stop := false
	replayOnly := job.Replay != nil
	var wantPath, otherPath []string
	if replayOnly {
		var r struct {
			Path  []string `json:"path"`
			Other []string `json:"other_path"`
		}
		mustJSON(job.Replay, &r)
		wantPath, otherPath = r.Path, r.Other
	}
	total := seqEnumerate(alpha, depth, func(e seqEdge, src, dst *mState) {
		if stop {
			return
		}
		if int(fnv(e.Dst)%uint64(job.NShards)) != job.Shard {
			return
		}
		full := append(symsOf(alpha, e.Path), alpha[e.Sym].String())
		if replayOnly && strings.Join(full, "\n") != strings.Join(wantPath, "\n") && strings.Join(full, "\n") != strings.Join(otherPath, "\n") {
			return
		}
		if res.OverBudget() {
			res.Cap(fmt.Sprintf("time budget hit at depth %d; all shallower edges were executed", len(e.Path)+1))
			stop = true
			return
		}
		nEdges++
		owned[e.Dst] = true
		var other []string // for differential violations: the path of the first arrival
		viol := func(sig, detail string) {
			rp := map[string]any{"path": full}
			if other != nil {
				rp["other_path"] = other
			}
			res.Violate(prop+"/"+sig, detail+"  [after: "+strings.Join(full, " ; ")+"]", rp)
		}
		x := runExec(job, freezeAllBut(), func(x *Exec) {
			in := x.Start("L", x.dir+"/L", 9001, nil)
			c := x.Dial(in.Addr)
			for _, k := range e.Path {
				c.Do(alpha[k].Args...)
			}
			got := c.Do(alpha[e.Sym].Args...)
			sym := alpha[e.Sym]
			if !hooksOnly && !mMatch(e.Exp, got) {
				viol("reply:"+strings.ToLower(sym.Args[0])+":"+replyClass(e.Exp)+"->"+replyClass(got.String()),
					fmt.Sprintf("%s replied %s, model expects %s (state before: %s)", sym, got, e.Exp, e.Src))
			}
			for _, p := range probes {
				if hooksOnly {
					break
				}
				exp := mApply(dst, p.Args) // reads do not modify dst
				g := c.Do(p.Args...)
				if !mMatch(exp, g) {
					viol("read:"+strings.ToLower(p.Args[0])+":"+replyClass(exp)+"->"+replyClass(g.String()),
						fmt.Sprintf("%s replied %s, model expects %s (model state: %s)", p, g, exp, e.Dst))
				}
			}
			sc, err := serverCanon(c)
			if hooksOnly {
			} else if err != nil {
				viol("dump", err.Error())
			} else if sc != mColsPart(e.Dst) {
				sig := "state:" + strings.ToLower(sym.Args[0])
				if e.Src == e.Dst {
					sig = "negative-answer-changed-state:" + strings.ToLower(sym.Args[0])
				}
				viol(sig, fmt.Sprintf("visible state %q, model %q (before: %q)", sc, e.Dst, e.Src))
			}
			if !hooksOnly && strings.Contains(e.Dst+e.Src, "@c:") {
				// the channels the model holds are the channels CHANS lists
				var got, want []string
				for _, e2 := range c.Do("CHANS", "*").A {
					if len(e2.A) > 0 {
						got = append(got, "c:"+e2.A[0].S)
					}
				}
				for _, k := range sortedKeys(dst.Hooks) {
					if strings.HasPrefix(k, "c:") {
						want = append(want, k)
					}
				}
				sort.Strings(got)
				if strings.Join(got, ",") != strings.Join(want, ",") {
					viol("state:channels:"+strings.ToLower(sym.Args[0]), fmt.Sprintf("CHANS * lists %v, model %v", got, want))
				}
			}
			idump, problems := internalDump(in.S)
			for _, p := range problems {
				// index / counter consistency is C19's subject; C01 only claims
				// "a collection exists iff it holds at least one object"
				if hooksOnly || strings.Contains(p, "exists but is empty") {
					viol("audit:"+auditClass(p), p)
				}
			}
			h := fnv(idump)
			if a, ok := first[e.Dst]; !ok {
				first[e.Dst] = arrival{h, strings.Join(full, " ; ")}
			} else if a.hash != h && !hooksOnly {
				other = strings.Split(a.via, " ; ")
				viol("hidden-state:"+strings.ToLower(sym.Args[0]), fmt.Sprintf("internal dump differs from the one reached via [%s]: %s", a.via, idump))
				other = nil
			}
			if hooks.AtState != nil {
				for _, v := range hooks.AtState(x, in, c, dst) {
					viol(v[0], v[1])
				}
			}
			res.Distinct(fnv(e.Dst + "|" + got.String()))
			c.Close()
		})
		if len(x.Crashes) > 0 {
			viol("server-crash:"+strings.ToLower(alpha[e.Sym].Args[0]), fmt.Sprintf("server thread %s panicked: %s", x.Crashes[0].Thread, x.Crashes[0].Value))
		} else if x.Err != "" {
			viol("hang:"+strings.ToLower(alpha[e.Sym].Args[0]), x.Err)
		}
		if nEdges == 1 || nEdges == 1000 {
			res.Sample(map[string]any{"path": full, "expected_reply": e.Exp, "model_state_after": e.Dst})
		}
	})
	res.Transitions += nEdges
	res.Evaluations += nEdges
	res.Validated += nEdges
	res.States += len(owned)
	res.Bounds["depth"] = depth
	res.Bounds["alphabet"] = len(alpha)
	res.Bounds["model_states_total"] = total
	res.Extra["probes_per_state"] = len(probes)
}

func replyClass(s string) string {
	switch {
	case strings.HasPrefix(s, "~err:"):
		return "err(" + strings.TrimSpace(strings.SplitN(s[5:], "'", 2)[0]) + ")"
	case strings.HasPrefix(s, "-"):
		w := strings.Fields(s)
		if len(w) > 3 {
			w = w[:3]
		}
		return "err(" + strings.Join(w[1:], " ") + ")"
	case strings.HasPrefix(s, "~"):
		return s
	case strings.HasPrefix(s, ":"):
		return "int"
	case strings.HasPrefix(s, "+"):
		return s
	case s == "<nil>":
		return "nil"
	case strings.HasPrefix(s, "["):
		return "array"
	}
	return "bulk"
}

func auditClass(p string) string {
	w := strings.Fields(p)
	if len(w) > 3 {
		return strings.Join(w[2:4], "-")
	}
	return "x"
}

func checkC01(job *Job, res *Result) {
	res.Rule = "SEQ: BFS over the model's reachable states for the alphabet to the depth bound; each (state, symbol) edge runs on a fresh real server over the RESP socket path; distinct = distinct (model state after, reply) pairs"
	res.Assumptions = append(res.Assumptions,
		"all polling loops frozen (sequential clients; no deadline is reached: EX values are 100 s and virtual time advances by nanoseconds)",
		"values outside the alphabet and sequences longer than the depth bound are not covered; long random programs (sampling) are not part of this check")
	depth := 3
	if d, ok := job.Params["depth"].(float64); ok {
		depth = int(d)
	}
	alpha := c01Alphabet(job.Tier)
	if a, ok := job.Params["alphabet"].(string); ok {
		alpha = c01Alphabet(a)
	}
	runSeqCheck(job, res, "C01", alpha, depth, seqHooks{})
}

// mColsPart: the collections part of a model canon (hooks / channels follow after the last collection).
func mColsPart(canon string) string {
	if strings.HasPrefix(canon, "@c:") || strings.HasPrefix(canon, "@h:") {
		return ""
	}
	if i := strings.Index(canon, "}@c:"); i >= 0 {
		return canon[:i+1]
	}
	if i := strings.Index(canon, "}@h:"); i >= 0 {
		return canon[:i+1]
	}
	return canon
}
