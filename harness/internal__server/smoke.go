//go:build verif

package server

import (
	"fmt"
	stdtime "time"

	"github.com/tidwall/tile38/internal/vshim/vsched"
)

func init() { checks["smoke"] = checkSmoke }

func checkSmoke(job *Job, res *Result) {
	n := 200
	t0 := stdtime.Now()
	var out string
	var pts, thr int
	for i := 0; i < n; i++ {
		x := runExec(job, freezeAllBut(), func(x *Exec) {
			in := x.Start("L", x.dir+"/L", 9001, nil)
			c := x.Dial(in.Addr)
			out = ""
			for _, cmd := range []string{"SET k a POINT 1 1", "GET k a", "SET k b POINT 2 2", "SCAN k IDS"} {
				out += c.DoS(cmd).String() + " "
			}
			c.Close()
			in.Stop()
			pts, thr = vsched.Points, vsched.NumThreads()
		})
		if x.Err != "" || len(x.Crashes) > 0 {
			res.EngineError = fmt.Sprint(x.Err, x.Crashes)
			return
		}
		res.Evaluations++
	}
	res.Extra["out"] = out
	res.Extra["points"] = pts
	res.Extra["threads"] = thr
	res.Extra["per_exec_ms"] = float64(stdtime.Since(t0).Microseconds()) / 1000 / float64(n)
	res.Distinct(1)
	res.Distinct(2)
}
