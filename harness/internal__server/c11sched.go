//go:build verif

package server

// C11 schedules part: two or three clients page through queries at the same
// time (read commands share Server.mu, so they really overlap).  The dataset
// does not change, so every page must be exactly the page the same command
// returns when it runs alone.

import (
	"fmt"
	stdtime "time"

	"github.com/tidwall/tile38/internal/vshim/vsched"
)

type c11SchedParams struct {
	Name  string
	Conns [][][]string
	Fine  bool // function-entry scheduling points inside the server package
	Prop  string `json:"prop,omitempty"` // property reported under (default C11)
}

func (p c11SchedParams) prop() string {
	if p.Prop != "" {
		return p.Prop
	}
	return "C11"
}

func c11SchedScenarios() []c11SchedParams {
	ws := func(ss ...string) [][]string {
		var out [][]string
		for _, s := range ss {
			out = append(out, w(s))
		}
		return out
	}
	return []c11SchedParams{
		{Name: "fine:scan-pages-vs-scan-pages", Fine: true, Conns: [][][]string{
			ws("SCAN k LIMIT 2 IDS", "SCAN k CURSOR 2 LIMIT 2 IDS"),
			ws("SCAN k DESC LIMIT 3 IDS", "SCAN k DESC CURSOR 3 LIMIT 3 IDS")}},
		{Name: "fine:nearby-vs-search", Fine: true, Conns: [][][]string{
			ws("NEARBY k LIMIT 2 IDS POINT 0 0", "NEARBY k CURSOR 2 LIMIT 2 IDS POINT 0 0"),
			ws("SEARCH k LIMIT 2 IDS", "SEARCH k CURSOR 2 LIMIT 2 IDS")}},
		{Name: "scan-asc-vs-desc", Conns: [][][]string{
			ws("SCAN k LIMIT 2 IDS", "SCAN k CURSOR 2 LIMIT 2 IDS", "SCAN k CURSOR 4 LIMIT 2 IDS"),
			ws("SCAN k DESC LIMIT 3 IDS", "SCAN k DESC CURSOR 3 LIMIT 3 IDS")}},
		{Name: "scan-vs-search", Conns: [][][]string{
			ws("SCAN k LIMIT 2", "SCAN k CURSOR 2 LIMIT 2"),
			ws("SEARCH k LIMIT 1 IDS", "SEARCH k CURSOR 1 LIMIT 1 IDS", "SEARCH k CURSOR 2 LIMIT 1 IDS")}},
		{Name: "nearby-vs-within", Conns: [][][]string{
			ws("NEARBY k LIMIT 2 IDS POINT 0 0", "NEARBY k CURSOR 2 LIMIT 2 IDS POINT 0 0"),
			ws("WITHIN k LIMIT 2 IDS BOUNDS -10 -10 10 10", "WITHIN k CURSOR 2 LIMIT 2 IDS BOUNDS -10 -10 10 10")}},
		{Name: "three-readers", Conns: [][][]string{
			ws("SCAN k LIMIT 3 IDS"), ws("SCAN k CURSOR 1 LIMIT 3 IDS"), ws("INTERSECTS k CURSOR 1 LIMIT 2 IDS BOUNDS -10 -10 10 10")}},
	}
}

func c11SchedRun(job *Job, p c11SchedParams, prefix []int) (out schedOut) {
	x := runExec(job, freezeAllBut(), func(x *Exec) {
		in := x.Start("L", x.dir+"/L", 9001, nil)
		c0 := x.Dial(in.Addr)
		for i, id := range []string{"a", "b", "c", "d", "e"} {
			c0.Do("SET", "k", id, "FIELD", "f", fmt.Sprint(i), "POINT", fmt.Sprint(i), fmt.Sprint(i))
		}
		for i, id := range []string{"s", "t", "u"} {
			c0.Do("SET", "k", id, "STRING", fmt.Sprint("v", i))
		}
		// what each command answers when it runs alone
		alone := map[string]string{}
		for _, conn := range p.Conns {
			for _, cmd := range conn {
				alone[fmt.Sprint(cmd)] = c0.Do(cmd...).String()
			}
		}
		n := len(p.Conns)
		clis := make([]*Cli, n)
		got := make([][]string, n)
		for i := range clis {
			i := i
			clis[i] = x.Dial(in.Addr)
			var pend []byte
			clis[i].c.Peer.OnWrite = func(b []byte) {
				pend = append(pend, b...)
				for {
					v, rest, ok, err := parseRESP(pend)
					if err != nil || !ok {
						return
					}
					pend = rest
					got[i] = append(got[i], v.String())
				}
			}
		}
		vsched.Quiesce()
		for i := range clis {
			var seg []byte
			for _, cmd := range p.Conns[i] {
				seg = append(seg, respCmd(cmd...)...)
			}
			clis[i].c.Inject(seg)
		}
		vsched.Prefix = prefix
		vsched.Fine = p.Fine
		vsched.Exploring = true
		done := vsched.WaitUntilOr(func() bool {
			for i := range clis {
				if len(got[i]) < len(p.Conns[i]) {
					return false
				}
			}
			return true
		}, int64(30*stdtime.Second))
		vsched.Quiesce()
		vsched.Exploring = false
		vsched.Fine = false
		out.Trace = append([]vsched.ChoicePoint(nil), vsched.Trace...)
		out.Diverged = vsched.Diverged
		if len(vsched.Crashes) > 0 {
			out.VSig = p.prop() + "/server-crash:" + p.Name
			out.VDetail = vsched.Crashes[0].Value + "\n" + vsched.Crashes[0].Stack
			return
		}
		if !done {
			out.VSig = p.prop() + "/no-reply:" + p.Name
			out.VDetail = "not every page was answered within 30 virtual seconds; threads: " + vsched.Dump()
			out.Obs = "NO-REPLY"
			return
		}
		out.Obs = fmt.Sprint(got)
		for i := range clis {
			for k, cmd := range p.Conns[i] {
				if want := alone[fmt.Sprint(cmd)]; got[i][k] != want && out.VSig == "" {
					out.VSig = p.prop() + "/concurrent-query-differs:" + p.Name
					out.VDetail = fmt.Sprintf("connection %d: %v answered %s while other clients were paging; the same command alone answers %s", i, cmd, vclip(got[i][k], 300), vclip(want, 300))
				}
			}
		}
	})
	if x.Err != "" && out.VSig == "" {
		out.Err = x.Err
	}
	return out
}

func init() { checks["c11sched"] = checkC11Sched }

func checkC11Sched(job *Job, res *Result) {
	res.Rule = "SCHED: 2-3 clients paging different queries over an unchanged 8-object collection at the same time; every schedule within the preemption bound; every page must equal the page the same command returns alone"
	if job.Replay != nil {
		replaySched(job, res, func(params []byte, sched []int) schedOut {
			var p c11SchedParams
			mustJSON(params, &p)
			return c11SchedRun(job, p, sched)
		})
		return
	}
	bound := 2
	if b, ok := job.Params["bound"].(float64); ok {
		bound = int(b)
	}
	for _, p := range c11SchedScenarios() {
		p := p
		sc := schedScenario{Name: "c11." + p.Name, Params: p, Run: func(prefix []int) schedOut { return c11SchedRun(job, p, prefix) }}
		b := bound
		if p.Fine {
			// ~250 points per execution: one preemption on every change, two in the thorough tier
			b = bound - 1
		}
		st := exploreSched(job, res, sc, b)
		res.Extra[sc.Name] = map[string]any{"execs": st.Execs, "outcomes": len(st.Outcomes), "max_choice_points": st.MaxPoints}
		if res.EngineError != "" {
			return
		}
	}
}

// ---- C13 schedules part: nearest-neighbour queries around different points at the same time

func c13SchedScenarios() []c11SchedParams {
	ws := func(ss ...string) [][]string {
		var out [][]string
		for _, s := range ss {
			out = append(out, w(s))
		}
		return out
	}
	return []c11SchedParams{
		{Name: "fine:nearby-two-centres", Fine: true, Prop: "C13", Conns: [][][]string{
			ws("NEARBY k LIMIT 3 DISTANCE POINT 0 0", "NEARBY k DISTANCE POINT 4 4 300000"),
			ws("NEARBY k LIMIT 3 DISTANCE POINT 4 4", "NEARBY k DISTANCE POINT 0 0 300000")}},
		{Name: "nearby-three-centres", Prop: "C13", Conns: [][][]string{
			ws("NEARBY k LIMIT 2 DISTANCE POINT 0 0"), ws("NEARBY k LIMIT 2 DISTANCE POINT 4 4"), ws("NEARBY k LIMIT 2 DISTANCE POINT 2 2", "NEARBY k LIMIT 2 DISTANCE POINT 1 3")}},
	}
}

func init() { checks["c13sched"] = checkC13Sched }

func checkC13Sched(job *Job, res *Result) {
	res.Rule = "SCHED: 2-3 clients asking for the nearest neighbours of different points in one collection at the same time; every schedule within the preemption bound (one scenario with function-entry scheduling points); every reply must equal the reply the same command gets alone"
	if job.Replay != nil {
		replaySched(job, res, func(params []byte, sched []int) schedOut {
			var p c11SchedParams
			mustJSON(params, &p)
			return c11SchedRun(job, p, sched)
		})
		return
	}
	bound := 2
	if b, ok := job.Params["bound"].(float64); ok {
		bound = int(b)
	}
	for _, p := range c13SchedScenarios() {
		p := p
		sc := schedScenario{Name: "c13." + p.Name, Params: p, Run: func(prefix []int) schedOut { return c11SchedRun(job, p, prefix) }}
		b := bound
		if p.Fine {
			b = bound - 1
		}
		st := exploreSched(job, res, sc, b)
		res.Extra[sc.Name] = map[string]any{"execs": st.Execs, "outcomes": len(st.Outcomes), "max_choice_points": st.MaxPoints}
		if res.EngineError != "" {
			return
		}
	}
}
