//go:build verif

package server

// C11 - cursor pagination is complete and duplicate-free.
//
// SEQ over inputs: datasets of n = 0..6 objects (colliding id prefixes, strings
// and geometries mixed, a field some objects lack) and two larger ones (300
// objects: the iterator's 256-entry step; a 6x6 grid: index candidates that the
// exact test rejects) x {SCAN, SEARCH, WITHIN, INTERSECTS, NEARBY} x areas x
// filters x ASC/DESC x LIMIT 1..n+1 x {IDS, OBJECTS}.  Oracle: the pages
// concatenated until cursor 0 = the single unlimited reply; no id twice.

import (
	"encoding/json"
	"fmt"
	"strconv"
	"strings"

	"github.com/tidwall/tile38/internal/vshim/vsched"
)

func init() { checks["c11"] = checkC11 }

type c11Query struct {
	Cmd    string
	Filter []string
	Order  string
	Area   []string
	Out    string
}

func (q c11Query) args(key string, cursor, limit int) []string {
	a := []string{q.Cmd, key}
	if cursor > 0 {
		a = append(a, "CURSOR", strconv.Itoa(cursor))
	}
	a = append(a, "LIMIT", strconv.Itoa(limit))
	a = append(a, q.Filter...)
	if q.Order != "" {
		a = append(a, q.Order)
	}
	a = append(a, q.Out)
	return append(a, q.Area...)
}

func c11Items(v rv) (cursor int, ids []string, ok bool) {
	if v.K != '*' || len(v.A) != 2 || v.A[0].K != ':' || v.A[1].K != '*' {
		return 0, nil, false
	}
	cursor, _ = strconv.Atoi(v.A[0].S)
	for _, e := range v.A[1].A {
		if e.K == '*' && len(e.A) > 0 {
			ids = append(ids, e.A[0].S+"="+e.A[min(1, len(e.A)-1)].S)
		} else {
			ids = append(ids, e.S)
		}
	}
	return cursor, ids, true
}

func checkC11(job *Job, res *Result) {
	res.Rule = "SEQ over inputs: 7 small datasets (n = 0..6) + an 18-object dataset with repeated string values + a 300-object and a 6x6-grid dataset x 5 commands x areas {world bounds, circle, triangle} x filters {none, MATCH a*, MATCH a?, WHERE f 1 2, WHEREIN f 2 1 2, MATCH+WHERE, literal MATCH (ids and repeated string values), literal MATCH+WHERE, two MATCH patterns, MATCH r[e]d} x {ASC, DESC} x LIMIT 1..n+1 (large: 1, 7, 36, 100, 254..258, n, n+1) x {IDS, OBJECTS} (+ COUNT pages in JSON mode, whose counts must add up); distinct = distinct (dataset, query, limit) paginations"
	ids := []string{"a", "ab", "abc", "b", "ba", "c1"}
	type dataset struct {
		key    string
		n      int
		limits []int
	}
	var dsets []dataset
	x := runExec(job, freezeAllBut(), func(x *Exec) {
		in := x.Start("L", x.dir+"/L", 9001, nil)
		c := x.Dial(in.Addr)
		for n := 0; n <= 6; n++ {
			key := fmt.Sprintf("d%d", n)
			for i := 0; i < n; i++ {
				id := ids[i]
				f := []string{}
				if i%3 != 2 {
					f = []string{"FIELD", "f", fmt.Sprint(i%3 + 1)}
				}
				// geometries and strings interleaved
				if i%2 == 0 {
					c.Do(append(append([]string{"SET", key, id}, f...), "POINT", fmt.Sprint(i), fmt.Sprint(i))...)
				} else {
					c.Do(append(append([]string{"SET", key, id}, f...), "STRING", "v"+id)...)
				}
				// and a twin of the other kind so that every command sees n objects of its kind
				if i%2 == 0 {
					c.Do(append(append([]string{"SET", key, id + "s"}, f...), "STRING", "v"+id)...)
				} else {
					c.Do(append(append([]string{"SET", key, id + "g"}, f...), "POINT", fmt.Sprint(i), fmt.Sprint(i))...)
				}
			}
			var lim []int
			for l := 1; l <= 2*n+1; l++ {
				lim = append(lim, l)
			}
			dsets = append(dsets, dataset{key, 2 * n, lim})
		}
		for i := 0; i < 300; i++ {
			c.Do("SET", "big", fmt.Sprintf("a%03d", i), "FIELD", "f", fmt.Sprint(i%3+1), "POINT", fmt.Sprint(float64(i%60)/10), fmt.Sprint(float64(i/60)/10))
			c.Do("SET", "bigs", fmt.Sprintf("a%03d", i), "FIELD", "f", fmt.Sprint(i%3+1), "STRING", fmt.Sprintf("v%03d", (i*7)%300))
		}
		bigLim := []int{1, 7, 36, 100, 254, 255, 256, 257, 258, 299, 300, 301}
		if job.Tier != "thorough" {
			bigLim = []int{7, 100, 254, 255, 256, 257, 300, 301}
		}
		dsets = append(dsets, dataset{"big", 300, bigLim}, dataset{"bigs", 300, bigLim})
		for i := 0; i < 36; i++ {
			c.Do("SET", "grid", fmt.Sprintf("a%02d", i), "FIELD", "f", fmt.Sprint(i%3+1), "POINT", fmt.Sprint(i/6), fmt.Sprint(i%6))
		}
		var gl []int
		for l := 1; l <= 37; l++ {
			gl = append(gl, l)
		}
		dsets = append(dsets, dataset{"grid", 36, gl})

		// repeated string values (SEARCH applies MATCH to values) and literal patterns
		for i, v := range []string{"red", "blue", "red", "red", "blue", "green", "red", "ab"} {
			c.Do("SET", "dup", fmt.Sprintf("s%d", i), "FIELD", "f", fmt.Sprint(i%3+1), "STRING", v)
			c.Do("SET", "dup", fmt.Sprintf("p%d", i), "FIELD", "f", fmt.Sprint(i%3+1), "POINT", fmt.Sprint(i), "1")
		}
		c.Do("SET", "dup", "ab", "FIELD", "f", "1", "POINT", "1", "1")
		c.Do("SET", "dup", "red", "FIELD", "f", "1", "STRING", "ab")
		var dl []int
		for l := 1; l <= 19; l++ {
			dl = append(dl, l)
		}
		dsets = append(dsets, dataset{"dup", 18, dl})

		world := []string{"BOUNDS", "-90", "-180", "90", "180"}
		circle := []string{"CIRCLE", "2.5", "2.5", "300000"}
		tri := []string{"OBJECT", `{"type":"Polygon","coordinates":[[[-0.5,-0.5],[5.5,-0.5],[-0.5,5.5],[-0.5,-0.5]]]}`}
		filters := [][]string{nil, {"MATCH", "a*"}, {"MATCH", "a?"}, {"WHERE", "f", "1", "2"}, {"WHEREIN", "f", "2", "1", "2"}, {"MATCH", "a*", "WHERE", "f", "1", "2"},
			{"MATCH", "red"}, {"MATCH", "ab"}, {"MATCH", "red", "WHERE", "f", "2", "3"}, {"MATCH", "red", "MATCH", "ab"}, {"MATCH", "r[e]d"}}
		var queries []c11Query
		for _, f := range filters {
			for _, out := range []string{"IDS", "OBJECTS"} {
				for _, ord := range []string{"", "ASC", "DESC"} {
					queries = append(queries, c11Query{"SCAN", f, ord, nil, out}, c11Query{"SEARCH", f, ord, nil, out})
				}
				for _, area := range [][]string{world, circle, tri} {
					queries = append(queries, c11Query{"INTERSECTS", f, "", area, out})
					if area[0] != "OBJECT" || true {
						queries = append(queries, c11Query{"WITHIN", f, "", area, out})
					}
				}
				queries = append(queries, c11Query{"NEARBY", f, "", []string{"POINT", "0", "0"}, out}, c11Query{"NEARBY", f, "", []string{"POINT", "2.5", "2.5", "400000"}, out})
			}
		}
		caseNo := 0
		var only map[string]any
		if job.Replay != nil {
			mustJSON(job.Replay, &only)
		}
		cj := x.Dial(in.Addr)
		cj.Do("OUTPUT", "json")
		for _, d := range dsets {
			for _, q := range queries {
				if d.n >= 36 && q.Out == "OBJECTS" && job.Tier != "thorough" {
					continue
				}
				full := c.Do(q.args(d.key, 0, 1000000)...)
				_, want, ok := c11Items(full)
				if !ok {
					res.Violate("C11/unlimited-query-failed:"+strings.ToLower(q.Cmd), fmt.Sprintf("%v -> %s", q.args(d.key, 0, 1000000), vclip(full.String(), 200)), nil)
					continue
				}
				for _, lim := range d.limits {
					caseNo++
					if only != nil {
						if fmt.Sprint(only["query"]) != fmt.Sprint(q.args(d.key, 0, lim)) {
							continue
						}
					} else if caseNo%job.NShards != job.Shard {
						continue
					}
					if res.OverBudget() {
						res.Cap("time budget hit")
						return
					}
					var got []string
					cursor := 0
					pages := 0
					bad := ""
					for {
						r := c.Do(q.args(d.key, cursor, lim)...)
						nc, items, ok := c11Items(r)
						pages++
						if !ok {
							bad = "page reply " + vclip(r.String(), 120)
							break
						}
						if len(items) > lim {
							bad = fmt.Sprintf("a page holds %d items for LIMIT %d", len(items), lim)
							break
						}
						got = append(got, items...)
						if nc == 0 {
							break
						}
						if nc <= cursor {
							bad = fmt.Sprintf("cursor does not advance: %d -> %d", cursor, nc)
							break
						}
						cursor = nc
						if pages > len(want)+5 {
							bad = "more pages than objects"
							break
						}
					}
					res.Evaluations++
					res.Transitions += pages
					res.Validated++
					res.DistinctS(fmt.Sprint(d.key, q, lim))
					if bad == "" && strings.Join(got, "\x00") != strings.Join(want, "\x00") {
						seen := map[string]bool{}
						dup := ""
						for _, g := range got {
							if seen[g] {
								dup = g
							}
							seen[g] = true
						}
						switch {
						case dup != "":
							bad = fmt.Sprintf("item %s is returned twice; %d items in %d pages, %d in the unlimited reply", dup, len(got), pages, len(want))
						case len(got) < len(want):
							bad = fmt.Sprintf("%d items in %d pages, %d in the unlimited reply (skipped)", len(got), pages, len(want))
						default:
							bad = fmt.Sprintf("pages %v differ from the unlimited reply %v", vclip(fmt.Sprint(got), 200), vclip(fmt.Sprint(want), 200))
						}
					}
					// COUNT output in JSON mode carries a cursor as well: following it,
					// the counts of the pages add up to the unlimited count
					if bad == "" && q.Out == "IDS" && d.n <= 36 {
						qc := q
						qc.Out = "COUNT"
						total, cur, pg := 0, 0, 0
						for {
							r := cj.Do(qc.args(d.key, cur, lim)...)
							var doc struct {
								OK     bool `json:"ok"`
								Count  int  `json:"count"`
								Cursor int  `json:"cursor"`
							}
							pg++
							if r.K != '$' || json.Unmarshal([]byte(r.S), &doc) != nil || !doc.OK {
								bad = "COUNT page in JSON mode: " + vclip(r.String(), 120)
								break
							}
							total += doc.Count
							if doc.Cursor == 0 {
								break
							}
							if doc.Cursor <= cur || pg > len(want)+5 {
								bad = fmt.Sprintf("COUNT in JSON mode: cursor does not advance (%d -> %d)", cur, doc.Cursor)
								break
							}
							cur = doc.Cursor
						}
						res.Transitions += pg
						if bad == "" && total != len(want) {
							bad = fmt.Sprintf("COUNT in JSON mode: the pages count %d items in %d pages and end with cursor 0, the unlimited query returns %d", total, pg, len(want))
						}
						if bad != "" {
							res.Violate(fmt.Sprintf("C11/count-pagination:%s", strings.ToLower(q.Cmd)), fmt.Sprintf("%s  [query %v on a collection of %d objects]", bad, qc.args(d.key, 0, lim), d.n), map[string]any{"query": q.args(d.key, 0, lim)})
							bad = ""
						}
					}
					if bad != "" {
						ftag := "nofilter"
						if len(q.Filter) > 0 {
							ftag = strings.ToLower(q.Filter[0])
						}
						res.Violate(fmt.Sprintf("C11/pagination:%s:%s:%s", strings.ToLower(q.Cmd), ftag, map[bool]string{true: "large", false: "small"}[d.n >= 36]),
							fmt.Sprintf("%s  [query %v on a collection of %d objects]", bad, q.args(d.key, 0, lim), d.n), map[string]any{"query": q.args(d.key, 0, lim)})
					}
				}
			}
			res.States++
		}
		res.Sample(map[string]any{"query": queries[7].args("d3", 0, 2), "datasets": len(dsets), "queries": len(queries)})
		if len(vsched.Crashes) > 0 {
			res.Violate("C11/server-crash", vsched.Crashes[0].Value, nil)
		}
	})
	if x.Err != "" {
		res.Violate("C11/hang", x.Err, nil)
	}
}
