//go:build verif

package server

// C06 - a caught-up follower is an exact copy of its leader.
//
// FAULT: two real servers (leader, follower) in one process on the in-memory
// network under virtual time.  For every initial follower state and EVERY
// sequence (depth <= D) of events {leader write, large leader write, leader
// AOFSHRINK, follower restart, replication connection kill, follower paused
// while the leader writes} the run settles (virtual time advances until the
// follower reports caught_up) and the dumps are compared.  A monitor evaluated
// at every scheduling point checks that whenever the follower's caught-up flag
// turns true it holds every write the leader had acknowledged before the
// follower's last (re)connect.

import (
	"fmt"
	"os"
	"path/filepath"
	"strings"
	stdtime "time"

	"github.com/tidwall/tile38/internal/vshim/vnet"
	"github.com/tidwall/tile38/internal/vshim/vsched"
)

func init() { checks["c06"] = checkC06 }

var c06Events = []string{"write", "bigwrite", "shrink", "restart", "kill", "pause", "stall-shrink", "fshrink", "oom", "refollow", "dirtykill"}

type c06Run struct {
	x        *Exec
	L, F     *Inst
	lc       *Cli
	nWrites  int // leader writes acknowledged so far
	big      string
	monitor  string
	atConn   int  // leader writes acknowledged when the follower last (re)connected
	lastFlag bool
	seenConns int
}

func (r *c06Run) write(big bool) {
	r.nWrites++
	id := fmt.Sprintf("w%03d", r.nWrites)
	if big {
		r.lc.Do("SET", "lk", id, "STRING", r.big)
	} else {
		r.lc.Do("SET", "lk", id, "FIELD", "n", fmt.Sprint(r.nWrites), "POINT", "1", fmt.Sprint(r.nWrites%80))
	}
}

// followerHas reports whether the follower's memory holds leader write i.
func (r *c06Run) followerHas(i int) bool {
	if r.F == nil || r.F.S == nil {
		return false
	}
	col, _ := r.F.S.cols.Get("lk")
	return col != nil && col.Get(fmt.Sprintf("w%03d", i)) != nil
}

func (r *c06Run) installMonitor() {
	vsched.OnPoint = func() {
		if r.F == nil || r.F.S == nil || r.F.exited {
			return
		}
		// a new connection dialed by the follower = a (re)connect to the leader
		if n := len(vnet.All); n != r.seenConns {
			for _, c := range vnet.All[r.seenConns:] {
				if c.Owner == r.F.Name {
					r.atConn = r.nWrites
				}
			}
			r.seenConns = n
		}
		flag := r.F.S.fcupflags.Peek()&bitCaughtUp != 0
		if flag == r.lastFlag {
			return
		}
		r.lastFlag = flag
		if !flag {
			return
		}
		for i := 1; i <= r.atConn; i++ {
			if !r.followerHas(i) && r.monitor == "" {
				r.monitor = fmt.Sprintf("the follower set caught_up although it lacks leader write w%03d, one of the %d writes acknowledged before its last (re)connect (%d acknowledged by now)", i, r.atConn, r.nWrites)
			}
		}
	}
}

func followerCaughtUp(c *Cli) bool {
	m := asMap(c.Do("SERVER"))
	return m["caught_up"] == "true"
}

var c06Frozen = freezeAllBut("follow", "Serve#2", "Serve#4")

func checkC06(job *Job, res *Result) {
	res.Rule = "FAULT: initial follower state {empty, a true prefix of the leader's log, unrelated data (objects + channel), a non-empty log with an empty dataset, a > 512 KiB log that shares its first 600 kB with the leader and then diverges, a leader log with a command boundary exactly at the first checksum window (524288); thorough: the same with logs > 512 KiB so that the checksum search runs} x ALL event sequences of length <= D over {leader write, 300 kB leader write, leader AOFSHRINK to completion, follower clean restart, replication connection kill, follower paused during two leader writes, follower stalled mid-download across a leader write + AOFSHRINK + write, AOFSHRINK on the follower, follower over its memory limit, FOLLOW no one + FOLLOW again, connection kill while the follower's write buffer is unflushed and no flush before the reconnect}; oracle: caught_up, HEALTHZ, aof_size, AOFMD5 of the whole log, full dumps; settle under virtual time; distinct = distinct (initial state, event sequence, final leader dump)"
	res.Assumptions = append(res.Assumptions,
		"both servers run in one process on the in-memory network; time is virtual (1 s reconnect delay and 250 ms broadcasts cost nothing)",
		"no TTLs in this part's workload (deadlines are the business of part c06ttl)",
		"'last (re)connect' is the last connection the follower dialed to the leader (observed on the in-memory network)")
	depth := 2
	if d, ok := job.Params["depth"].(float64); ok {
		depth = int(d)
	}
	inits := []string{"empty", "prefix", "unrelated", "emptied", "big-empty", "big-diverged", "aligned", "respvalues", "only-channels", "benign-failure"}
	if job.Tier == "thorough" {
		inits = append(inits, "big-prefix", "big-unrelated")
	}
	var seqs [][]int
	var gen func(cur []int)
	gen = func(cur []int) {
		seqs = append(seqs, append([]int(nil), cur...))
		if len(cur) == depth {
			return
		}
		for e := range c06Events {
			gen(append(cur, e))
		}
	}
	gen(nil)
	var only map[string]any
	if job.Replay != nil {
		mustJSON(job.Replay, &only)
	}
	big := strings.Repeat("0123456789", 30000)
	caseNo := 0
	for _, init := range inits {
		for _, seq := range seqs {
			caseNo++
			names := make([]string, len(seq))
			for i, e := range seq {
				names[i] = c06Events[e]
			}
			if only != nil {
				if only["init"] != init || fmt.Sprint(only["events"]) != fmt.Sprint(names) {
					continue
				}
			} else if caseNo%job.NShards != job.Shard {
				continue
			}
			if res.OverBudget() {
				res.Cap("time budget hit; sequences are enumerated shortest first per initial state")
				return
			}
			if job.Tier != "thorough" && len(seq) > 2 && (init == "aligned" || init == "big-diverged" || init == "big-empty" || init == "respvalues") {
				continue // quick tier: the > 512 KiB initial states with sequences of length <= 2 (all lengths in the thorough tier)
			}
			init, seq := init, seq
			viol := func(sig, detail string) {
				res.Violate("C06/"+sig+":"+init, fmt.Sprintf("%s  [initial follower state %s, events %v]", detail, init, names), map[string]any{"init": init, "events": names})
			}
			x := runExec(job, c06Frozen, func(x *Exec) {
				r := &c06Run{x: x, big: big}
				vnet.Window = 65536 // TCP-like back-pressure between the two servers
				ldir, fdir := x.dir+"/L", x.dir+"/F"
				if init == "benign-failure" {
					// the leader's log holds a command that fails harmlessly when it is replayed
					// (an FSET on an id that is gone: what a rewrite race leaves behind)
					os.MkdirAll(ldir, 0700)
					var pre []byte
					pre = append(pre, respCmd("SET", "lk", "p0", "POINT", "1", "1")...)
					pre = append(pre, respCmd("FSET", "lk", "no-such-id", "speed", "1")...)
					pre = append(pre, respCmd("SET", "lk", "p1", "POINT", "2", "2")...)
					os.WriteFile(filepath.Join(ldir, "appendonly.aof"), pre, 0600)
				}
				r.L = x.Start("L", ldir, 9001, nil)
				r.lc = x.Dial(r.L.Addr)
				isBig := strings.HasPrefix(init, "big-")
				kind := strings.TrimPrefix(init, "big-")
				// leader history before the follower appears
				r.write(false)
				r.write(false)
				if isBig {
					r.write(true)
					r.write(true)
				}
				// follower's own past
				switch kind {
				case "prefix":
					// a true prefix of the leader's log: the leader's file as it is now
					os.MkdirAll(fdir, 0700)
					vsched.Quiesce()
					b, _ := os.ReadFile(filepath.Join(ldir, "appendonly.aof"))
					os.WriteFile(filepath.Join(fdir, "appendonly.aof"), b, 0600)
					r.write(false) // the leader moves on
				case "diverged":
					// the follower once was a copy of the leader (same first 600 kB of log),
					// then lived on its own: its tail differs from the leader's at the same
					// offsets and created things the shared prefix never mentions
					os.MkdirAll(fdir, 0700)
					vsched.Quiesce()
					b, _ := os.ReadFile(filepath.Join(ldir, "appendonly.aof"))
					os.WriteFile(filepath.Join(fdir, "appendonly.aof"), b, 0600)
					f0 := x.Start("F", fdir, 9002, nil)
					c := x.Dial(f0.Addr)
					c.Do("SET", "own", "o1", "POINT", "5", "5")
					c.Do("SETCHAN", "ownchan", "NEARBY", "own", "FENCE", "POINT", "5", "5", "100")
					c.Do("SET", "lk", "w900", "STRING", big+"z")
					c.Do("SET", "own", "o2", "POINT", "6", "6")
					c.Close()
					f0.Stop()
					r.write(true) // the leader moves on too
					r.write(false)
				case "respvalues":
					// > 1 MiB of log whose values look like protocol themselves: wherever the follower
					// has to find "the last complete command before offset n", it lands inside such a value
					rv := strings.Repeat("*1\r\n$1\r\na\r\n", 36000)
					r.lc.Do("SET", "lk", "rv1", "STRING", rv)
					r.lc.Do("SET", "lk", "rv2", "STRING", rv+"*1\r\n$1\r\nb\r\n")
					r.lc.Do("SET", "lk", "rv3", "STRING", rv)
				case "aligned":
					// the leader's log has a command that ends exactly at byte 524288 (the size of
					// one checksum window) and goes on for 300 kB: a follower that holds a full copy
					// verifies the first window only when it reconnects
					r.lc.Do("SET", "ak", "x0", "POINT", "1", "1")
					vsched.Quiesce()
					fi, _ := os.Stat(filepath.Join(ldir, "appendonly.aof"))
					n := 524288 - int(fi.Size()) - 60
					for try := 0; try < 10; try++ {
						if d := int(fi.Size()) + len(respCmd("SET", "lk", "pad", "STRING", strings.Repeat("p", n))) - 524288; d == 0 {
							break
						} else {
							n -= d
						}
					}
					r.lc.Do("SET", "lk", "pad", "STRING", strings.Repeat("p", n))
					// not idempotent when replayed a second time: ak2 would end up holding x instead of x0
					r.lc.Do("RENAME", "ak", "ak2")
					r.lc.Do("SET", "ak", "x", "POINT", "2", "2")
					r.write(true)
				case "emptied":
					// a log that is not empty although the dataset is: everything was deleted again
					f0 := x.Start("F", fdir, 9002, nil)
					c := x.Dial(f0.Addr)
					for i := 0; i < 40; i++ {
						c.Do("SET", "gone", fmt.Sprintf("g%02d", i), "POINT", "5", fmt.Sprint(i))
					}
					c.Do("DROP", "gone")
					c.Close()
					f0.Stop()
				case "only-channels":
					// the follower's own past left a channel and a hook but not a single collection
					f0 := x.Start("F", fdir, 9002, nil)
					c := x.Dial(f0.Addr)
					c.Do("SET", "gone", "g", "POINT", "5", "5")
					c.Do("SETCHAN", "oldchan", "NEARBY", "gone", "FENCE", "POINT", "5", "5", "100")
					c.Do("SETHOOK", "oldhook", "http://127.0.0.1:1/x", "NEARBY", "gone", "FENCE", "POINT", "5", "5", "100")
					c.Do("DROP", "gone")
					c.Close()
					f0.Stop()
				case "unrelated":
					f0 := x.Start("F", fdir, 9002, nil)
					c := x.Dial(f0.Addr)
					c.Do("SET", "unrelated", "x", "POINT", "5", "5")
					c.Do("SETCHAN", "uchan", "NEARBY", "unrelated", "FENCE", "POINT", "5", "5", "100")
					if isBig {
						c.Do("SET", "unrelated", "big1", "STRING", big+"x")
						c.Do("SET", "unrelated", "big2", "STRING", big+"y")
					}
					c.Close()
					f0.Stop()
				}
				r.installMonitor()
				r.F = x.Start("F", fdir, 9002, nil)
				r.lastFlag = false
				r.atConn = r.nWrites
				fc := x.Dial(r.F.Addr)
				if rep := fc.Do("FOLLOW", "127.0.0.1", "9001"); rep.String() != "+OK" {
					viol("follow", "FOLLOW replied "+rep.String())
					return
				}
				var revive func() bool
				settle := func() bool {
					for i := 0; i < 300; i++ {
						vsched.Sleep(int64(100 * stdtime.Millisecond))
						revive()
						if followerCaughtUp(fc) {
							vsched.Sleep(int64(300 * stdtime.Millisecond)) // leader quiescent, stream drained
							vsched.Quiesce()
							return true
						}
					}
					return false
				}
				reborn := 0
				// a follower that cannot apply its leader's log under memory pressure may stop
				// itself (log.Fatal): fail-stop, not divergence - the process is started again
				revive = func() bool {
					for i, cr := range vsched.Crashes {
						if strings.Contains(cr.Value, "log.Fatal") && strings.Contains(cr.Value, "OOM command not allowed") {
							vsched.Crashes = append(vsched.Crashes[:i:i], vsched.Crashes[i+1:]...)
							vsched.Paused[r.F.Name] = true // the dead process: its threads never run again
							for _, c := range vnet.All {
								if c.Owner == r.F.Name && !c.Closed() {
									c.Kill()
								}
							}
							fc.c.Kill()
							reborn++
							r.F = x.Start(fmt.Sprintf("F%d", reborn), fdir, 9002+reborn, nil)
							r.lastFlag = false
							r.atConn = r.nWrites
							fc = x.Dial(r.F.Addr)
							return true
						}
					}
					return false
				}
				for _, e := range seq {
					revive()
					switch c06Events[e] {
					case "write":
						r.write(false)
					case "bigwrite":
						r.write(true)
					case "shrink":
						waitShrink(r.L, r.lc)
					case "fshrink":
						// the follower rewrites its own log
						waitShrink(r.F, fc)
					case "restart":
						fc.Close()
						r.F.StopProcess()
						r.F = x.Start(r.F.Name, fdir, r.F.Port, nil)
						r.lastFlag = false
						r.atConn = r.nWrites
						fc = x.Dial(r.F.Addr)
					case "kill":
						for _, c := range vnet.All {
							if c.Owner == r.F.Name && !c.Closed() {
								c.Kill()
							}
						}
					case "stall-shrink":
						// the follower stalls (stops reading) as soon as it has received
						// 100 kB more of the leader's stream - i.e. in the middle of a bulk
						// download if one is in progress; with TCP back-pressure the leader's
						// copy then blocks; the leader writes, rewrites its log, writes again;
						// then the follower continues
						recvd := 0
						vnet.OnAnyWrite = func(e *vnet.End, b []byte) {
							if e.Server && e.Peer.Owner == r.F.Name {
								recvd += len(b)
								if recvd > 100000 {
									vsched.Paused[r.F.Name] = true
								}
							}
						}
						vsched.Sleep(int64(20 * stdtime.Millisecond))
						vnet.OnAnyWrite = nil
						vsched.Paused[r.F.Name] = true
						r.write(false)
						waitShrink(r.L, r.lc)
						r.write(false)
						vsched.Sleep(int64(300 * stdtime.Millisecond))
						vsched.Paused[r.F.Name] = false
					case "refollow":
						// the follower is told to follow no one and, right away, the same leader again
						fc.Do("FOLLOW", "no", "one")
						r.write(false)
						fc.Do("FOLLOW", "127.0.0.1", "9001")
						r.atConn = r.nWrites
					case "dirtykill":
						// the link breaks while the follower still holds streamed commands in its
						// write buffer (its once-a-second flusher has not come round yet, and nobody
						// talks to the follower), and the follower reconnects before the buffer is
						// written: whatever the reconnect does to the log, the buffer belongs to the
						// old log
						r.write(false)
						vsched.Sleep(int64(20 * stdtime.Millisecond))
						for _, c := range vnet.All {
							if c.Owner == r.F.Name && !c.Closed() {
								c.Kill()
							}
						}
						vsched.Sleep(int64(1200 * stdtime.Millisecond))
					case "oom":
						// the follower is over its maxmemory limit while the leader writes, then recovers
						// (the flag is what the frozen memory watcher would set)
						fc.Do("CONFIG", "SET", "maxmemory", "1")
						r.F.S.outOfMemory.Store(true)
						r.write(false)
						r.write(false)
						vsched.Sleep(int64(300 * stdtime.Millisecond))
						r.F.S.outOfMemory.Store(false)
						revive()
					case "pause":
						vsched.Paused[r.F.Name] = true
						r.write(false)
						r.write(false)
						vsched.Sleep(int64(300 * stdtime.Millisecond))
						vsched.Paused[r.F.Name] = false
					}
					// HEALTHZ may say OK only while SERVER says caught_up (asked right after the event,
					// when the link may be down, and again a little later)
					for probe := 0; probe < 2; probe++ {
						if h := fc.Do("HEALTHZ"); h.String() == "+OK" && !followerCaughtUp(fc) {
							viol("healthz-ok-while-not-caught-up", fmt.Sprintf("right after event %q HEALTHZ replied +OK although SERVER reports caught_up=false", c06Events[e]))
						}
						// events may follow each other immediately or after the follower
						// caught up: let a little virtual time pass, not a full settle
						vsched.Sleep(int64(25 * stdtime.Millisecond))
					}
				}
				ok := settle()
				vsched.OnPoint = nil
				if r.monitor != "" {
					viol("premature-caught-up", r.monitor)
				}
				if !ok {
					viol("never-caught-up", fmt.Sprintf("the follower did not report caught_up within 30 virtual seconds; SERVER: %v", asMap(fc.Do("SERVER"))))
					return
				}
				if h := fc.Do("HEALTHZ"); h.String() != "+OK" {
					viol("healthz", "caught_up=true but HEALTHZ replied "+h.String())
				}
				ownRewrite := false // once the follower rewrote its own log the two files are no longer byte copies
				for _, n := range names {
					ownRewrite = ownRewrite || n == "fshrink"
				}
				if la, fa := asMap(r.lc.Do("SERVER"))["aof_size"], asMap(fc.Do("SERVER"))["aof_size"]; la != fa && !ownRewrite {
					viol("aof-size-differs", fmt.Sprintf("follower reports caught_up with aof_size %s, the leader's is %s", fa, la))
				}
				if la, fa := asMap(r.lc.Do("SERVER"))["aof_size"], asMap(fc.Do("SERVER"))["aof_size"]; la == fa && !ownRewrite {
					// the follower's log is a byte copy of the leader's: that is what the
					// position / checksum comparison of the next reconnect (and a follower of
					// this follower, and a restart without the leader) relies on
					if lm, fm := r.lc.Do("AOFMD5", "0", la).String(), fc.Do("AOFMD5", "0", fa).String(); lm != fm {
						viol("log-differs", fmt.Sprintf("follower reports caught_up with the leader's aof_size %s, but AOFMD5 0 %s is %s on the leader and %s on the follower", la, la, lm, fm))
					}
				}
				ld := fullDump(r.lc)
				fd := fullDump(fc)
				if ld != fd {
					viol("dataset-differs", fmt.Sprintf("follower reports caught_up; leader: %s ; follower: %s", dumpBrief(ld), dumpBrief(fd)))
				}
				// the copy stays a copy: a caught-up follower takes no writes of its own, by any route
				for _, wr := range [][]string{
					{"SET", "lk", "own", "POINT", "1", "1"},
					{"EVAL", "return tile38.call('SET','lk','own','POINT',1,1)", "0"},
					{"EVALNA", "return tile38.call('SET','lk','own','POINT',1,1)", "0"},
					{"EVALNA", "return tile38.call('DEL','lk','w001')", "0"},
					{"EVALRO", "return tile38.call('DEL','lk','w001')", "0"},
				} {
					fc.Do(wr...)
				}
				if fd2 := fullDump(fc); fd2 != fd {
					viol("follower-took-a-write", fmt.Sprintf("after SET / EVAL / EVALNA / EVALRO writes sent to the caught-up follower its dataset changed: %s -> %s", dumpBrief(fd), dumpBrief(fd2)))
				}
				res.DistinctS(init + fmt.Sprint(names) + fmt.Sprint(len(ld)))
			})
			if len(x.Crashes) > 0 {
				viol("server-crash", x.Crashes[0].Thread+": "+x.Crashes[0].Value)
			} else if x.Err != "" {
				viol("hang", x.Err)
			}
			res.Evaluations++
			res.Transitions += len(seq) + 1
			res.Validated++
			if caseNo < 4 {
				res.Sample(map[string]any{"init": init, "events": names})
			}
		}
	}
	res.States += len(seqs) * len(inits)
	res.Bounds["depth"] = depth
	res.Bounds["events"] = c06Events
	res.Bounds["initial_states"] = inits
}

// dumpBrief shortens the big values of a dump for messages.
func dumpBrief(d string) string {
	for strings.Contains(d, "0123456789012345678901234567890123456789") {
		i := strings.Index(d, "0123456789012345678901234567890123456789")
		j := i
		for j < len(d) && d[j] >= '0' && d[j] <= '9' {
			j++
		}
		d = d[:i] + fmt.Sprintf("<%d digits>", j-i) + d[j:]
	}
	return vclip(d, 900)
}

// ---- c06switch: two leaders; the follower is re-pointed or promoted

func init() { checks["c06switch"] = checkC06Switch }

func checkC06Switch(job *Job, res *Result) {
	res.Rule = "FAULT: two leaders A and B and one follower; ALL sequences of length <= D over {write on A, write on B, FOLLOW A, FOLLOW B, FOLLOW no one}; after settling the follower equals the leader it follows (dump and aof_size), and a promoted follower (FOLLOW no one) is never changed by its former leaders; distinct = distinct (sequence, final dumps)"
	depth := 3
	if d, ok := job.Params["swdepth"].(float64); ok {
		depth = int(d)
	}
	ev := []string{"wA", "wB", "fA", "fB", "f0"}
	var seqs [][]int
	var gen func(cur []int)
	gen = func(cur []int) {
		if len(cur) > 0 {
			seqs = append(seqs, append([]int(nil), cur...))
		}
		if len(cur) == depth {
			return
		}
		for e := range ev {
			gen(append(cur, e))
		}
	}
	gen(nil)
	var only map[string]any
	if job.Replay != nil {
		mustJSON(job.Replay, &only)
	}
	for si, seq := range seqs {
		names := make([]string, len(seq))
		for i, e := range seq {
			names[i] = ev[e]
		}
		if only != nil {
			if fmt.Sprint(only["events"]) != fmt.Sprint(names) {
				continue
			}
		} else if si%job.NShards != job.Shard {
			continue
		}
		if res.OverBudget() {
			res.Cap("time budget hit")
			return
		}
		seq := seq
		viol := func(sig, detail string) {
			res.Violate("C06/switch:"+sig, fmt.Sprintf("%s  [events %v]", detail, names), map[string]any{"events": names})
		}
		x := runExec(job, c06Frozen, func(x *Exec) {
			vnet.Window = 65536
			a := x.Start("A", x.dir+"/A", 9001, nil)
			b := x.Start("B", x.dir+"/B", 9003, nil)
			f := x.Start("F", x.dir+"/F", 9002, nil)
			ca, cb, cf := x.Dial(a.Addr), x.Dial(b.Addr), x.Dial(f.Addr)
			na, nb := 0, 0
			ca.Do("SET", "ak", "a0", "POINT", "1", "1")
			cb.Do("SET", "bk", "b0", "POINT", "2", "2")
			following := ""
			promotedDump := ""
			for _, e := range seq {
				switch ev[e] {
				case "wA":
					na++
					ca.Do("SET", "ak", fmt.Sprintf("a%d", na), "POINT", "1", fmt.Sprint(na))
				case "wB":
					nb++
					cb.Do("SET", "bk", fmt.Sprintf("b%d", nb), "POINT", "2", fmt.Sprint(nb))
				case "fA":
					cf.Do("FOLLOW", "127.0.0.1", "9001")
					following = "A"
				case "fB":
					cf.Do("FOLLOW", "127.0.0.1", "9003")
					following = "B"
				case "f0":
					cf.Do("FOLLOW", "no", "one")
					if following != "" || promotedDump == "" {
						vsched.Quiesce()
						promotedDump = fullDump(cf)
					}
					following = ""
				}
				vsched.Sleep(int64(30 * stdtime.Millisecond))
			}
			if following != "" {
				ok := false
				for i := 0; i < 300 && !ok; i++ {
					vsched.Sleep(int64(100 * stdtime.Millisecond))
					ok = followerCaughtUp(cf)
				}
				if !ok {
					viol("never-caught-up", "the follower did not report caught_up within 30 virtual seconds")
					return
				}
			}
			vsched.Sleep(int64(1500 * stdtime.Millisecond)) // anything still in flight from a former leader arrives now
			vsched.Quiesce()
			fd := fullDump(cf)
			switch following {
			case "A", "B":
				lc := ca
				if following == "B" {
					lc = cb
				}
				if ld := fullDump(lc); ld != fd {
					viol("dataset-differs", fmt.Sprintf("following %s and caught up; leader: %s ; follower: %s", following, vclip(ld, 500), vclip(fd, 500)))
				}
				if la, fa := asMap(lc.Do("SERVER"))["aof_size"], asMap(cf.Do("SERVER"))["aof_size"]; la != fa {
					viol("aof-size-differs", fmt.Sprintf("following %s: follower aof_size %s, leader %s", following, fa, la))
				}
			default:
				if promotedDump != "" && fd != promotedDump {
					viol("promoted-server-changed-by-former-leader", fmt.Sprintf("after FOLLOW no one the dataset was %s ; later it became %s", vclip(promotedDump, 400), vclip(fd, 400)))
				}
			}
			res.DistinctS(fmt.Sprint(names, len(fd)))
		})
		if len(x.Crashes) > 0 {
			viol("server-crash", x.Crashes[0].Thread+": "+x.Crashes[0].Value)
		} else if x.Err != "" {
			viol("hang", x.Err)
		}
		res.Evaluations++
		res.Transitions += len(seq)
		res.Validated++
	}
	res.States += len(seqs)
	res.Bounds["switch_depth"] = depth
}
