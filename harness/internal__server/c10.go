//go:build verif

package server

// C10 - notifications and pub/sub: nothing lost, nothing duplicated, in write order.
//
// c10sched (SCHED): concurrent writers / publishers / subscribers; every
//   schedule within the preemption bound.  Oracle per receiver: the delivered
//   notifications are those of the writes in log order, each group exactly as
//   often as a calibration write produced it; an acknowledged subscription
//   receives a later PUBLISH; PUBLISH's receiver count matches deliveries.
// c10fault (FAULT): one webhook on a scripted local HTTP endpoint; ALL failure
//   scripts up to a length bound over {200, 201, 500, refuse} x write patterns;
//   virtual time makes the 0.5 s retry free.  Oracle: the successfully
//   delivered bodies are all messages, in index order, exactly once.
// c10seq (SEQ): BFS over (P)SUBSCRIBE / (P)UNSUBSCRIBE / PUBLISH sequences of
//   two subscriber connections against a set-based model of the registry.

import (
	"bytes"
	"fmt"
	"io"
	"net"
	"net/http"
	"os"
	"path/filepath"
	"regexp"
	"sort"
	"strings"
	"sync"
	stdtime "time"

	"github.com/tidwall/tile38/internal/vshim/vos"
	"github.com/tidwall/tile38/internal/vshim/vsched"
)

func init() {
	checks["c10sched"] = checkC10Sched
	checks["c10fault"] = checkC10Fault
	checks["c10seq"] = checkC10Seq
}

// ---- scripted HTTP endpoint (free-running real goroutines on loopback)

type fakeEndpoint struct {
	mu      sync.Mutex
	ln      net.Listener
	srv     *http.Server
	script  []int    // status per request; 0 = drop the connection ("refuse"); beyond the script: 200
	n       int      // requests seen
	okBody  []string // bodies answered with 2xx, in order
	allBody []string
	down    bool // while set every request is dropped, whatever the script says
}

func (ep *fakeEndpoint) SetDown(d bool) {
	ep.mu.Lock()
	ep.down = d
	ep.mu.Unlock()
}

func newFakeEndpoint(script []int) *fakeEndpoint {
	ep := &fakeEndpoint{script: script}
	ln, err := net.Listen("tcp", "127.0.0.1:0")
	if err != nil {
		panic(err)
	}
	ep.ln = ln
	ep.srv = &http.Server{Handler: http.HandlerFunc(func(w http.ResponseWriter, r *http.Request) {
		body, _ := io.ReadAll(r.Body)
		ep.mu.Lock()
		st := 200
		if ep.down {
			st = 0
		} else if ep.n < len(ep.script) {
			st = ep.script[ep.n]
		}
		ep.n++
		ep.allBody = append(ep.allBody, string(body))
		if st == 200 || st == 201 {
			ep.okBody = append(ep.okBody, string(body))
		}
		ep.mu.Unlock()
		if st == -2 { // answer the status line and the headers, then stall inside the body
			w.Header().Set("Content-Length", "100")
			w.WriteHeader(200)
			if f, ok := w.(http.Flusher); ok {
				f.Flush()
			}
			<-r.Context().Done()
			return
		}
		if st == -1 { // hang: keep the request open until the sender gives up (5 s of real time)
			<-r.Context().Done()
			return
		}
		if st == 0 {
			if hj, ok := w.(http.Hijacker); ok {
				if c, _, err := hj.Hijack(); err == nil {
					c.Close()
					return
				}
			}
			st = 503
		}
		w.WriteHeader(st)
	})}
	// close with RST: thousands of executions per minute must not leave their
	// connections in TIME_WAIT (the ephemeral port range would run out)
	ep.srv.ConnState = func(c net.Conn, st http.ConnState) {
		if tc, ok := c.(*net.TCPConn); ok && st == http.StateNew {
			tc.SetLinger(0)
		}
	}
	go ep.srv.Serve(ln)
	return ep
}

func (ep *fakeEndpoint) URL() string { return "http://" + ep.ln.Addr().String() + "/hook" }
func (ep *fakeEndpoint) Close()      { ep.srv.Close() }
func (ep *fakeEndpoint) OK() []string {
	ep.mu.Lock()
	defer ep.mu.Unlock()
	return append([]string(nil), ep.okBody...)
}
func (ep *fakeEndpoint) Requests() int {
	ep.mu.Lock()
	defer ep.mu.Unlock()
	return ep.n
}

var reID = regexp.MustCompile(`"id":"([^"]*)"`)
var reDetect = regexp.MustCompile(`"detect":"([^"]*)"`)

// msgKey reduces a notification to "id:detect".
func msgKey(m string) string {
	id, det := "?", "?"
	if x := reID.FindStringSubmatch(m); x != nil {
		id = x[1]
	}
	if x := reDetect.FindStringSubmatch(m); x != nil {
		det = x[1]
	}
	return id + ":" + det
}

// subscriber-side reader: returns payloads of message / pmessage pushes and bulk strings.
func recvPayloads(c *Cli) []string {
	var out []string
	c.buf = append(c.buf, c.c.Drain()...)
	for {
		v, rest, ok, err := parseRESP(c.buf)
		if err != nil || !ok {
			return out
		}
		c.buf = append(c.buf[:0], rest...)
		switch {
		case v.K == '*' && len(v.A) == 3 && v.A[0].S == "message":
			out = append(out, v.A[2].S)
		case v.K == '*' && len(v.A) == 4 && v.A[0].S == "pmessage":
			out = append(out, v.A[3].S)
		case v.K == '$' && !v.Null:
			out = append(out, v.S)
		}
	}
}

type c10Params struct {
	Name string `json:"name"`
	Kind string `json:"kind"` // chan | live | hook | publish-gated | publish-race
}

func c10Run(job *Job, p c10Params, prefix []int) (out schedOut) {
	var ep *fakeEndpoint
	if p.Kind == "hook" {
		ep = newFakeEndpoint(nil)
		defer ep.Close()
	}
	x := runExec(job, freezeAllBut("manager"), func(x *Exec) {
		in := x.Start("L", x.dir+"/L", 9001, nil)
		aofPath := filepath.Clean(filepath.Join(in.Dir, "appendonly.aof"))
		c0 := x.Dial(in.Addr)
		fenceArgs := []string{"NEARBY", "k", "FENCE", "POINT", "1", "1", "100000"}
		var subs []*Cli
		switch p.Kind {
		case "chan":
			c0.Do(append([]string{"SETCHAN", "ch"}, fenceArgs...)...)
			s1, s2 := x.Dial(in.Addr), x.Dial(in.Addr)
			s1.Send(respCmd("SUBSCRIBE", "ch"))
			s2.Send(respCmd("PSUBSCRIBE", "c*"))
			subs = []*Cli{s1, s2}
		case "live":
			s1 := x.Dial(in.Addr)
			s1.Send(respCmd(fenceArgs...))
			subs = []*Cli{s1}
		case "hook":
			c0.Do(append([]string{"SETHOOK", "hk", ep.URL()}, fenceArgs...)...)
		}
		if p.Kind == "publish-gated" || p.Kind == "publish-race" {
			// ---- PUBLISH vs SUBSCRIBE
			s1 := x.Dial(in.Addr)
			pc := x.Dial(in.Addr)
			vsched.Quiesce()
			acked := false
			var pend []byte
			released := false
			s1.c.Peer.OnWrite = func(b []byte) {
				pend = append(pend, b...)
				// the confirmation may come after a message (registered, PUBLISH delivered, then confirmed)
				sawAck := false
				for rest := pend; len(rest) > 0; {
					v, r2, ok, err := parseRESP(rest)
					if !ok || err != nil {
						break
					}
					rest = r2
					if v.K == '*' && len(v.A) == 3 && v.A[0].S == "subscribe" {
						sawAck = true
					}
				}
				if sawAck {
					acked = true
					if p.Kind == "publish-gated" && !released {
						released = true
						pc.c.Inject(respCmd("PUBLISH", "ch", "m1"))
					}
				}
			}
			s1.c.Inject(respCmd("SUBSCRIBE", "ch"))
			if p.Kind == "publish-race" {
				pc.c.Inject(respCmd("PUBLISH", "ch", "m1"))
			}
			vsched.Prefix = prefix
			vsched.Exploring = true
			done := vsched.WaitUntilOr(func() bool { return acked && countReplies(pc) >= 1 }, int64(30*stdtime.Second))
			vsched.Quiesce()
			vsched.Exploring = false
			out.Trace = append([]vsched.ChoicePoint(nil), vsched.Trace...)
			out.Diverged = vsched.Diverged
			if !done {
				out.VSig, out.VDetail, out.Obs = "C10/no-reply:"+p.Name, vsched.Dump()+blockedStacks(), "NO-REPLY"
				return
			}
			pr, _ := pc.ReadReply()
			got := recvPayloads(s1)
			out.Obs = fmt.Sprintf("publish=%s received=%v", pr, got)
			n := 0
			if pr.String() == ":1" {
				n = 1
			}
			if len(got) != n {
				out.VSig = "C10/publish-count-vs-delivery:" + p.Name
				out.VDetail = fmt.Sprintf("PUBLISH replied %s but the subscriber received %v", pr, got)
			} else if p.Kind == "publish-gated" && len(got) != 1 {
				out.VSig = "C10/acknowledged-subscriber-missed-publish"
				out.VDetail = fmt.Sprintf("the SUBSCRIBE reply was written before PUBLISH was sent, yet PUBLISH replied %s and the subscriber received %v", pr, got)
			}
			return
		}
		vsched.Quiesce()
		for _, s := range subs {
			recvPayloads(s)
		}
		// calibration: what one write produces for each receiver
		c0.Do("SET", "k", "cal", "POINT", "1", "1")
		vsched.Quiesce()
		waitHook := func(want int) {
			if ep == nil {
				return
			}
			vsched.WaitUntilOr(func() bool { return len(ep.OK()) >= want }, int64(5*stdtime.Second))
			vsched.Quiesce()
		}
		waitHook(1)
		var calib []string
		recvAll := func() [][]string {
			var all [][]string
			for _, s := range subs {
				var ks []string
				for _, m := range recvPayloads(s) {
					ks = append(ks, msgKey(m))
				}
				all = append(all, ks)
			}
			if ep != nil {
				var ks []string
				for _, m := range ep.OK() {
					ks = append(ks, msgKey(m))
				}
				all = append(all, ks)
			}
			return all
		}
		cal := recvAll()
		for _, k := range cal[0] {
			calib = append(calib, strings.TrimPrefix(k, "cal:"))
		}
		if len(calib) == 0 {
			out.Err = "calibration write produced no notification"
			return
		}
		nCalHook := 0
		if ep != nil {
			nCalHook = len(ep.OK())
		}
		// ---- two concurrent writers
		w1, w2 := x.Dial(in.Addr), x.Dial(in.Addr)
		vsched.Quiesce()
		preLog := len(vos.Image(len(vos.Log))[aofPath])
		w1.c.Inject(respCmd("SET", "k", "a", "POINT", "1", "1"))
		w2.c.Inject(respCmd("SET", "k", "b", "POINT", "1", "1"))
		vsched.Prefix = prefix
		vsched.Exploring = true
		done := vsched.WaitUntilOr(func() bool { return countReplies(w1) >= 1 && countReplies(w2) >= 1 }, int64(30*stdtime.Second))
		vsched.Quiesce()
		if ep != nil {
			vsched.WaitUntilOr(func() bool { return len(ep.OK()) >= nCalHook+2*len(calib) }, int64(5*stdtime.Second))
			vsched.Quiesce()
		}
		vsched.Exploring = false
		out.Trace = append([]vsched.ChoicePoint(nil), vsched.Trace...)
		out.Diverged = vsched.Diverged
		if !done {
			out.VSig, out.VDetail, out.Obs = "C10/no-reply:"+p.Name, vsched.Dump(), "NO-REPLY"
			return
		}
		got := recvAll()
		if ep != nil {
			got[len(got)-1] = got[len(got)-1][nCalHook:]
		}
		img := vos.Image(len(vos.Log))[aofPath][preLog:]
		pa := bytes.Index(img, respCmd("SET", "k", "a", "POINT", "1", "1"))
		pb := bytes.Index(img, respCmd("SET", "k", "b", "POINT", "1", "1"))
		order := []string{"a", "b"}
		if pb < pa {
			order = []string{"b", "a"}
		}
		var want []string
		for _, id := range order {
			for _, d := range calib {
				want = append(want, id+":"+d)
			}
		}
		out.Obs = fmt.Sprintf("log=%v got=%v", order, got)
		for ri, g := range got {
			if strings.Join(g, ",") != strings.Join(want, ",") {
				sig := "order"
				if len(g) < len(want) {
					sig = "lost"
				} else if len(g) > len(want) {
					sig = "duplicated"
				}
				out.VSig = "C10/" + sig + ":" + p.Name
				out.VDetail = fmt.Sprintf("receiver %d got %v, the writes are logged in order %v so %v is expected (each write produces %v)", ri, g, order, want, calib)
				return
			}
		}
	})
	if strings.HasPrefix(x.Err, "deadlock") && out.VSig == "" {
		out.VSig, out.VDetail, out.Obs = "C10/deadlock:"+p.Name, x.Err, "DEADLOCK"
	} else if x.Err != "" {
		out.Err = x.Err
	}
	return out
}

func checkC10Sched(job *Job, res *Result) {
	res.Rule = "SCHED: two concurrent writers whose SETs fire one fence, received by (a) a SUBSCRIBE and a PSUBSCRIBE connection, (b) a live fence connection, (c) a webhook on a real local HTTP endpoint; PUBLISH against a SUBSCRIBE that is acknowledged first / races; a write racing the re-definition of the webhook it fires while the endpoint's first answer is a failure (500 / refused; with and without a later write); every schedule with at most 2 (thorough 3) deviations from the default schedule (all non-default choices count, not only preemptions: these scenarios have 8+ independent threads); distinct = distinct (scenario, log order, received sequences)"
	res.Assumptions = append(res.Assumptions, "the webhook endpoint is a real net/http server on loopback driven by free-running goroutines; the controlled thread performing the POST simply waits for it")
	if job.Replay != nil {
		replaySched(job, res, func(params []byte, sched []int) schedOut {
			var p c10Params
			mustJSON(params, &p)
			if strings.HasPrefix(p.Name, "follower-subscriber") {
				var fp c10FollowSubParams
				mustJSON(params, &fp)
				return c10FollowSubRun(job, fp, sched)
			}
			if strings.HasPrefix(p.Name, "redefine-") {
				var rp c10RedefParams
				mustJSON(params, &rp)
				return c10RedefRun(job, rp, sched)
			}
			return c10Run(job, p, sched)
		})
		return
	}
	bound := 2
	if b, ok := job.Params["bound"].(float64); ok {
		bound = int(b)
	}
	only10, _ := job.Params["only"].(string)
	scs := []c10Params{{"chan-2writers-2subs", "chan"}, {"live-2writers", "live"}, {"publish-after-ack", "publish-gated"}, {"publish-vs-subscribe", "publish-race"}, {"hook-2writers", "hook"}}
	for _, p := range scs {
		p := p
		if only10 != "" {
			break
		}
		b := bound
		if p.Kind == "hook" && b > 1 && job.Tier != "thorough" {
			b = 1 // real HTTP round trips per execution: keep the quick tier short
		}
		sc := schedScenario{Name: "c10." + p.Name, Params: p, Run: func(prefix []int) schedOut { return c10Run(job, p, prefix) }, DevBound: true}
		st := exploreSched(job, res, sc, b)
		res.Extra[sc.Name] = map[string]any{"execs": st.Execs, "outcomes": len(st.Outcomes), "max_choice_points": st.MaxPoints, "bound": b}
		if p.Kind == "chan" {
			res.Sample(map[string]any{"scenario": sc.Name, "outcomes": st.Outcomes})
		}
		if res.EngineError != "" {
			return
		}
	}
	for _, p := range []c10FollowSubParams{{Name: "follower-subscriber-3-channels", Nchan: 3}, {Name: "follower-subscriber-big-object", Nchan: 2, Big: true}} {
		p := p
		if only10 != "" && only10 != p.Name {
			continue
		}
		b := bound - 1 // two servers: ~150 points per execution
		if only10 != "" {
			b = bound
		}
		sc := schedScenario{Name: "c10." + p.Name, Params: p, Run: func(prefix []int) schedOut { return c10FollowSubRun(job, p, prefix) }, DevBound: true}
		st := exploreSched(job, res, sc, b)
		res.Extra[sc.Name] = map[string]any{"execs": st.Execs, "outcomes": len(st.Outcomes), "max_choice_points": st.MaxPoints, "bound": b}
		if res.EngineError != "" {
			return
		}
	}
	for _, p := range c10RedefScenarios() {
		p := p
		if only10 != "" {
			break
		}
		b := bound
		if b > 1 && job.Tier != "thorough" {
			b = 1 // real HTTP round trips per execution
		}
		sc := schedScenario{Name: "c10." + p.Name, Params: p, Run: func(prefix []int) schedOut { return c10RedefRun(job, p, prefix) }, DevBound: true}
		st := exploreSched(job, res, sc, b)
		res.Extra[sc.Name] = map[string]any{"execs": st.Execs, "outcomes": len(st.Outcomes), "max_choice_points": st.MaxPoints, "bound": b}
		if res.EngineError != "" {
			return
		}
	}
}

// ---------------------------------------------------------------- FAULT

func checkC10Fault(job *Job, res *Result) {
	res.Rule = "FAULT: one webhook on a scripted local HTTP endpoint; all answer scripts of length <= L over {200, 201, 500, refuse} (+ scripts with a hanging request: 1 quick, all of length <= 2 thorough) x 3 write patterns (burst of 3, one per retry period, burst of 20 behind a failing endpoint); virtual time passes in 0.6 s steps until the queue is drained; distinct = distinct (script, pattern) with their delivery traces"
	maxLen := 3
	if job.Tier == "thorough" {
		maxLen = 5
	}
	if l, ok := job.Params["maxlen"].(float64); ok {
		maxLen = int(l)
	}
	alphabet := []int{200, 201, 500, 0}
	var scripts [][]int
	var gen func(cur []int)
	gen = func(cur []int) {
		scripts = append(scripts, append([]int(nil), cur...))
		if len(cur) == maxLen {
			return
		}
		for _, a := range alphabet {
			gen(append(cur, a))
		}
	}
	gen(nil)
	// "hang": the endpoint takes the request and never answers; the sender's 5 s
	// timeout is real time (net/http is not under the virtual clock), so these
	// scripts are few: one in the quick tier, all of length <= 2 in the thorough tier
	if job.Tier == "thorough" {
		for _, a := range []int{200, 201, 500, 0, -1} {
			scripts = append(scripts, []int{-1, a}, []int{a, -1})
		}
	}
	scripts = append(scripts, []int{-1})
	patterns := []string{"burst3", "spaced3", "burst20"}
	caseNo := 0
	for _, script := range scripts {
		for _, pat := range patterns {
			if len(script) > 0 && (script[0] == -1 || script[len(script)-1] == -1) && pat != "burst3" {
				continue
			}
			if pat == "burst20" && (len(script) == 0 || script[0] == 200 || script[0] == 201 || len(script) > 3) {
				continue // the backlog pattern only makes sense behind an endpoint that starts failing
			}
			caseNo++
			if caseNo%job.NShards != job.Shard {
				continue
			}
			if res.OverBudget() {
				res.Cap("time budget hit")
				return
			}
			script, pat := script, pat
			ep := newFakeEndpoint(script)
			viol := func(sig, detail string) {
				res.Violate("C10/webhook-"+sig+":"+pat, fmt.Sprintf("%s  [endpoint script %v (0 = connection dropped), write pattern %s]", detail, script, pat), map[string]any{"script": script, "pattern": pat})
			}
			x := runExec(job, freezeAllBut("manager"), func(x *Exec) {
				in := x.Start("L", x.dir+"/L", 9001, nil)
				c := x.Dial(in.Addr)
				c.Do("SETHOOK", "hk", ep.URL(), "NEARBY", "k", "FENCE", "DETECT", "inside", "POINT", "1", "1", "100000")
				nw := 3
				if pat == "burst20" {
					nw = 20
				}
				var want []string
				for i := 0; i < nw; i++ {
					id := fmt.Sprintf("o%02d", i)
					c.Do("SET", "k", id, "POINT", "1", "1")
					want = append(want, id+":inside")
					if pat == "spaced3" {
						vsched.Sleep(int64(600 * stdtime.Millisecond))
						vsched.Quiesce()
					}
				}
				// let the retry loop run: at most len(script)+nw+2 retry periods
				for i := 0; i < len(script)+nw+4 && len(ep.OK()) < len(want); i++ {
					vsched.Sleep(int64(600 * stdtime.Millisecond))
					vsched.Quiesce()
				}
				var got []string
				for _, m := range ep.OK() {
					got = append(got, msgKey(m))
				}
				if strings.Join(got, ",") != strings.Join(want, ",") {
					sig := "order"
					if len(got) < len(want) {
						sig = "lost"
					} else if len(got) > len(want) {
						sig = "duplicated"
					}
					viol(sig, fmt.Sprintf("successfully delivered %v (%d requests in all), expected %v", got, ep.Requests(), want))
				}
				res.DistinctS(fmt.Sprint(script, pat, ep.Requests()))
			})
			ep.Close()
			if x.Err != "" || len(x.Crashes) > 0 {
				viol("hang-or-crash", fmt.Sprint(x.Err, x.Crashes))
			}
			res.Evaluations++
			res.Transitions++
			res.Validated++
			if caseNo < 3 {
				res.Sample(map[string]any{"script": script, "pattern": pat})
			}
		}
	}
	res.States += len(scripts)
	res.Bounds["max_script_length"] = maxLen
	c10Outage(job, res, &caseNo)
	c10ExpirySweep(job, res, &caseNo)
	c10FollowerSubscribers(job, res, &caseNo)
	c10EndpointLists(job, res, &caseNo)
}

// c10Outage: the hook queue lives in a file (queue.db, the default); while the
// endpoint is down (or up) the server goes through every sequence of
// {W write, R clean restart, T one retry period}; then the endpoint recovers.
// Every write's notification must arrive exactly once, in write order.
func c10Outage(job *Job, res *Result, caseNo *int) {
	maxLen := 4
	if job.Tier == "thorough" {
		maxLen = 6
	}
	if l, ok := job.Params["outagelen"].(float64); ok {
		maxLen = int(l)
	}
	var seqs []string
	var gen func(cur string)
	gen = func(cur string) {
		if strings.Contains(cur, "W") && strings.Contains(cur, "R") {
			seqs = append(seqs, cur)
		}
		if len(cur) == maxLen {
			return
		}
		for _, a := range "WRT" {
			gen(cur + string(a))
		}
	}
	gen("")
	for _, seq := range seqs {
		for _, down := range []bool{true, false} {
			*caseNo++
			if *caseNo%job.NShards != job.Shard {
				continue
			}
			if res.OverBudget() {
				res.Cap("time budget hit (outage sequences)")
				return
			}
			seq, down := seq, down
			ep := newFakeEndpoint(nil)
			ep.SetDown(down)
			viol := func(sig, detail string) {
				res.Violate("C10/webhook-outage-"+sig, fmt.Sprintf("%s  [events %s (W write, R restart, T 0.6 s) with the endpoint %s, then the endpoint recovers; queue in queue.db]", detail, seq, map[bool]string{true: "down", false: "up"}[down]),
					map[string]any{"outage": seq, "down": down})
			}
			x := runExec(job, freezeAllBut("manager"), func(x *Exec) {
				fileQ := func(o *Options) { o.QueueFileName = "" }
				in := x.Start("L", x.dir+"/L", 9001, fileQ)
				c := x.Dial(in.Addr)
				c.Do("SETHOOK", "hk", ep.URL(), "NEARBY", "k", "FENCE", "DETECT", "inside", "POINT", "1", "1", "100000")
				var want []string
				gen := 1
				for _, ev := range seq {
					switch ev {
					case 'W':
						id := fmt.Sprintf("o%02d", len(want))
						if r := c.Do("SET", "k", id, "POINT", "1", "1"); r.String() != "+OK" {
							viol("write", "SET replied "+r.String())
						}
						want = append(want, id+":inside")
						vsched.Quiesce()
					case 'T':
						vsched.Sleep(int64(600 * stdtime.Millisecond))
						vsched.Quiesce()
					case 'R':
						c.Close()
						in.Stop()
						// the process exits: its remaining threads (hook managers are
						// not stopped by the shutdown path) never run again
						vsched.Paused[in.Name] = true
						var err error
						in, err = x.TryStart(fmt.Sprintf("L%d", gen), x.dir+"/L", 9001+gen, fileQ)
						gen++
						if err != nil {
							viol("restart", fmt.Sprintf("server does not restart: %v", err))
							return
						}
						c = x.Dial(in.Addr)
					}
				}
				ep.SetDown(false)
				for i := 0; i < len(want)+6 && len(ep.OK()) < len(want); i++ {
					vsched.Sleep(int64(600 * stdtime.Millisecond))
					vsched.Quiesce()
				}
				vsched.Sleep(int64(1200 * stdtime.Millisecond)) // anything sent twice shows up now
				vsched.Quiesce()
				// the retention of a queued notification is fixed (30 s, real time, never
				// reached here): failed attempts and retries must not change it for later ones
				if ttl := int64(hookLogSetDefaults.TTL); ttl != int64(30*stdtime.Second) || !hookLogSetDefaults.Expires {
					viol("retention-changed", fmt.Sprintf("after the outage new notifications are queued with a retention of %v (expires=%v) instead of 30 s", stdtime.Duration(ttl), hookLogSetDefaults.Expires))
					hookLogSetDefaults.TTL, hookLogSetDefaults.Expires = 30*stdtime.Second, true
				}
				var got []string
				for _, m := range ep.OK() {
					got = append(got, msgKey(m))
				}
				if strings.Join(got, ",") != strings.Join(want, ",") {
					sig := "order"
					if len(got) < len(want) {
						sig = "lost"
					} else if len(got) > len(want) {
						sig = "duplicated"
					}
					viol(sig, fmt.Sprintf("successfully delivered %v (%d requests in all), expected %v", got, ep.Requests(), want))
				}
				res.DistinctS(fmt.Sprint("outage", seq, down, len(got)))
			})
			ep.Close()
			if x.Err != "" || len(x.Crashes) > 0 {
				viol("hang-or-crash", fmt.Sprint(x.Err, x.Crashes))
			}
			res.Evaluations++
			res.Transitions++
			res.Validated++
		}
	}
	res.States += len(seqs)
	res.Bounds["max_outage_events"] = maxLen
}

var reKey = regexp.MustCompile(`"key":"([^"]*)"`)

// c10ExpirySweep: n objects under one fence reach their deadline; whether in
// one sweep of the expirer or in several, every receiver (channel, pattern
// subscriber, live fence, webhook) gets exactly one "del" per object, in the
// order of the DEL records in the log.
func c10ExpirySweep(job *Job, res *Result, caseNo *int) {
	for _, n := range []int{1, 2, 3, 6} {
		for _, spread := range []string{"same-deadline", "same-sweep", "separate-sweeps"} {
			if n == 1 && spread != "same-deadline" {
				continue
			}
			*caseNo++
			if *caseNo%job.NShards != job.Shard {
				continue
			}
			n, spread := n, spread
			ep := newFakeEndpoint(nil)
			viol := func(sig, detail string) {
				res.Violate("C10/expiry-"+sig, fmt.Sprintf("%s  [%d objects expiring, %s]", detail, n, spread), map[string]any{"expiry": n, "spread": spread})
			}
			x := runExec(job, freezeAllBut("manager", "backgroundExpiring"), func(x *Exec) {
				in := x.Start("L", x.dir+"/L", 9001, nil)
				c := x.Dial(in.Addr)
				fence := w("NEARBY k FENCE POINT 1 1 100000")
				c.Do(append([]string{"SETCHAN", "ch"}, fence...)...)
				c.Do(append([]string{"SETHOOK", "hk", ep.URL()}, fence...)...)
				sub := x.Dial(in.Addr)
				sub.Send(respCmd("SUBSCRIBE", "ch"))
				psub := x.Dial(in.Addr)
				psub.Send(respCmd("PSUBSCRIBE", "c*"))
				live := x.Dial(in.Addr)
				live.Send(respCmd(fence...))
				vsched.Quiesce()
				for i := 0; i < n; i++ {
					ex := "1"
					switch spread {
					case "same-sweep":
						ex = fmt.Sprintf("1.00%d", i)
					case "separate-sweeps":
						ex = fmt.Sprintf("%d.5", 1+i)
					}
					c.Do("SET", "k", fmt.Sprintf("t%d", i), "EX", ex, "POINT", "1", "1")
				}
				vsched.Quiesce()
				recvPayloads(sub)
				recvPayloads(psub)
				recvPayloads(live)
				nSet := len(ep.OK())
				vsched.WaitUntilOr(func() bool { return len(ep.OK()) >= 2*n }, int64(3*stdtime.Second))
				nSet = 2 * n // enter + inside per SET
				_ = nSet
				before := len(ep.OK())
				vsched.Sleep(int64(stdtime.Duration(n+3) * stdtime.Second))
				vsched.Quiesce()
				vsched.WaitUntilOr(func() bool { return len(ep.OK())-before >= n }, int64(3*stdtime.Second))
				vsched.Quiesce()
				// order of the DEL records in the log (a client round trip flushes the buffer)
				c.Do("PING")
				var want []string
				data, _ := os.ReadFile(filepath.Join(in.Dir, "appendonly.aof"))
				for off := 0; off < len(data); {
					v, rest, ok, err := parseRESP(data[off:])
					if err != nil || !ok {
						break
					}
					off = len(data) - len(rest)
					if len(v.A) == 3 && strings.EqualFold(v.A[0].S, "del") {
						want = append(want, v.A[2].S)
					}
				}
				if len(want) != n {
					viol("not-logged", fmt.Sprintf("the log has %d DEL records %v", len(want), want))
				}
				dels := func(raw []string) []string {
					var out []string
					for _, m := range raw {
						if pm := c05Parse(m); pm.Cmd == "del" {
							out = append(out, pm.ID)
						}
					}
					return out
				}
				got := map[string][]string{"channel": dels(recvPayloads(sub)), "pattern": dels(recvPayloads(psub)), "live": dels(recvPayloads(live)), "webhook": dels(ep.OK()[before:])}
				for _, r := range []string{"channel", "pattern", "live", "webhook"} {
					if strings.Join(got[r], ",") != strings.Join(want, ",") {
						sig := "order"
						if len(got[r]) < len(want) {
							sig = "lost"
						} else if len(got[r]) > len(want) {
							sig = "duplicated"
						} else if strings.Join(sortedCopy(got[r]), ",") != strings.Join(sortedCopy(want), ",") {
							sig = "lost-and-duplicated"
						}
						viol(sig+":"+r, fmt.Sprintf("%s received del for %v, the log deleted %v", r, got[r], want))
					}
				}
				res.DistinctS(fmt.Sprint("expiry", n, spread, want))
			})
			ep.Close()
			if x.Err != "" || len(x.Crashes) > 0 {
				viol("hang-or-crash", fmt.Sprint(x.Err, x.Crashes))
			}
			res.Evaluations++
			res.Transitions++
			res.Validated++
		}
	}
}

func sortedCopy(a []string) []string {
	b := append([]string(nil), a...)
	sort.Strings(b)
	return b
}

// ---------------------------------------------------------------- SEQ (registry)

func checkC10Seq(job *Job, res *Result) {
	res.Rule = "SEQ: BFS over sequences (depth <= D) of SUBSCRIBE/UNSUBSCRIBE/PSUBSCRIBE/PUNSUBSCRIBE by two subscriber connections and PUBLISH on two channels, deduplicated on the model registry (set of (connection, channel|pattern)); after each PUBLISH the deliveries and the reply count are compared with the model; distinct = distinct (registry state, symbol) pairs"
	type sym struct {
		conn int // 0,1 subscribers; 2 publisher
		args []string
	}
	syms := []sym{
		{0, w("SUBSCRIBE news")}, {1, w("SUBSCRIBE news")}, {1, w("SUBSCRIBE other")},
		{0, w("UNSUBSCRIBE news")}, {1, w("UNSUBSCRIBE news")}, {1, w("UNSUBSCRIBE other")},
		{0, w("PSUBSCRIBE n*")}, {1, w("PUNSUBSCRIBE n*")}, {0, w("PUNSUBSCRIBE n*")},
		{2, w("PUBLISH news m")}, {2, w("PUBLISH other m")},
	}
	depth := 5
	if d, ok := job.Params["seqdepth"].(float64); ok {
		depth = int(d)
	}
	type reg map[string]bool // "conn|kind|name"
	canon := func(r reg) string { return strings.Join(sortedKeys(r), ",") }
	applyM := func(r reg, s sym) reg {
		n := reg{}
		for k := range r {
			n[k] = true
		}
		switch strings.ToUpper(s.args[0]) {
		case "SUBSCRIBE":
			n[fmt.Sprintf("%d|c|%s", s.conn, s.args[1])] = true
		case "UNSUBSCRIBE":
			delete(n, fmt.Sprintf("%d|c|%s", s.conn, s.args[1]))
		case "PSUBSCRIBE":
			n[fmt.Sprintf("%d|p|%s", s.conn, s.args[1])] = true
		case "PUNSUBSCRIBE":
			delete(n, fmt.Sprintf("%d|p|%s", s.conn, s.args[1]))
		}
		return n
	}
	expectDeliveries := func(r reg, channel string) [2]int {
		var out [2]int
		for k := range r {
			f := strings.Split(k, "|")
			ci := int(f[0][0] - '0')
			if f[1] == "c" && f[2] == channel || f[1] == "p" && mGlob(f[2], channel) {
				out[ci]++
			}
		}
		return out
	}
	type node struct {
		r    reg
		path []int
	}
	seen := map[string]bool{"": true}
	frontier := []node{{reg{}, nil}}
	edge := 0
	for d := 0; d < depth; d++ {
		var next []node
		for _, nd := range frontier {
			for si, s := range syms {
				nr := applyM(nd.r, s)
				path := append(append([]int(nil), nd.path...), si)
				edge++
				if edge%job.NShards == job.Shard {
					isPub := s.conn == 2
					x := runExec(job, freezeAllBut(), func(x *Exec) {
						in := x.Start("L", x.dir+"/L", 9001, nil)
						cl := []*Cli{x.Dial(in.Addr), x.Dial(in.Addr), x.Dial(in.Addr)}
						var names []string
						for _, k := range path {
							y := syms[k]
							names = append(names, fmt.Sprintf("c%d:%s", y.conn, strings.Join(y.args, " ")))
							if y.conn == 2 {
								cl[2].Do(y.args...)
							} else {
								cl[y.conn].Send(respCmd(y.args...))
							}
							vsched.Quiesce()
						}
						_ = isPub
						// probe: in the state reached, publish on both channels and
						// compare deliveries and reply counts with the model registry
						for _, ch := range []string{"news", "other"} {
							for i := 0; i < 2; i++ {
								recvPayloads(cl[i])
							}
							rep := cl[2].Do("PUBLISH", ch, "probe")
							vsched.Quiesce()
							want := expectDeliveries(nr, ch)
							for i := 0; i < 2; i++ {
								got := len(recvPayloads(cl[i]))
								if got != want[i] {
									res.Violate(fmt.Sprintf("C10/pubsub-registry:conn%d-got%d-want%d", i, got, want[i]),
										fmt.Sprintf("after [%s] PUBLISH %s delivered %d message(s) to subscriber %d, the subscriptions {%s} call for %d", strings.Join(names, " ; "), ch, got, i, canon(nr), want[i]),
										map[string]any{"sequence": names})
								}
							}
							if rep.String() != fmt.Sprintf(":%d", want[0]+want[1]) {
								res.Violate("C10/pubsub-publish-count", fmt.Sprintf("after [%s] PUBLISH %s replied %s, the model expects %d receivers", strings.Join(names, " ; "), ch, rep, want[0]+want[1]), map[string]any{"sequence": names})
							}
						}
					})
					if x.Err != "" {
						res.EngineError = x.Err
						return
					}
					res.Evaluations++
					res.Transitions++
					res.Validated++
					res.DistinctS(canon(nr) + "|" + strings.Join(s.args, " "))
				}
				if !seen[canon(nr)] {
					seen[canon(nr)] = true
					next = append(next, node{nr, path})
				}
			}
		}
		frontier = next
	}
	res.States += len(seen)
	res.Bounds["depth"] = depth
}

// c10FollowerSubscribers: channel messages are forwarded to followers; a
// subscriber on a caught-up follower gets what a subscriber on the leader gets,
// once each, per channel in the leader's order.
func c10FollowerSubscribers(job *Job, res *Result, caseNo *int) {
	for _, nchan := range []int{1, 3, 8} {
		for _, nset := range []int{1, 2, 5} {
			*caseNo++
			if *caseNo%job.NShards != job.Shard {
				continue
			}
			nchan, nset := nchan, nset
			viol := func(sig, detail string) {
				res.Violate("C10/follower-subscriber-"+sig, fmt.Sprintf("%s  [%d channels on one fence, %d SETs on the leader]", detail, nchan, nset), map[string]any{"follower_subs": []int{nchan, nset}})
			}
			x := runExec(job, freezeAllBut("follow", "Serve#2", "Serve#4"), func(x *Exec) {
				L := x.Start("L", x.dir+"/L", 9001, nil)
				F := x.Start("F", x.dir+"/F", 9002, nil)
				lc, fc := x.Dial(L.Addr), x.Dial(F.Addr)
				for i := 0; i < nchan; i++ {
					lc.Do("SETCHAN", fmt.Sprintf("ch%d", i), "NEARBY", "k", "FENCE", "POINT", "1", "1", "100000")
				}
				fc.Do("FOLLOW", "127.0.0.1", "9001")
				ok := false
				for i := 0; i < 100 && !ok; i++ {
					vsched.Sleep(int64(100 * stdtime.Millisecond))
					vsched.Quiesce()
					ok = asMap(fc.Do("SERVER"))["caught_up"] == "true"
				}
				if !ok {
					viol("setup", "the follower did not catch up within 10 virtual seconds")
					return
				}
				ls, fs := x.Dial(L.Addr), x.Dial(F.Addr)
				ls.Send(respCmd("PSUBSCRIBE", "ch*"))
				fs.Send(respCmd("PSUBSCRIBE", "ch*"))
				vsched.Quiesce()
				recvPayloads(ls)
				recvPayloads(fs)
				for i := 0; i < nset; i++ {
					lc.Do("SET", "k", fmt.Sprintf("o%d", i), "POINT", "1", "1")
				}
				for i := 0; i < 20; i++ {
					vsched.Sleep(int64(100 * stdtime.Millisecond))
					vsched.Quiesce()
				}
				key := func(ms []string) (all []string, per map[string][]string) {
					per = map[string][]string{}
					for _, m := range ms {
						hook := "?"
						if x := reHookName.FindStringSubmatch(m); x != nil {
							hook = x[1]
						}
						all = append(all, hook+"/"+msgKey(m))
						per[hook] = append(per[hook], msgKey(m))
					}
					return
				}
				la, lper := key(recvPayloads(ls))
				fa, fper := key(recvPayloads(fs))
				res.Evaluations++
				res.DistinctS(fmt.Sprint("followersubs", nchan, nset, len(la)))
				if len(la) == 0 {
					viol("setup", "the subscriber on the leader received nothing")
					return
				}
				sl, sf := append([]string(nil), la...), append([]string(nil), fa...)
				sort.Strings(sl)
				sort.Strings(sf)
				if strings.Join(sl, ",") != strings.Join(sf, ",") {
					sig := "lost"
					if len(fa) > len(la) {
						sig = "duplicated"
					} else if len(fa) == len(la) {
						sig = "lost-and-duplicated"
					}
					viol(sig, fmt.Sprintf("subscriber on the follower received %d messages %v, subscriber on the leader %d messages %v", len(fa), vclip(fmt.Sprint(fa), 300), len(la), vclip(fmt.Sprint(la), 300)))
					return
				}
				for h, lm := range lper {
					if strings.Join(lm, ",") != strings.Join(fper[h], ",") {
						viol("order", fmt.Sprintf("channel %s: follower order %v, leader order %v", h, fper[h], lm))
					}
				}
			})
			if x.Err != "" || len(x.Crashes) > 0 {
				viol("hang-or-crash", fmt.Sprint(x.Err, x.Crashes))
			}
		}
	}
}

var reHookName = regexp.MustCompile(`"hook":"([^"]*)"`)

// c10EndpointLists: a hook with several endpoints is a failover list - every
// notification goes once, to the first endpoint that accepts it; and an endpoint
// that answers its headers and then stalls delays the queue, it does not end it.
func c10EndpointLists(job *Job, res *Result, caseNo *int) {
	for _, sc := range []string{"two-healthy", "first-down", "first-stalls-in-body"} {
		*caseNo++
		if *caseNo%job.NShards != job.Shard {
			continue
		}
		sc := sc
		viol := func(sig, detail string) {
			res.Violate("C10/endpoint-list-"+sig, fmt.Sprintf("%s  [scenario %s]", detail, sc), map[string]any{"endpoint_list": sc})
		}
		var script []int
		if sc == "first-stalls-in-body" {
			script = []int{-2}
		}
		ep1, ep2 := newFakeEndpoint(script), newFakeEndpoint(nil)
		done := func() {}
		if sc == "first-stalls-in-body" {
			// a sender that waits for the rest of the body for ever never comes back to the scheduler:
			// announce the finding, the watchdog turns a minute without progress into it
			done = res.Pending("C10/endpoint-list-sender-blocked-for-ever", "the endpoint answered the headers of the first POST and then stalled inside the body: the hook's sender has not returned for a minute of real time (its 5 s limit covers the whole exchange); nothing queued behind it can be delivered", map[string]any{"endpoint_list": sc})
		}
		if sc == "first-down" {
			ep1.SetDown(true)
		}
		x := runExec(job, freezeAllBut("manager"), func(x *Exec) {
			in := x.Start("L", x.dir+"/L", 9001, nil)
			c := x.Dial(in.Addr)
			urls := ep1.URL() + "," + ep2.URL()
			if sc == "first-stalls-in-body" {
				urls = ep1.URL()
			}
			c.Do("SETHOOK", "hk", urls, "NEARBY", "k", "FENCE", "DETECT", "inside", "POINT", "1", "1", "100000")
			var want []string
			for i := 0; i < 3; i++ {
				id := fmt.Sprintf("o%d", i)
				c.Do("SET", "k", id, "POINT", "1", "1")
				want = append(want, id+":inside")
				vsched.Quiesce()
			}
			total := func() int { return len(ep1.OK()) + len(ep2.OK()) }
			for i := 0; i < 30 && total() < len(want); i++ {
				vsched.Sleep(int64(600 * stdtime.Millisecond))
				vsched.Quiesce()
			}
			vsched.Sleep(int64(1200 * stdtime.Millisecond))
			vsched.Quiesce()
			keys := func(ms []string) (out []string) {
				for _, m := range ms {
					out = append(out, msgKey(m))
				}
				return
			}
			g1, g2 := keys(ep1.OK()), keys(ep2.OK())
			res.Evaluations++
			res.DistinctS(fmt.Sprint("eplist", sc, len(g1), len(g2)))
			exp1, exp2 := want, []string(nil)
			if sc == "first-down" {
				exp1, exp2 = nil, want
			}
			if strings.Join(g1, ",") != strings.Join(exp1, ",") || strings.Join(g2, ",") != strings.Join(exp2, ",") {
				sig := "wrong"
				if len(g1)+len(g2) > len(want) {
					sig = "duplicated"
				} else if len(g1)+len(g2) < len(want) {
					sig = "lost"
				}
				viol(sig, fmt.Sprintf("first endpoint accepted %v, second %v; expected %v and %v (each notification once, to the first endpoint that accepts it)", g1, g2, exp1, exp2))
			}
		})
		done()
		ep1.Close()
		ep2.Close()
		if x.Err != "" || len(x.Crashes) > 0 {
			viol("hang-or-crash", fmt.Sprint(x.Err, x.Crashes))
		}
	}
}
