//go:build verif

package server

// C10 schedules: a webhook is re-defined (SETHOOK with the same name, another
// META) while a write that fires it is in flight and the endpoint's first
// answer is a failure.  Whatever the interleaving of the two connections with
// the old and the new sender, the notification of the acknowledged write
// reaches the endpoint once it has recovered.

import (
	"fmt"
	"sort"
	"strings"
	stdtime "time"

	"github.com/tidwall/tile38/internal/vshim/vsched"
)

type c10RedefParams struct {
	Name string `json:"name"`
	// Followup: another write to the fence after the re-definition (wakes the new sender)
	Followup bool `json:"followup"`
	// First: status of the endpoint's first answer (500 or 0 = refuse)
	First int `json:"first"`
}

func c10RedefRun(job *Job, p c10RedefParams, prefix []int) (out schedOut) {
	ep := newFakeEndpoint([]int{p.First})
	defer ep.Close()
	x := runExec(job, freezeAllBut("manager"), func(x *Exec) {
		in := x.Start("L", x.dir+"/L", 9001, nil)
		c0 := x.Dial(in.Addr)
		fence := []string{"NEARBY", "k", "FENCE", "DETECT", "inside", "POINT", "1", "1", "100000"}
		c0.Do(append([]string{"SETHOOK", "hk", ep.URL(), "META", "v", "1"}, fence...)...)
		w1, w2 := x.Dial(in.Addr), x.Dial(in.Addr)
		vsched.Quiesce()
		w1.c.Inject(respCmd("SET", "k", "a", "POINT", "1", "1"))
		w2.c.Inject(respCmd(append([]string{"SETHOOK", "hk", ep.URL(), "META", "v", "2"}, fence...)...))
		vsched.Prefix = prefix
		vsched.Exploring = true
		done := vsched.WaitUntilOr(func() bool { return countReplies(w1) >= 1 && countReplies(w2) >= 1 }, int64(30*stdtime.Second))
		vsched.Quiesce()
		vsched.Exploring = false
		out.Trace = append([]vsched.ChoicePoint(nil), vsched.Trace...)
		out.Diverged = vsched.Diverged
		if !done {
			out.VSig, out.VDetail, out.Obs = "C10/no-reply:"+p.Name, vsched.Dump(), "NO-REPLY"
			return
		}
		r1, _ := w1.ReadReply()
		r2, _ := w2.ReadReply()
		want := []string{"a:inside"}
		if p.Followup {
			vsched.Sleep(int64(700 * stdtime.Millisecond))
			vsched.Quiesce()
			c0.Do("SET", "k", "b", "POINT", "1", "1")
			want = append(want, "b:inside")
		}
		// the endpoint is healthy from its second answer on: give the retries time
		for i := 0; i < 20 && len(ep.OK()) < len(want); i++ {
			vsched.Sleep(int64(600 * stdtime.Millisecond))
			vsched.Quiesce()
		}
		vsched.Sleep(int64(1200 * stdtime.Millisecond))
		vsched.Quiesce()
		var got []string
		for _, m := range ep.OK() {
			got = append(got, msgKey(m))
		}
		out.Obs = fmt.Sprintf("set=%s sethook=%s attempts=%d accepted=%v", r1, r2, ep.Requests(), got)
		if r1.String() != "+OK" || r2.IsErr() {
			out.VSig, out.VDetail = "C10/redefine-reply:"+p.Name, out.Obs
			return
		}
		if strings.Join(got, ",") != strings.Join(want, ",") {
			sig := "order"
			if len(got) < len(want) {
				sig = "lost"
			} else if len(got) > len(want) {
				sig = "duplicated"
			}
			out.VSig = "C10/webhook-redefined-" + sig + ":" + p.Name
			out.VDetail = fmt.Sprintf("the endpoint accepted %v (of %d attempts), expected %v: SET k a was acknowledged while hook hk was being re-defined and the endpoint's first answer was a failure (%d); 12 s of retries after it recovered", got, ep.Requests(), want, p.First)
		}
	})
	if strings.HasPrefix(x.Err, "deadlock") && out.VSig == "" {
		out.VSig, out.VDetail, out.Obs = "C10/deadlock:"+p.Name, x.Err, "DEADLOCK"
	} else if x.Err != "" {
		out.Err = x.Err
	}
	return out
}

func c10RedefScenarios() []c10RedefParams {
	return []c10RedefParams{
		{"redefine-500-then-write", true, 500},
		{"redefine-refuse-then-write", true, 0},
		{"redefine-500-no-further-write", false, 500},
	}
}

// ---- a subscriber on a follower while the leader publishes the notifications of one write

type c10FollowSubParams struct {
	Name  string `json:"name"`
	Nchan int    `json:"nchan"`
	// Big: the write is a LineString of ~100 kB (the replication stream carries it in many pieces)
	Big bool `json:"big,omitempty"`
}

func c10FollowSubRun(job *Job, p c10FollowSubParams, prefix []int) (out schedOut) {
	x := runExec(job, freezeAllBut("follow", "Serve#2", "Serve#4"), func(x *Exec) {
		L := x.Start("L", x.dir+"/L", 9001, nil)
		F := x.Start("F", x.dir+"/F", 9002, nil)
		lc, fc := x.Dial(L.Addr), x.Dial(F.Addr)
		for i := 0; i < p.Nchan; i++ {
			lc.Do("SETCHAN", fmt.Sprintf("ch%d", i), "NEARBY", "k", "FENCE", "POINT", "1", "1", "100000")
		}
		fc.Do("FOLLOW", "127.0.0.1", "9001")
		ok := false
		for i := 0; i < 100 && !ok; i++ {
			vsched.Sleep(int64(100 * stdtime.Millisecond))
			vsched.Quiesce()
			ok = followerCaughtUp(fc)
		}
		if !ok {
			out.Err = "the follower did not catch up within 10 virtual seconds"
			return
		}
		ls, fs := x.Dial(L.Addr), x.Dial(F.Addr)
		ls.Send(respCmd("PSUBSCRIBE", "ch*"))
		fs.Send(respCmd("PSUBSCRIBE", "ch*"))
		vsched.Quiesce()
		recvPayloads(ls)
		recvPayloads(fs)
		w1 := x.Dial(L.Addr)
		vsched.Quiesce()
		if p.Big {
			var sb strings.Builder
			sb.WriteString(`{"type":"LineString","coordinates":[`)
			for i := 0; i < 4000; i++ {
				if i > 0 {
					sb.WriteByte(',')
				}
				fmt.Fprintf(&sb, "[1.%06d,1.%06d]", i, i)
			}
			sb.WriteString("]}")
			w1.c.Inject(respCmd("SET", "k", "o0", "OBJECT", sb.String()))
		} else {
			w1.c.Inject(respCmd("SET", "k", "o0", "POINT", "1", "1"))
		}
		vsched.Prefix = prefix
		vsched.Exploring = true
		done := vsched.WaitUntilOr(func() bool { return countReplies(w1) >= 1 }, int64(30*stdtime.Second))
		vsched.Quiesce()
		vsched.Exploring = false
		out.Trace = append([]vsched.ChoicePoint(nil), vsched.Trace...)
		out.Diverged = vsched.Diverged
		if !done {
			out.VSig, out.VDetail, out.Obs = "C10/no-reply:"+p.Name, vsched.Dump(), "NO-REPLY"
			return
		}
		for i := 0; i < 15; i++ {
			vsched.Sleep(int64(100 * stdtime.Millisecond))
			vsched.Quiesce()
		}
		key := func(ms []string) []string {
			var all []string
			for _, m := range ms {
				hook := "?"
				if x := reHookName.FindStringSubmatch(m); x != nil {
					hook = x[1]
				}
				all = append(all, hook+"/"+msgKey(m))
			}
			sort.Strings(all)
			return all
		}
		la, fa := key(recvPayloads(ls)), key(recvPayloads(fs))
		out.Obs = fmt.Sprintf("leader=%d follower=%d", len(la), len(fa))
		if !followerCaughtUp(fc) || strings.Contains(string(vsched.LastLog), "Protocol error") {
			out.VSig = "C10/follower-link-broken-by-forwarded-messages:" + p.Name
			out.VDetail = fmt.Sprintf("after one SET on the leader (firing %d channels) the follower is not caught up / logged a protocol error: %s", p.Nchan, vclip(string(vsched.LastLog), 300))
			return
		}
		if len(la) == 0 {
			out.Err = "the subscriber on the leader received nothing"
			return
		}
		if strings.Join(la, ",") != strings.Join(fa, ",") {
			sig := "lost"
			if len(fa) > len(la) {
				sig = "duplicated"
			} else if len(fa) == len(la) {
				sig = "lost-and-duplicated"
			}
			out.VSig = "C10/follower-subscriber-" + sig + ":" + p.Name
			out.VDetail = fmt.Sprintf("one SET on the leader fires %d channels: the subscriber on the leader received %v, the subscriber on the caught-up follower %v", p.Nchan, la, fa)
		}
	})
	if strings.HasPrefix(x.Err, "deadlock") && out.VSig == "" {
		out.VSig, out.VDetail, out.Obs = "C10/deadlock:"+p.Name, x.Err, "DEADLOCK"
	} else if x.Err != "" && out.Err == "" {
		out.Err = x.Err
	}
	return out
}
