//go:build verif

package collection

// In-package audit used by the verification harness (compiled only with the
// verif tag through the overlay; never part of /repo).

import (
	"fmt"
	"sort"
	"strings"

	"github.com/tidwall/tile38/internal/object"
)

// VerifAudit cross-checks the four indexes and the counters against the id
// map and returns a canonical dump of the internal state (deadlines reduced to
// a flag) plus the list of inconsistencies found.
func (c *Collection) VerifAudit() (dump string, problems []string) {
	var ids []string
	byid := map[string]*object.Object{}
	c.objs.Scan(func(id string, o *object.Object) bool {
		ids = append(ids, id)
		byid[id] = o
		if o.ID() != id {
			problems = append(problems, fmt.Sprintf("objs key %q holds object with id %q", id, o.ID()))
		}
		return true
	})
	var nsp, nstr, pts, weight int
	wantSpatial, wantValues, wantExpires := map[string]bool{}, map[string]bool{}, map[string]bool{}
	for _, id := range ids {
		o := byid[id]
		if o.IsSpatial() {
			nsp++
			if !o.Geo().Empty() {
				wantSpatial[id] = true
			}
		} else {
			nstr++
			wantValues[id] = true
		}
		if o.Expires() != 0 {
			wantExpires[id] = true
		}
		pts += o.Geo().NumPoints()
		weight += o.Weight()
	}
	gotSpatial := map[string]int{}
	c.spatial.Scan(func(min, max [2]float32, o *object.Object) bool {
		gotSpatial[o.ID()]++
		if byid[o.ID()] != o {
			problems = append(problems, fmt.Sprintf("spatial index holds a stale object for id %q", o.ID()))
		} else {
			wmin, wmax := rtreeRect(o.Rect())
			if wmin != min || wmax != max {
				problems = append(problems, fmt.Sprintf("spatial rect of %q is %v %v, want %v %v", o.ID(), min, max, wmin, wmax))
			}
		}
		return true
	})
	for id, n := range gotSpatial {
		if !wantSpatial[id] || n != 1 {
			problems = append(problems, fmt.Sprintf("spatial index has %d entries for %q (want %v)", n, id, wantSpatial[id]))
		}
	}
	for id := range wantSpatial {
		if gotSpatial[id] == 0 {
			problems = append(problems, fmt.Sprintf("spatial index lacks %q", id))
		}
	}
	gotValues := map[string]int{}
	c.values.Scan(func(o *object.Object) bool {
		gotValues[o.ID()]++
		if byid[o.ID()] != o {
			problems = append(problems, fmt.Sprintf("values index holds a stale object for id %q", o.ID()))
		}
		return true
	})
	for id, n := range gotValues {
		if !wantValues[id] || n != 1 {
			problems = append(problems, fmt.Sprintf("values index has %d entries for %q (want %v)", n, id, wantValues[id]))
		}
	}
	for id := range wantValues {
		if gotValues[id] == 0 {
			problems = append(problems, fmt.Sprintf("values index lacks %q", id))
		}
	}
	gotExpires := map[string]int{}
	c.expires.Scan(func(o *object.Object) bool {
		gotExpires[o.ID()]++
		if byid[o.ID()] != o {
			problems = append(problems, fmt.Sprintf("expires index holds a stale object for id %q", o.ID()))
		}
		return true
	})
	for id, n := range gotExpires {
		if !wantExpires[id] || n != 1 {
			problems = append(problems, fmt.Sprintf("expires index has %d entries for %q (want %v)", n, id, wantExpires[id]))
		}
	}
	for id := range wantExpires {
		if gotExpires[id] == 0 {
			problems = append(problems, fmt.Sprintf("expires index lacks %q", id))
		}
	}
	if c.objects != nsp {
		problems = append(problems, fmt.Sprintf("objects counter %d, recomputed %d", c.objects, nsp))
	}
	if c.nobjects != nstr {
		problems = append(problems, fmt.Sprintf("nobjects counter %d, recomputed %d", c.nobjects, nstr))
	}
	if c.points != pts {
		problems = append(problems, fmt.Sprintf("points counter %d, recomputed %d", c.points, pts))
	}
	if c.weight != weight {
		problems = append(problems, fmt.Sprintf("weight counter %d, recomputed %d", c.weight, weight))
	}
	if c.spatial.Len() != len(wantSpatial) {
		problems = append(problems, fmt.Sprintf("spatial.Len %d, want %d", c.spatial.Len(), len(wantSpatial)))
	}
	if c.values.Len() != len(wantValues) {
		problems = append(problems, fmt.Sprintf("values.Len %d, want %d", c.values.Len(), len(wantValues)))
	}
	if c.expires.Len() != len(wantExpires) {
		problems = append(problems, fmt.Sprintf("expires.Len %d, want %d", c.expires.Len(), len(wantExpires)))
	}
	var sb strings.Builder
	sort.Strings(ids)
	for _, id := range ids {
		o := byid[id]
		fmt.Fprintf(&sb, "%s=%s|", id, o.String())
		o.Fields().Scan(func(f fieldT) bool {
			fmt.Fprintf(&sb, "%s:%d:%s,", f.Name(), f.Value().Kind(), f.Value().Data())
			return true
		})
		fmt.Fprintf(&sb, "|sp=%v,ex=%v;", o.IsSpatial(), o.Expires() != 0)
	}
	fmt.Fprintf(&sb, "#obj=%d,nobj=%d,pts=%d,w=%d,sp=%d,val=%d,exp=%d", c.objects, c.nobjects, c.points, c.weight,
		c.spatial.Len(), c.values.Len(), c.expires.Len())
	sort.Strings(problems)
	return sb.String(), problems
}
