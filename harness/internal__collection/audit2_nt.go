//go:build verif

package collection

import "github.com/tidwall/tile38/internal/field"

type fieldT = field.Field
