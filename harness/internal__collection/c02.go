//go:build verif

package collection

// C02 (in package collection): the spatial index neither loses nor invents
// results.
//  small scope : ALL histories of <= 3 (thorough 4) operations over {set id in
//                {a,b,c} to one of 14 geometries, delete id}; after each history,
//                every query area of a 28-entry catalogue, Within and Intersects,
//                index result = index-free scan applying the same predicate;
//                SPARSE results are a subset of the plain ones.
//  structure   : grids of n in {63,64,65,129,1025} objects, 3 insertion orders,
//                5 deletion patterns, moves across the antimeridian side; one
//                window per grid cell + the catalogue.
//  rounding    : for float32 cell boundaries (strided in quick, ALL 2^32 bit
//                patterns in thorough) and float64 values on and next to them:
//                rtreeValueDown(d) <= d <= rtreeValueUp(d).

import (
	"fmt"
	"math"
	"sort"
	"strings"
	"testing"

	"github.com/tidwall/geojson"
	"github.com/tidwall/geojson/geometry"
	"github.com/tidwall/tile38/internal/field"
	"github.com/tidwall/tile38/internal/object"
	"github.com/tidwall/tile38/internal/vshim/vjob"
)

func TestVerif(t *testing.T) {
	vjob.Run(t, map[string]func(*vjob.Job, *vjob.Result){"c02small": checkC02Small, "c02struct": checkC02Struct, "c02round": checkC02Round})
}

func mustParse(s string) geojson.Object {
	o, err := geojson.Parse(s, nil)
	if err != nil {
		panic(err)
	}
	return o
}

func pt(x, y float64) geojson.Object { return geojson.NewPoint(geometry.Point{X: x, Y: y}) }
func rc(minx, miny, maxx, maxy float64) geojson.Object {
	return geojson.NewRect(geometry.Rect{Min: geometry.Point{X: minx, Y: miny}, Max: geometry.Point{X: maxx, Y: maxy}})
}

type namedGeo struct {
	Name string
	G    geojson.Object
}

func c02Geoms() []namedGeo {
	return []namedGeo{
		{"pt(0,0)", pt(0, 0)}, {"pt(180,90)", pt(180, 90)}, {"pt(-180,-90)", pt(-180, -90)},
		{"pt(-115.00000987,33.000000123)", pt(-115.00000987, 33.000000123)}, {"pt(115.00000987,-33.000000123)", pt(115.00000987, -33.000000123)},
		{"pt(-0.1,-0.1)", pt(-0.1, -0.1)},
		{"rect-degenerate", rc(5, 5, 5, 5)}, {"rect-straddles-0", rc(-1, -1, 1, 1)}, {"rect-neg", rc(-122.4000001, -37.8000001, -122.3999999, -37.7999999)},
		{"line", mustParse(`{"type":"LineString","coordinates":[[-2,-2],[2,2]]}`)},
		{"polygon-hole", mustParse(`{"type":"Polygon","coordinates":[[[-3,-3],[3,-3],[3,3],[-3,3],[-3,-3]],[[-1,-1],[1,-1],[1,1],[-1,1],[-1,-1]]]}`)},
		{"multipoint", mustParse(`{"type":"MultiPoint","coordinates":[[10,10],[-10,-10]]}`)},
		{"feature", mustParse(`{"type":"Feature","geometry":{"type":"Point","coordinates":[-115.00000987,33.000000123]},"properties":{}}`)},
		{"collection", mustParse(`{"type":"GeometryCollection","geometries":[{"type":"Point","coordinates":[7,7]},{"type":"LineString","coordinates":[[7,7],[8,8]]}]}`)},
		{"empty", mustParse(`{"type":"GeometryCollection","geometries":[]}`)},
	}
}

func c02Areas() []namedGeo {
	a := []namedGeo{
		{"world", rc(-180, -90, 180, 90)}, {"rect(-1,-1,1,1)", rc(-1, -1, 1, 1)}, {"rect(0,0,0,0)", rc(0, 0, 0, 0)}, {"rect-east-edge", rc(179.9, 89.9, 180, 90)},
		{"rect-west-edge", rc(-180, -90, -179.9, -89.9)}, {"rect(5,5,5,5)", rc(5, 5, 5, 5)}, {"rect(-3,-3,3,3)", rc(-3, -3, 3, 3)}, {"rect(-0.5,-0.5,0.5,0.5)", rc(-0.5, -0.5, 0.5, 0.5)},
		// areas whose edges coincide with float64 coordinates that float32 cannot represent
		{"rect-min-at-obj(-115.00000987..)", rc(-115.00000987, 33.000000123, -115, 33.1)}, {"rect-max-at-obj(..-115.00000987)", rc(-116, 32, -115.00000987, 33.000000123)},
		{"rect-min-at-obj(115.00000987..)", rc(115.00000987, -33.000000123, 116, -33)}, {"rect-max-at-obj(..115.00000987)", rc(115, -34, 115.00000987, -33.000000123)},
		{"rect-neg-touch-west", rc(-122.3999999, -37.8000001, -122.3, -37.7)}, {"rect-neg-touch-south", rc(-122.5, -37.7999999, -122.3, -37.7)},
		{"pt(0,0)", pt(0, 0)}, {"pt(-115.00000987,33.000000123)", pt(-115.00000987, 33.000000123)}, {"pt(7.5,7.5)", pt(7.5, 7.5)},
		{"circle(0,0,200km)", geojson.NewCircle(geometry.Point{X: 0, Y: 0}, 200000, 32)}, {"circle(-115,33,10km)", geojson.NewCircle(geometry.Point{X: -115, Y: 33}, 10000, 32)},
		{"circle(10,10,1m)", geojson.NewCircle(geometry.Point{X: 10, Y: 10}, 1, 16)},
		{"triangle", mustParse(`{"type":"Polygon","coordinates":[[[-4,-4],[4,-4],[0,4],[-4,-4]]]}`)},
		{"polygon-in-hole", mustParse(`{"type":"Polygon","coordinates":[[[-0.5,-0.5],[0.5,-0.5],[0.5,0.5],[-0.5,0.5],[-0.5,-0.5]]]}`)},
		{"line-diag", mustParse(`{"type":"LineString","coordinates":[[-5,-5],[12,12]]}`)},
		{"multipolygon", mustParse(`{"type":"MultiPolygon","coordinates":[[[[6,6],[9,6],[9,9],[6,9],[6,6]]],[[[-11,-11],[-9,-11],[-9,-9],[-11,-9],[-11,-11]]]]}`)},
		{"feature-rect", mustParse(`{"type":"Feature","geometry":{"type":"Polygon","coordinates":[[[-2,-2],[2,-2],[2,2],[-2,2],[-2,-2]]]},"properties":{}}`)},
		{"rect-tiny-at-0", rc(-1e-9, -1e-9, 1e-9, 1e-9)}, {"rect(9.9999,9.9999,10.0001,10.0001)", rc(9.9999, 9.9999, 10.0001, 10.0001)}, {"rect-far", rc(100, 50, 101, 51)},
	}
	return a
}

func newObj(id string, g geojson.Object) *object.Object { return object.New(id, g, 0, field.List{}) }

// compare index results with an index-free scan for every area.
func c02Compare(c *Collection, areas []namedGeo, res *vjob.Result, where func() string, class string, replay any) {
	for _, a := range areas {
		for _, pred := range []string{"within", "intersects"} {
			want := map[string]bool{}
			c.Scan(false, nil, nil, func(o *object.Object) bool {
				if !o.IsSpatial() || o.Geo().Empty() {
					return true // an empty geometry has no position: never a search result
				}
				if pred == "within" && o.Geo().Within(a.G) || pred == "intersects" && o.Geo().Intersects(a.G) {
					want[o.ID()] = true
				}
				return true
			})
			got := map[string]int{}
			iter := func(o *object.Object) bool { got[o.ID()]++; return true }
			if pred == "within" {
				c.Within(a.G, 0, nil, nil, iter)
			} else {
				c.Intersects(a.G, 0, nil, nil, iter)
			}
			res.Evaluations++
			for id := range want {
				if got[id] == 0 {
					res.Violate("C02/index-loses-result:"+pred+":"+class, fmt.Sprintf("%s by %s: object %s satisfies the predicate but the index search does not return it  [%s]", pred, a.Name, id, where()), replay)
				}
			}
			for id, n := range got {
				if !want[id] || n != 1 {
					res.Violate("C02/index-invents-result:"+pred+":"+class, fmt.Sprintf("%s by %s: the index search returns %s %d time(s), the predicate says %v  [%s]", pred, a.Name, id, n, want[id], where()), replay)
				}
			}
			// SPARSE only thins
			for _, sp := range []uint8{1, 3} {
				sg := map[string]bool{}
				it := func(o *object.Object) bool { sg[o.ID()] = true; return true }
				if pred == "within" {
					c.Within(a.G, sp, nil, nil, it)
				} else {
					c.Intersects(a.G, sp, nil, nil, it)
				}
				for id := range sg {
					if !want[id] {
						res.Violate("C02/sparse-adds-non-matching:"+pred, fmt.Sprintf("%s by %s SPARSE %d returns %s which does not satisfy the predicate  [%s]", pred, a.Name, sp, id, where()), replay)
					}
				}
			}
		}
	}
}

func checkC02Small(job *vjob.Job, res *vjob.Result) {
	res.Rule = "exhaustive: all histories of <= D operations over {set a|b|c to one of 15 geometries, delete a|b|c} (48 symbols; D = 3 quick, 4 thorough with a reduced area catalogue) x 28 query areas x {Within, Intersects} (+ SPARSE 1, 3); distinct = distinct final datasets"
	geoms, areas := c02Geoms(), c02Areas()
	ids := []string{"a", "b", "c"}
	type sym struct {
		id string
		g  int // -1 = delete
	}
	var syms []sym
	for _, id := range ids {
		for gi := range geoms {
			syms = append(syms, sym{id, gi})
		}
		syms = append(syms, sym{id, -1})
	}
	depth := 3
	if job.Tier == "thorough" {
		depth = 4
	}
	if d, ok := job.Params["depth"].(float64); ok {
		depth = int(d)
	}
	n := 0
	var rec func(hist []int)
	rec = func(hist []int) {
		if len(hist) > 0 {
			n++
			if n%job.NShards == job.Shard {
				c := New()
				var desc []string
				for _, k := range hist {
					s := syms[k]
					if s.g < 0 {
						c.Delete(s.id)
						desc = append(desc, "del "+s.id)
					} else {
						c.Set(newObj(s.id, geoms[s.g].G))
						desc = append(desc, "set "+s.id+"="+geoms[s.g].Name)
					}
				}
				as := areas
				if len(hist) == 4 {
					as = areas[:12] // depth 4: the rectangle / point part of the catalogue
				}
				c02Compare(c, as, res, func() string { return "history: " + strings.Join(desc, " ; ") }, "small", map[string]any{"history": desc})
				if _, problems := c.VerifAudit(); len(problems) > 0 {
					res.Violate("C02/index-audit:small", fmt.Sprintf("%v  [history: %s]", problems, strings.Join(desc, " ; ")), map[string]any{"history": desc})
				}
				var final []string
				c.Scan(false, nil, nil, func(o *object.Object) bool { final = append(final, o.ID()+"="+o.String()); return true })
				res.DistinctS(strings.Join(final, ";"))
				res.States++
			}
		}
		if len(hist) == depth || res.OverBudget() {
			if res.OverBudget() {
				res.Cap("time budget hit")
			}
			return
		}
		for k := range syms {
			rec(append(hist, k))
		}
	}
	rec(nil)
	res.Transitions = res.Evaluations
	res.Validated = res.States
	res.Bounds["histories"] = n
	res.Bounds["depth"] = depth
	res.Sample(map[string]any{"history": []string{"set a=empty", "set a=pt(0,0)"}, "areas": len(areas)})
}

func checkC02Struct(job *vjob.Job, res *vjob.Result) {
	res.Rule = "structure scope: grids of n in {63,64,65,129,1025} points/rects inserted in 3 orders x 5 deletion patterns x moves of every 7th object to the other side of the antimeridian; queries: one window per grid cell (strided for n = 1025) + the area catalogue; distinct = distinct (n, order, deletion pattern)"
	areas := c02Areas()
	caseNo := 0
	for _, n := range []int{63, 64, 65, 129, 1025} {
		side := int(math.Ceil(math.Sqrt(float64(n))))
		mk := func(i int) *object.Object {
			x, y := float64(i%side)*0.37-170.3, float64(i/side)*0.29-40.7
			if i%5 == 0 {
				return newObj(fmt.Sprintf("o%04d", i), rc(x, y, x+0.2, y+0.1))
			}
			return newObj(fmt.Sprintf("o%04d", i), pt(x, y))
		}
		for order := 0; order < 3; order++ {
			for del := 0; del < 5; del++ {
				caseNo++
				if caseNo%job.NShards != job.Shard {
					continue
				}
				c := New()
				idx := make([]int, n)
				for i := range idx {
					idx[i] = i
				}
				switch order {
				case 1:
					sort.Sort(sort.Reverse(sort.IntSlice(idx)))
				case 2:
					sort.Slice(idx, func(a, b int) bool { return (idx[a]*7919)%n < (idx[b]*7919)%n })
				}
				for _, i := range idx {
					c.Set(mk(i))
				}
				switch del {
				case 1:
					for i := 0; i < n; i += 2 {
						c.Delete(fmt.Sprintf("o%04d", i))
					}
				case 2:
					for i := 0; i < n/2; i++ {
						c.Delete(fmt.Sprintf("o%04d", i))
					}
				case 3:
					for i := 0; i < n-1; i++ {
						c.Delete(fmt.Sprintf("o%04d", i))
					}
				case 4:
					for i := 0; i < n; i++ {
						c.Delete(fmt.Sprintf("o%04d", i))
					}
					for _, i := range idx {
						c.Set(mk(i))
					}
				}
				// moves across the antimeridian side
				for i := 0; i < n; i += 7 {
					id := fmt.Sprintf("o%04d", i)
					if o := c.Get(id); o != nil {
						r := o.Rect()
						c.Set(newObj(id, pt(-r.Min.X, r.Min.Y)))
					}
				}
				var win []namedGeo
				step := 1
				if n > 200 {
					step = 9
				}
				for i := 0; i < n; i += step {
					x, y := float64(i%side)*0.37-170.3, float64(i/side)*0.29-40.7
					win = append(win, namedGeo{fmt.Sprintf("cell%d", i), rc(x-0.01, y-0.01, x+0.21, y+0.11)}, namedGeo{fmt.Sprintf("mirror%d", i), rc(-x-0.01, y-0.01, -x+0.01, y+0.01)})
				}
				where := func() string { return fmt.Sprintf("grid n=%d, insertion order %d, deletion pattern %d", n, order, del) }
				c02Compare(c, append(win, areas...), res, where, "structure", map[string]any{"n": n, "order": order, "del": del})
				if _, problems := c.VerifAudit(); len(problems) > 0 {
					res.Violate("C02/index-audit:structure", fmt.Sprintf("%v  [%s]", problems[:min(3, len(problems))], where()), nil)
				}
				res.DistinctS(fmt.Sprint(n, order, del))
				res.States++
			}
		}
	}
	res.Transitions = res.Evaluations
	res.Validated = res.States
}

func checkC02Round(job *vjob.Job, res *vjob.Result) {
	res.Rule = "rounding lattice: for float32 bit patterns (stride 4099 in quick, ALL 2^32 in thorough) and the float64 values {f, next above, next below, midpoint to the next float32}: float64(rtreeValueDown(d)) <= d <= float64(rtreeValueUp(d)); distinct = distinct (sign, exponent) classes"
	stride := uint64(4099)
	if job.Tier == "thorough" {
		stride = 1
	}
	if s, ok := job.Params["stride"].(float64); ok {
		stride = uint64(s)
	}
	per := (uint64(1) << 32) / uint64(job.NShards)
	lo, hi := per*uint64(job.Shard), per*uint64(job.Shard+1)
	if job.Shard == job.NShards-1 {
		hi = 1 << 32
	}
	bad := 0
	for b := lo - lo%stride; b < hi; b += stride {
		if b < lo {
			continue
		}
		f := math.Float32frombits(uint32(b))
		if f != f || math.IsInf(float64(f), 0) {
			continue
		}
		d0 := float64(f)
		nf := math.Nextafter32(f, float32(math.Inf(1)))
		cands := [4]float64{d0, math.Nextafter(d0, math.Inf(1)), math.Nextafter(d0, math.Inf(-1)), d0 + (float64(nf)-d0)/2}
		for _, d := range cands {
			if math.IsInf(d, 0) || d != d {
				continue
			}
			res.Evaluations++
			dn, up := rtreeValueDown(d), rtreeValueUp(d)
			if math.Abs(d) < 1.1754944e-38 && (float64(dn) > d || float64(up) < d) {
				res.Violate("C02/rounding:float32-subnormal-range", fmt.Sprintf("rtreeValueDown(%v) = %v, rtreeValueUp(%v) = %v: not an enclosing interval", d, dn, d, up), map[string]any{"value": d})
				continue
			}
			if float64(dn) > d {
				bad++
				res.Violate("C02/rounding:down-is-above", fmt.Sprintf("rtreeValueDown(%v) = %v which is greater than the value: the index rectangle would not contain the object", d, dn), map[string]any{"value": d})
			}
			if float64(up) < d {
				bad++
				sgn := "positive"
				if d < 0 {
					sgn = "negative"
				}
				res.Violate("C02/rounding:up-is-below:"+sgn, fmt.Sprintf("rtreeValueUp(%v) = %v which is smaller than the value: the index rectangle would not contain the object", d, up), map[string]any{"value": d})
			}
		}
		if (b/stride)%4096 == 0 {
			res.DistinctS(fmt.Sprint(b >> 23))
		}
		res.States++
	}
	if stride > 1 {
		res.Cap(fmt.Sprintf("float32 lattice strided by %d (all 2^32 bit patterns in the thorough tier)", stride))
	}
	res.Transitions = res.Evaluations
	res.Validated = res.Evaluations
	res.Bounds["stride"] = stride
	res.Sample(map[string]any{"value": -115.00000987, "down": rtreeValueDown(-115.00000987), "up": rtreeValueUp(-115.00000987)})
}
