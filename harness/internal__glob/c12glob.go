//go:build verif

package glob

// C12 (glob part, in package glob): for ALL patterns up to a length bound over
// an 11-byte alphabet and ALL strings up to length 3 over a 6-byte alphabet:
// Match(p, s) implies that s lies inside the scan range Parse(p, desc) derives
// from the literal prefix (ascending and descending), and Match agrees with an
// independent backtracking matcher written from the documented grammar.

import (
	"fmt"
	"testing"

	"github.com/tidwall/tile38/internal/vshim/vjob"
)

func TestVerif(t *testing.T) {
	vjob.Run(t, map[string]func(*vjob.Job, *vjob.Result){"c12glob": checkC12Glob})
}

// refMatch: independent matcher; ok=false when the pattern is malformed.
func refMatch(p, s string) (m bool, ok bool) {
	if p == "" {
		return s == "", true
	}
	switch p[0] {
	case '*':
		anyOK := false
		for i := 0; i <= len(s); i++ {
			mm, o := refMatch(p[1:], s[i:])
			if !o {
				return false, false
			}
			anyOK = anyOK || mm
		}
		return anyOK, true
	case '?':
		if s == "" {
			_, o := refMatch(p[1:], "")
			return false, o
		}
		return refMatch(p[1:], s[1:])
	case '[':
		i := 1
		neg := false
		if i < len(p) && p[i] == '^' {
			neg = true
			i++
		}
		hit := false
		n := 0
		for {
			if i >= len(p) {
				return false, false
			}
			if p[i] == ']' && n > 0 {
				break
			}
			lo := p[i]
			if lo == '\\' {
				i++
				if i >= len(p) {
					return false, false
				}
				lo = p[i]
			} else if lo == '-' || lo == ']' {
				return false, false
			}
			hi := lo
			if i+1 < len(p) && p[i+1] == '-' {
				i += 2
				if i >= len(p) {
					return false, false
				}
				hi = p[i]
				if hi == '\\' {
					i++
					if i >= len(p) {
						return false, false
					}
					hi = p[i]
				} else if hi == ']' || hi == '-' {
					return false, false
				}
			}
			if s != "" && lo <= s[0] && s[0] <= hi {
				hit = true
			}
			n++
			i++
		}
		rest := p[i+1:]
		if s == "" {
			_, o := refMatch(rest, "")
			return false, o
		}
		if hit == neg {
			_, o := refMatch(rest, s[1:])
			return false, o
		}
		return refMatch(rest, s[1:])
	case '\\':
		if len(p) == 1 {
			return false, false
		}
		if s == "" || s[0] != p[1] {
			_, o := refMatch(p[2:], "")
			return false, o
		}
		return refMatch(p[2:], s[1:])
	}
	if s == "" || s[0] != p[0] {
		_, o := refMatch(p[1:], "")
		return false, o
	}
	return refMatch(p[1:], s[1:])
}

func checkC12Glob(job *vjob.Job, res *vjob.Result) {
	res.Rule = "exhaustive: all patterns of length <= L (quick 4, thorough 5) over {a b * ? [ ] - ^ \\ 0x00 0xff} x all strings of length <= 3 over {a b * \\ 0x00 0xff}; oracles: Match(p,s) => s inside the ascending and the descending scan range of Parse(p); Match(p,s) == independent matcher for well-formed patterns; distinct = distinct (pattern class, verdict)"
	maxLen := 4
	if job.Tier == "thorough" {
		maxLen = 5
	}
	if l, ok := job.Params["maxlen"].(float64); ok {
		maxLen = int(l)
	}
	pa := []byte{'a', 'b', '*', '?', '[', ']', '-', '^', '\\', 0x00, 0xff}
	sa := []byte{'a', 'b', '*', '\\', 0x00, 0xff}
	var strs []string
	var gs func(cur []byte)
	gs = func(cur []byte) {
		strs = append(strs, string(cur))
		if len(cur) == 3 {
			return
		}
		for _, b := range sa {
			gs(append(cur, b))
		}
	}
	gs(nil)
	np := 0
	var gp func(cur []byte)
	gp = func(cur []byte) {
		if len(cur) > 0 {
			np++
			if np%job.NShards == job.Shard {
				p := string(cur)
				ga, gd := Parse(p, false), Parse(p, true)
				_, wellFormed := refMatch(p, "")
				for _, s := range strs {
					m, err := Match(p, s)
					res.Evaluations++
					if err != nil {
						continue
					}
					if m {
						if !(ga.Limits[0] == "" && ga.Limits[1] == "") && !(ga.Limits[0] <= s && s < ga.Limits[1]) && !(ga.Limits[0] == s && ga.Limits[1] == s) {
							res.Violate("C12/glob-range:asc:"+cause(p), fmt.Sprintf("Match(%q, %q) is true but the ascending scan range of Parse is [%q, %q)", p, s, ga.Limits[0], ga.Limits[1]), map[string]any{"pattern": fmt.Sprintf("%q", p), "string": fmt.Sprintf("%q", s)})
						}
						if !(gd.Limits[0] == "" && gd.Limits[1] == "") && !(s <= gd.Limits[0] && s > gd.Limits[1]) && !(gd.Limits[0] == s && gd.Limits[1] == s) {
							res.Violate("C12/glob-range:desc:"+cause(p), fmt.Sprintf("Match(%q, %q) is true but the descending scan range of Parse is (%q, %q]", p, s, gd.Limits[1], gd.Limits[0]), map[string]any{"pattern": fmt.Sprintf("%q", p), "string": fmt.Sprintf("%q", s)})
						}
					}
					if wellFormed {
						if rm, _ := refMatch(p, s); rm != m {
							res.Violate("C12/glob-match:"+class(p), fmt.Sprintf("Match(%q, %q) = %v, the documented grammar gives %v", p, s, m, rm), map[string]any{"pattern": fmt.Sprintf("%q", p), "string": fmt.Sprintf("%q", s)})
						}
					}
				}
				res.DistinctS(class(p) + fmt.Sprint(wellFormed, ga.Limits[0] == ""))
				res.States++
			}
		}
		if len(cur) == maxLen {
			return
		}
		for _, b := range pa {
			gp(append(cur, b))
		}
	}
	gp(nil)
	res.Transitions = res.Evaluations
	res.Validated = res.Evaluations
	res.Bounds["patterns"] = np
	res.Bounds["strings"] = len(strs)
	res.Sample(map[string]any{"pattern": "a\\*b", "string": "a*b"})
}

// class: shape of a pattern (which metacharacters, where the first one is).
func class(p string) string {
	c := ""
	first := -1
	for i := 0; i < len(p); i++ {
		switch p[i] {
		case '*', '?', '[', '\\':
			if first < 0 {
				first = i
			}
			c += string(p[i])
		}
	}
	if len(c) > 3 {
		c = c[:3]
	}
	return fmt.Sprintf("%s@%d", c, first)
}

// cause classifies why a literal-prefix range could be wrong for pattern p.
func cause(p string) string {
	n := 0
	for n < len(p) && p[n] != '*' && p[n] != '?' && p[n] != '[' {
		n++
	}
	pre := p[:n]
	if i := indexByte(pre, '\\'); i >= 0 {
		// bytes before the first escape
		if i > 0 && pre[i-1] == 0xff {
			return "prefix-ends-with-0xff"
		}
		return "escape-in-literal-prefix"
	}
	switch {
	case n == 0:
		return "wildcard-first"
	case pre[n-1] == 0xff:
		return "prefix-ends-with-0xff"
	case pre[n-1] == 0x00:
		return "prefix-ends-with-0x00"
	}
	return "other:" + class(p)
}

func indexByte(s string, b byte) int {
	for i := 0; i < len(s); i++ {
		if s[i] == b {
			return i
		}
	}
	return -1
}
