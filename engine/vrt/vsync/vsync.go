// Package vsync replaces "sync" in the code under test.
package vsync

import (
	"sync"

	"github.com/tidwall/tile38/internal/vshim/vsched"
)

type Locker = sync.Locker
type Pool = sync.Pool
type Once = sync.Once
type Map = sync.Map

type Mutex struct {
	locked  bool
	Owner   int
	waiters []*mwaiter
}

// mwaiter: a thread blocked in Lock.  As in the Go runtime ("starvation mode"),
// a waiter that has been blocked for more than 1 ms (of virtual time) is handed
// the mutex directly by Unlock; before that the mutex is simply released and
// whoever runs next may take it (barging).  Without this a retry loop that
// sleeps while holding the mutex and re-takes it right after releasing it
// (Hook.manager) would starve a waiter for ever under the default schedule.
type mwaiter struct {
	id      int
	since   int64
	granted bool
}

const starvationNs = int64(1e6)

func (m *Mutex) Lock() {
	vsched.Point()
	if vsched.On && !vsched.Abort && m.locked {
		w := &mwaiter{id: vsched.CurID(), since: vsched.Clock}
		m.waiters = append(m.waiters, w)
		vsched.WaitUntil(func() bool { return w.granted || !m.locked })
		for i, x := range m.waiters {
			if x == w {
				m.waiters = append(m.waiters[:i], m.waiters[i+1:]...)
				break
			}
		}
		if !w.granted {
			m.locked = true
		}
		vsched.Progress()
		m.Owner = vsched.CurID()
		return
	}
	vsched.WaitUntil(func() bool { return !m.locked })
	m.locked = true
	vsched.Progress()
	if vsched.On {
		m.Owner = vsched.CurID()
	}
}
func (m *Mutex) TryLock() bool {
	vsched.Point()
	if m.locked && !vsched.Abort { // tearing down: deferred code of a dying thread must not spin on a dead holder
		return false
	}
	m.locked = true
	vsched.Progress()
	if vsched.On {
		m.Owner = vsched.CurID()
	}
	return true
}
func (m *Mutex) Unlock() {
	if !m.locked && !vsched.Abort {
		panic("vsync: unlock of unlocked mutex")
	}
	if vsched.On && !vsched.Abort && len(m.waiters) > 0 && vsched.Clock-m.waiters[0].since > starvationNs {
		m.waiters[0].granted = true // ownership passes on; the mutex stays locked
		m.Owner = m.waiters[0].id
		return
	}
	m.locked = false
}

// RWMutex records its holders for the lock-discipline monitor.
type RWMutex struct {
	w       bool
	r       int
	Writer  int         // thread id of the exclusive holder (valid while w)
	Readers map[int]int // thread id -> shared hold count
	// WGen counts exclusive acquisitions (monitor: "was it ever held
	// exclusively in between").
	WGen uint64
}

func (m *RWMutex) Lock() {
	vsched.Point()
	vsched.WaitUntil(func() bool { return !m.w && m.r == 0 })
	m.w = true
	vsched.Progress()
	m.WGen++
	if vsched.On {
		m.Writer = vsched.CurID()
	}
}
func (m *RWMutex) TryLock() bool {
	vsched.Point()
	if (m.w || m.r > 0) && !vsched.Abort {
		return false
	}
	m.w = true
	vsched.Progress()
	m.WGen++
	if vsched.On {
		m.Writer = vsched.CurID()
	}
	return true
}
func (m *RWMutex) Unlock() {
	vsched.Observe()
	if !m.w && !vsched.Abort {
		panic("vsync: unlock of unlocked rwmutex")
	}
	m.w = false
}
func (m *RWMutex) RLock() {
	vsched.Point()
	vsched.WaitUntil(func() bool { return !m.w })
	m.r++
	vsched.Progress()
	if vsched.On {
		if m.Readers == nil {
			m.Readers = map[int]int{}
		}
		m.Readers[vsched.CurID()]++
	}
}
func (m *RWMutex) TryRLock() bool {
	vsched.Point()
	if m.w && !vsched.Abort {
		return false
	}
	m.r++
	vsched.Progress()
	if vsched.On {
		if m.Readers == nil {
			m.Readers = map[int]int{}
		}
		m.Readers[vsched.CurID()]++
	}
	return true
}
func (m *RWMutex) RUnlock() {
	vsched.Observe()
	if m.r <= 0 && !vsched.Abort {
		panic("vsync: runlock of unlocked rwmutex")
	}
	m.r--
	if vsched.On && m.Readers != nil {
		id := vsched.CurID()
		if m.Readers[id] <= 1 {
			delete(m.Readers, id)
		} else {
			m.Readers[id]--
		}
	}
}

// HeldExclusiveBy reports whether thread id holds the lock exclusively.
func (m *RWMutex) HeldExclusiveBy(id int) bool { return m.w && m.Writer == id }
func (m *RWMutex) HeldExclusive() bool         { return m.w }
func (m *RWMutex) ReaderCount() int            { return m.r }

type Cond struct {
	L   Locker
	gen uint64
}

func NewCond(l Locker) *Cond { return &Cond{L: l} }
func (c *Cond) Wait() {
	g := c.gen
	c.L.Unlock()
	vsched.Point()
	vsched.WaitUntil(func() bool { return c.gen != g })
	c.L.Lock()
}
func (c *Cond) Signal()    { vsched.Point(); vsched.Progress(); c.gen++ }
func (c *Cond) Broadcast() { vsched.Point(); vsched.Progress(); c.gen++ }

type WaitGroup struct{ n int }

func (w *WaitGroup) Add(d int) { w.n += d }
func (w *WaitGroup) Done()     { w.n-- }
func (w *WaitGroup) Wait() {
	vsched.Point()
	vsched.WaitUntil(func() bool { return w.n <= 0 })
}
