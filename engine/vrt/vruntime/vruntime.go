// Package vruntime replaces "runtime": Gosched becomes a visible yield.
package vruntime

import (
	"runtime"

	"github.com/tidwall/tile38/internal/vshim/vsched"
)

type MemStats = runtime.MemStats
type StackRecord = runtime.StackRecord

const GOOS = runtime.GOOS
const GOARCH = runtime.GOARCH

func Gosched()                     { vsched.Yield() }
func GC()                          {}
func ReadMemStats(m *MemStats)     { runtime.ReadMemStats(m) }
func NumCPU() int                  { return runtime.NumCPU() }
func NumGoroutine() int            { return runtime.NumGoroutine() }
func Version() string              { return runtime.Version() }
func Stack(b []byte, all bool) int { return runtime.Stack(b, all) }
func ThreadCreateProfile(p []runtime.StackRecord) (int, bool) {
	return runtime.ThreadCreateProfile(p)
}
