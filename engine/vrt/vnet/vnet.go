// Package vnet replaces "net" with an in-memory network owned by the harness.
// A connection is two queues of segments; Read returns at most one segment, so
// the packetisation the writer chose is exactly what the reader sees.
package vnet

import (
	"errors"
	"io"
	"net"
	"strconv"
	"time"

	"github.com/tidwall/tile38/internal/vshim/vsched"
)

type Conn = net.Conn
type Listener = net.Listener
type Addr = net.Addr
type TCPConn = net.TCPConn
type TCPAddr = net.TCPAddr
type IP = net.IP
type Error = net.Error
type IPNet = net.IPNet
type IPMask = net.IPMask
type UnixAddr = net.UnixAddr
type UDPAddr = net.UDPAddr
type OpError = net.OpError
type AddrError = net.AddrError

// pure functions of "net" (no I/O): passed through
var (
	SplitHostPort = net.SplitHostPort
	JoinHostPort  = net.JoinHostPort
	ParseIP       = net.ParseIP
	ParseCIDR     = net.ParseCIDR
	IPv4          = net.IPv4
	CIDRMask      = net.CIDRMask
	IPv4Mask      = net.IPv4Mask
	ParseMAC      = net.ParseMAC
)

type addr string

func (a addr) Network() string { return "tcp" }
func (a addr) String() string  { return string(a) }

type listener struct {
	a      addr
	q      []*End
	closed bool
}

var listeners = map[string]*listener{}
var nextPort = 40000

// ResetAll forgets all listeners; call between executions.
func ResetAll() {
	listeners = map[string]*listener{}
	nextPort = 40000
	All = nil
	Window = 0
	OnAnyWrite = nil
}

func Listen(network, address string) (Listener, error) {
	if !vsched.On {
		if vsched.Abort {
			return nil, errors.New("vnet: aborted")
		}
		return net.Listen(network, address)
	}
	vsched.Point()
	if l := listeners[address]; l != nil && !l.closed {
		return nil, errors.New("listen tcp " + address + ": bind: address already in use")
	}
	l := &listener{a: addr(address)}
	listeners[address] = l
	return l, nil
}

// Listening reports whether something accepts on address.
func Listening(address string) bool {
	l := listeners[address]
	return l != nil && !l.closed
}

func (l *listener) Accept() (Conn, error) {
	vsched.Point()
	vsched.WaitUntil(func() bool { return l.closed || len(l.q) > 0 })
	if l.closed || len(l.q) == 0 {
		return nil, errors.New("use of closed network connection")
	}
	c := l.q[0]
	l.q = l.q[1:]
	return c, nil
}
func (l *listener) Close() error {
	vsched.Point()
	l.closed = true
	if listeners[string(l.a)] == l {
		delete(listeners, string(l.a))
	}
	return nil
}
func (l *listener) Addr() Addr { return l.a }

type dir struct {
	segs [][]byte
	eof  bool // writer closed
	n    int  // total bytes ever written
}

// End is one end of a connection.
type End struct {
	in, out *dir
	local   addr
	remote  addr
	closed  bool
	Peer    *End
	// OnWrite, if set, observes every Write on this end before it is delivered.
	OnWrite func(b []byte)
	// Server marks the accepting end.
	Server bool
	// Owner is the thread group that dialed (client ends created by DialTimeout).
	Owner string
}

// All lists every client end created since the last ResetAll.
var All []*End

// Window, if > 0, is the flow-control window: a Write blocks while more than
// Window bytes are unread at the peer (TCP back-pressure).  0 = unbounded.
var Window int

// OnAnyWrite, if set, observes every Write (harness triggers).
var OnAnyWrite func(e *End, b []byte)

// Dial connects to a virtual listener; from sets the client-side address
// ("" = a fresh loopback port).  No scheduling point: harness use.
func Dial(address string, from string) (*End, error) {
	l := listeners[address]
	if l == nil || l.closed {
		return nil, errors.New("dial tcp " + address + ": connect: connection refused")
	}
	if from == "" {
		nextPort++
		from = "127.0.0.1:" + strconv.Itoa(nextPort)
	}
	a2b, b2a := &dir{}, &dir{}
	cli := &End{in: b2a, out: a2b, local: addr(from), remote: addr(address)}
	srv := &End{in: a2b, out: b2a, local: addr(address), remote: addr(from), Server: true}
	cli.Peer, srv.Peer = srv, cli
	All = append(All, cli)
	l.q = append(l.q, srv)
	return cli, nil
}

func DialTimeout(network, address string, d time.Duration) (Conn, error) {
	if !vsched.On {
		if vsched.Abort {
			return nil, errors.New("vnet: aborted")
		}
		return net.DialTimeout(network, address, d)
	}
	vsched.Point()
	c, err := Dial(address, "")
	if err != nil {
		return nil, err
	}
	c.Owner = vsched.Cur().Group
	return c, nil
}

func Dial2(network, address string) (Conn, error) { return DialTimeout(network, address, 0) }

func (p *End) readable() bool { return p.closed || len(p.in.segs) > 0 || p.in.eof }

func (p *End) Read(b []byte) (int, error) {
	vsched.Point()
	vsched.WaitUntil(p.readable)
	vsched.Progress()
	return p.read(b)
}

func (p *End) read(b []byte) (int, error) {
	if p.closed {
		return 0, errors.New("use of closed network connection")
	}
	if len(p.in.segs) == 0 {
		if p.in.eof {
			return 0, io.EOF
		}
		return 0, nil
	}
	s := p.in.segs[0]
	n := copy(b, s)
	if n == len(s) {
		p.in.segs = p.in.segs[1:]
	} else {
		p.in.segs[0] = s[n:]
	}
	return n, nil
}

func (p *End) Write(b []byte) (int, error) {
	vsched.Point()
	vsched.Progress()
	if p.closed {
		return 0, errors.New("use of closed network connection")
	}
	if p.Peer.closed {
		return 0, errors.New("write: broken pipe")
	}
	if len(b) == 0 {
		return 0, nil
	}
	if p.OnWrite != nil {
		p.OnWrite(b)
	}
	if OnAnyWrite != nil {
		OnAnyWrite(p, b)
	}
	if Window > 0 {
		unread := func() int {
			n := 0
			for _, s := range p.out.segs {
				n += len(s)
			}
			return n
		}
		vsched.WaitUntil(func() bool { return unread() <= Window || p.closed || p.Peer.closed })
		if p.closed || p.Peer.closed {
			return 0, errors.New("write: broken pipe")
		}
	}
	p.out.segs = append(p.out.segs, append([]byte(nil), b...))
	p.out.n += len(b)
	return len(b), nil
}

func (p *End) Close() error {
	vsched.Point()
	p.closed = true
	p.out.eof = true
	return nil
}

// Kill severs the connection in both directions without a scheduling point.
func (p *End) Kill() {
	p.closed, p.Peer.closed = true, true
	p.in.eof, p.out.eof = true, true
}

// Closed reports whether this end has been closed or killed.
func (p *End) Closed() bool { return p.closed }

// Avail returns the bytes currently readable without blocking.
func (p *End) Avail() int {
	n := 0
	for _, s := range p.in.segs {
		n += len(s)
	}
	return n
}

// Drain returns everything readable now (no scheduling point).
func (p *End) Drain() []byte {
	var out []byte
	for _, s := range p.in.segs {
		out = append(out, s...)
	}
	p.in.segs = nil
	return out
}

// EOF reports that the peer has closed and nothing is left to read.
func (p *End) EOF() bool { return (p.in.eof || p.closed) && len(p.in.segs) == 0 }

// PeerBlockedInRead is true when the peer has consumed everything we sent.
func (p *End) Consumed() bool { return len(p.out.segs) == 0 }

// Sent is the number of bytes this end has ever written.
func (p *End) Sent() int { return p.out.n }

func (p *End) LocalAddr() Addr                    { return p.local }
func (p *End) RemoteAddr() Addr                   { return p.remote }
func (p *End) SetDeadline(t time.Time) error      { return nil }
func (p *End) SetReadDeadline(t time.Time) error  { return nil }
func (p *End) SetWriteDeadline(t time.Time) error { return nil }

// Inject delivers a segment to the peer without a scheduling point (harness).
func (p *End) Inject(b []byte) {
	p.out.segs = append(p.out.segs, append([]byte(nil), b...))
	p.out.n += len(b)
}
