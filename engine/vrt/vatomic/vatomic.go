// Package vatomic replaces "sync/atomic" and "go.uber.org/atomic".
package vatomic

import "github.com/tidwall/tile38/internal/vshim/vsched"

type Int64 struct{ v int64 }

func (a *Int64) Load() int64       { vsched.Point(); return a.v }
func (a *Int64) Store(v int64)     { vsched.Point(); vsched.Progress(); a.v = v }
func (a *Int64) Add(d int64) int64 { vsched.Point(); vsched.Progress(); a.v += d; return a.v }
func (a *Int64) CompareAndSwap(o, n int64) bool {
	vsched.Point()
	if a.v == o {
		a.v = n
		vsched.Progress()
		return true
	}
	return false
}

// Peek reads without a scheduling point (harness / monitors only).
func (a *Int64) Peek() int64 { return a.v }

type Uint64 struct{ v uint64 }

func (a *Uint64) Load() uint64        { vsched.Point(); return a.v }
func (a *Uint64) Store(v uint64)      { vsched.Point(); vsched.Progress(); a.v = v }
func (a *Uint64) Add(d uint64) uint64 { vsched.Point(); vsched.Progress(); a.v += d; return a.v }
func (a *Uint64) Peek() uint64        { return a.v }

type Int32 struct{ v int32 }

func (a *Int32) Load() int32       { vsched.Point(); return a.v }
func (a *Int32) Store(v int32)     { vsched.Point(); vsched.Progress(); a.v = v }
func (a *Int32) Add(d int32) int32 { vsched.Point(); vsched.Progress(); a.v += d; return a.v }
func (a *Int32) CompareAndSwap(o, n int32) bool {
	vsched.Point()
	if a.v == o {
		a.v = n
		vsched.Progress()
		return true
	}
	return false
}
func (a *Int32) Peek() int32 { return a.v }

type Uint32 struct{ v uint32 }

func (a *Uint32) Load() uint32        { vsched.Point(); return a.v }
func (a *Uint32) Store(v uint32)      { vsched.Point(); vsched.Progress(); a.v = v }
func (a *Uint32) Add(d uint32) uint32 { vsched.Point(); vsched.Progress(); a.v += d; return a.v }

type Bool struct{ v bool }

func (a *Bool) Load() bool   { vsched.Point(); return a.v }
func (a *Bool) Store(v bool) { vsched.Point(); vsched.Progress(); a.v = v }
func (a *Bool) CompareAndSwap(o, n bool) bool {
	vsched.Point()
	if a.v == o {
		a.v = n
		vsched.Progress()
		return true
	}
	return false
}
func (a *Bool) Peek() bool { return a.v }

func AddInt64(p *int64, d int64) int64       { vsched.Point(); *p += d; return *p }
func AddInt32(p *int32, d int32) int32       { vsched.Point(); *p += d; return *p }
func AddUint32(p *uint32, d uint32) uint32   { vsched.Point(); *p += d; return *p }
func AddUint64(p *uint64, d uint64) uint64   { vsched.Point(); *p += d; return *p }
func LoadInt64(p *int64) int64               { vsched.Point(); return *p }
func LoadInt32(p *int32) int32               { vsched.Point(); return *p }
func LoadUint64(p *uint64) uint64            { vsched.Point(); return *p }
func StoreInt64(p *int64, v int64)           { vsched.Point(); *p = v }
func StoreInt32(p *int32, v int32)           { vsched.Point(); *p = v }
func StoreUint64(p *uint64, v uint64)        { vsched.Point(); *p = v }
