// Package vsched is the cooperative scheduler of the verification runtime.
//
// Exactly one controlled goroutine ("thread") runs at any time.  Every shim
// operation (lock, atomic, cond, socket, file, sleep, spawn, exit) calls Point()
// before it takes effect; at a point the scheduler may transfer control to any
// other enabled thread.  Which thread runs next is decided by the explorer
// through Prefix (a list of choices to replay) - beyond the prefix choice 0 is
// taken, which means "keep running the current thread if it is enabled, else
// the enabled thread with the lowest id".  Time is virtual: the clock only
// advances when no thread is enabled, and then jumps to the earliest wake time.
package vsched

import (
	"os"
	"fmt"
	"runtime"
	"runtime/debug"
	"strings"
)

type state int

const (
	runnable state = iota
	blocked
	sleeping
	done
)

// Thread is one controlled goroutine.
type Thread struct {
	ID     int
	Name   string // spawn site, e.g. "server.go:511"
	Group  string // server instance this thread belongs to
	wake   chan struct{}
	st     state
	cond   func() bool
	until  int64 // wake time for sleeping / deadline for blocked (-1: none)
	exited chan struct{}
	yield  bool // sleeping as a spin-loop yield
	spins  uint // consecutive spin yields (back-off)
}

// ChoicePoint is one recorded scheduling decision with more than one option.
type ChoicePoint struct {
	N          int  // number of enabled threads
	CurEnabled bool // the running thread was still enabled (so alt>0 is a preemption)
	Chosen     int
	Tid        int // id of the chosen thread
}

// Crash is a panic recovered in a controlled thread.
type Crash struct {
	Thread string
	Value  string
	Stack  string
}

var (
	On      bool
	Abort   bool
	threads []*Thread
	cur     *Thread
	Clock   int64 // virtual ns since base
	Points  int

	// Exploring turns choice recording / replay on (the concurrent phase of a
	// scenario).  Outside it the default choice is always taken, unrecorded.
	Exploring bool
	Prefix    []int
	Trace     []ChoicePoint
	Diverged  string // set when a prefix choice is out of range

	// Frozen tells whether a thread (by spawn-site name) blocks for ever at its
	// first Sleep; Thawed[group] releases the frozen threads of that group.
	Frozen func(name string) bool
	Thawed = map[string]bool{}
	// Paused[group]: the threads of that group are not scheduled (SIGSTOP).
	Paused = map[string]bool{}

	Crashes  []Crash
	Deadlock string

	// OnPoint, if set, is called at every scheduling point (step monitors).
	OnPoint func()

	// Captured holds values handed over by injected code (the *Server).
	Captured []interface{}

	sig uint64 // running signature of (thread, point) sequence
)

// Reset clears all scheduler state; call between executions.
func Reset() {
	threads = nil
	cur = nil
	Clock = 0
	Points = 0
	Thawed = map[string]bool{}
	Paused = map[string]bool{}
	vchans = map[interface{}]*vchan{}
	Abort = false
	On = false
	Exploring = false
	Fine = false
	LastLog = nil
	Prefix = nil
	Trace = nil
	Diverged = ""
	Crashes = nil
	Deadlock = ""
	OnPoint = nil
	Captured = nil
	sig = 1469598103934665603
}

// Capture is called from code injected into Serve.
func Capture(v interface{}) {
	if On {
		Captured = append(Captured, v)
	}
}

// Attach registers the calling goroutine as thread 0 and turns control on.
func Attach(name string) {
	t := &Thread{ID: len(threads), Name: name, Group: "harness", wake: make(chan struct{}, 1), until: -1}
	threads = append(threads, t)
	cur = t
	On = true
}

func Cur() *Thread   { return cur }
func CurID() int     { return cur.ID }
func Sig() uint64    { return sig }
func NumThreads() int { return len(threads) }

func (t *Thread) isEnabled() bool {
	if Paused[t.Group] {
		return false
	}
	switch t.st {
	case runnable:
		return true
	case blocked:
		if t.cond() {
			return true
		}
		return t.until >= 0 && t.until <= Clock
	case sleeping:
		return t.until <= Clock
	}
	return false
}

func enabledSet() (en []*Thread, curEnabled bool) {
	if cur != nil && cur.st == runnable {
		en = append(en, cur)
		curEnabled = true
	}
	for _, t := range threads {
		if t == cur && curEnabled {
			continue
		}
		if t.isEnabled() {
			en = append(en, t)
		}
	}
	return
}

// OthersEnabled reports whether any thread other than the caller could run now.
func OthersEnabled() bool {
	for _, t := range threads {
		if t != cur && t.isEnabled() {
			return true
		}
	}
	return false
}

type deadlockPanic struct{ msg string }

// schedule picks the next thread and transfers control. Called by cur.
func schedule() {
	me := cur
	for {
		en, curEn := enabledSet()
		if len(en) == 0 {
			var min int64 = -1
			for _, t := range threads {
				if Paused[t.Group] {
					continue
				}
				if (t.st == sleeping || (t.st == blocked && t.until >= 0)) && (min < 0 || t.until < min) {
					min = t.until
				}
			}
			if min < 0 {
				Deadlock = Dump()
				// wake thread 0 (the harness) so that it can report; it is
				// blocked, so force it.
				h := threads[0]
				if h.st == done {
					panic("vsched: deadlock after harness exit: " + Deadlock)
				}
				h.st = runnable
				h.cond = nil
				continue
			}
			Clock = min
			continue
		}
		idx := 0
		if Exploring && len(en) > 1 {
			k := len(Trace)
			if k < len(Prefix) {
				idx = Prefix[k]
				if idx < 0 || idx >= len(en) {
					Diverged = fmt.Sprintf("choice %d: prefix wants %d of %d", k, idx, len(en))
					idx = 0
				}
			}
			Trace = append(Trace, ChoicePoint{N: len(en), CurEnabled: curEn, Chosen: idx, Tid: en[idx].ID})
		}
		next := en[idx]
		next.st = runnable
		next.cond = nil
		next.until = -1
		next.yield = false
		sig = (sig ^ uint64(next.ID+1)) * 1099511628211
		if next == me {
			return
		}
		cur = next
		next.wake <- struct{}{}
		if me.st == done {
			return
		}
		<-me.wake
		if Abort {
			runtime.Goexit()
		}
		return
	}
}

// Point is a scheduling point before a visible operation.
func Point() {
	if !On || Abort {
		return
	}
	Points++
	if OnPoint != nil {
		OnPoint()
	}
	schedule()
}

// LastLog holds the tail of what the server under test logged (the harness points
// the server's logger at LogTail).
var LastLog []byte

type logTail struct{}

func (logTail) Write(b []byte) (int, error) {
	LastLog = append(LastLog, b...)
	if len(LastLog) > 4096 {
		LastLog = append([]byte(nil), LastLog[len(LastLog)-2048:]...)
	}
	return len(b), nil
}

// LogTail is an io.Writer keeping the last lines logged.
var LogTail logTail

// ProcessExit stands for os.Exit in the server's log.Fatal: under the scheduler the
// "process" that called it ends as a crashed thread (with the fatal message), it
// does not take the explorer down.
func ProcessExit(code int) {
	if !On || cur == nil || cur.ID == 0 {
		os.Exit(code)
	}
	msg := strings.TrimSpace(string(LastLog))
	if i := strings.LastIndex(msg, "\n"); i >= 0 {
		msg = msg[i+1:]
	}
	panic(fmt.Sprintf("log.Fatal -> os.Exit(%d): %s", code, msg))
}

// Fine turns the function-entry points inserted by vgen into scheduling points.
var Fine bool

// FinePoint is a scheduling point at the entry of a function of the rewritten
// package.  Only server threads take it (the harness main thread calls into the
// package for dumps), and only while a scenario asks for it.
func FinePoint() {
	if !Fine || !On || Abort || !Exploring || cur == nil || cur.ID == 0 {
		return
	}
	Point()
}

// Progress tells the scheduler that the current thread got something done
// (acquired a lock, completed I/O, changed an atomic): its spin back-off is reset.
func Progress() {
	if On && cur != nil {
		cur.spins = 0
	}
}

// Observe runs the step monitor without a scheduling point (called by unlock
// operations before the lock is released, so that a monitor sees the state a
// critical section produced while its lock is still held).
func Observe() {
	if On && !Abort && OnPoint != nil {
		OnPoint()
	}
}

// WaitUntil blocks the current thread until cond() holds.
func WaitUntil(cond func() bool) {
	if !On || Abort {
		return
	}
	for !cond() {
		cur.st = blocked
		cur.cond = cond
		cur.until = -1
		schedule()
		if Deadlock != "" && cur.ID == 0 {
			panic(deadlockPanic{Deadlock})
		}
	}
}

// WaitUntilOr blocks until cond() holds or the virtual clock reaches
// Clock+timeout; it reports whether cond holds.
func WaitUntilOr(cond func() bool, timeout int64) bool {
	if !On || Abort {
		return cond()
	}
	dl := Clock + timeout
	for !cond() {
		if Clock >= dl {
			return false
		}
		cur.st = blocked
		cur.cond = cond
		cur.until = dl
		schedule()
		if Deadlock != "" && cur.ID == 0 {
			panic(deadlockPanic{Deadlock})
		}
	}
	return true
}

// IsDeadlock tells whether a recovered panic value is the harness deadlock signal.
func IsDeadlock(v interface{}) (string, bool) {
	d, ok := v.(deadlockPanic)
	return d.msg, ok
}

// Sleep suspends the current thread for ns of virtual time.  Threads whose
// spawn site is frozen block until their group is thawed instead.
func Sleep(ns int64) {
	if !On || Abort {
		return
	}
	if cur.ID != 0 && Frozen != nil && Frozen(cur.Name) && !Thawed[cur.Group] {
		g := cur.Group
		cur.st = blocked
		cur.cond = func() bool { return Thawed[g] }
		cur.until = -1
		schedule()
		return
	}
	if ns < 0 {
		ns = 0
	}
	cur.spins = 0
	cur.st = sleeping
	cur.until = Clock + ns
	schedule()
}

// SleepUntil suspends the current thread until the virtual clock reads t.
func SleepUntil(t int64) {
	if t > Clock {
		Sleep(t - Clock)
	}
}

// WakeTimeOf returns the wake time of the first sleeping thread with the given
// spawn-site name in group (-1 if none): lets a scenario align itself with a
// polling loop's next tick.
func WakeTimeOf(group, name string) int64 {
	for _, t := range threads {
		if t.Group == group && t.Name == name && t.st == sleeping {
			return t.until
		}
	}
	return -1
}

// Yield is a spin-loop yield (runtime.Gosched): the thread is held back until
// every other thread is blocked or asleep; it is never frozen.
func Yield() {
	if !On || Abort {
		return
	}
	Points++
	// back off: a spinner that keeps failing waits longer (1 ns .. ~1 ms), so a
	// 50 ms spin budget is a few dozen iterations instead of 50 million
	d := int64(1) << min(cur.spins, 20)
	cur.spins++
	cur.st = sleeping
	cur.until = Clock + d
	cur.yield = true
	schedule()
}

// Quiesce lets every other thread run until none is enabled at the current
// virtual instant (time may advance by a few ns because of spin yields).
func Quiesce() {
	if !On || Abort {
		return
	}
	for i := 0; i < 1000000; i++ {
		Yield()
		if !OthersEnabled() {
			return
		}
	}
	panic("vsched: Quiesce does not converge: " + Dump())
}

// Go starts fn as a new controlled thread in the group of its parent.
func Go(name string, fn func()) { GoGroup("", name, fn) }

// GoGroup starts fn as a new controlled thread; group "" inherits.
func GoGroup(group, name string, fn func()) {
	if !On {
		go fn()
		return
	}
	if Abort {
		return
	}
	if group == "" {
		group = cur.Group
	}
	t := &Thread{ID: len(threads), Name: name, Group: group, wake: make(chan struct{}, 1), exited: make(chan struct{}), until: -1}
	threads = append(threads, t)
	go func() {
		defer close(t.exited)
		<-t.wake
		if Abort {
			return
		}
		defer func() {
			if Abort {
				return
			}
			if v := recover(); v != nil {
				Crashes = append(Crashes, Crash{Thread: t.Name, Value: fmt.Sprint(v), Stack: string(debug.Stack())})
			}
			t.st = done
			schedule()
		}()
		fn()
	}()
	Point()
}

// Finish kills all parked threads one at a time (called by thread 0 at the end
// of an execution).  Shim operations are no-ops while Abort is set.
func Finish() {
	Abort = true
	On = false
	Exploring = false
	for _, t := range threads {
		if t != cur && t.exited != nil {
			select {
			case t.wake <- struct{}{}:
			default:
			}
			<-t.exited
		}
	}
}

// Dump lists the threads that are not done.
func Dump() string {
	var sb strings.Builder
	for _, t := range threads {
		if t.st == done {
			continue
		}
		st := [...]string{"run", "blk", "slp", "done"}[t.st]
		fmt.Fprintf(&sb, "[%d %s/%s %s] ", t.ID, t.Group, t.Name, st)
	}
	return sb.String()
}

// Alive reports how many threads of a group are not done.
func Alive(group string) int {
	n := 0
	for _, t := range threads {
		if t.Group == group && t.st != done {
			n++
		}
	}
	return n
}

// AliveNamed reports how many threads of a group with the given spawn-site name
// are not done.
func AliveNamed(group, name string) int {
	n := 0
	for _, t := range threads {
		if t.Group == group && t.Name == name && t.st != done {
			n++
		}
	}
	return n
}

// ---- virtual channels keyed by channel identity ----
type vchan struct {
	q     []interface{}
	taken int
	sent  int
}

var vchans = map[interface{}]*vchan{}

func vc(ch interface{}) *vchan {
	c := vchans[ch]
	if c == nil {
		c = &vchan{}
		vchans[ch] = c
	}
	return c
}

func Send[T any](ch chan T, v T) {
	if !On {
		if Abort {
			return
		}
		ch <- v
		return
	}
	Point()
	c := vc((<-chan T)(ch))
	c.q = append(c.q, v)
	c.sent++
	my := c.sent
	if cap(ch) == 0 {
		WaitUntil(func() bool { return c.taken >= my })
	}
}

func Recv[T any](ch <-chan T) T {
	if !On {
		if Abort {
			var z T
			return z
		}
		return <-ch
	}
	Point()
	c := vc(ch)
	WaitUntil(func() bool { return len(c.q) > 0 })
	var v T
	if len(c.q) > 0 {
		v, _ = c.q[0].(T)
		c.q = c.q[1:]
		c.taken++
	}
	return v
}
