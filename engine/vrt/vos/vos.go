// Package vos replaces "os" in the code under test.  File operations are
// performed on real files in a scratch directory and, in addition, recorded in
// an operation log from which the directory contents after any prefix of
// completed operations ("process killed here") can be materialised.
package vos

import (
	"syscall"
	"errors"
	"io"
	"io/fs"
	"os"
	"path/filepath"
	"sort"

	"github.com/tidwall/tile38/internal/vshim/vsched"
)

type FileInfo = os.FileInfo
type FileMode = os.FileMode
type PathError = os.PathError
type Signal = os.Signal
type Process = os.Process

const (
	O_RDONLY = os.O_RDONLY
	O_WRONLY = os.O_WRONLY
	O_RDWR   = os.O_RDWR
	O_APPEND = os.O_APPEND
	O_CREATE = os.O_CREATE
	O_EXCL   = os.O_EXCL
	O_SYNC   = os.O_SYNC
	O_TRUNC  = os.O_TRUNC
)

var (
	ErrClosed   = os.ErrClosed
	ErrNotExist = os.ErrNotExist
	ErrExist    = os.ErrExist
	Stdout      = os.Stdout
	Stderr      = os.Stderr
	Stdin       = os.Stdin
	Args        = os.Args
	Interrupt   = os.Interrupt
)

func Getenv(k string) string                  { return os.Getenv(k) }
func Getpid() int                             { return os.Getpid() }
func Hostname() (string, error)               { return "verif", nil }
func IsNotExist(err error) bool               { return os.IsNotExist(err) }
func IsExist(err error) bool                  { return os.IsExist(err) }
func Exit(code int)                           { os.Exit(code) }
func MkdirAll(p string, m FileMode) error     { return os.MkdirAll(p, m) }
func Stat(p string) (FileInfo, error)         { point(); return os.Stat(p) }
func Getwd() (string, error)                  { return os.Getwd() }
func TempDir() string                         { return os.TempDir() }
func ReadFile(p string) ([]byte, error)       { point(); return os.ReadFile(p) }
func FindProcess(pid int) (*Process, error)   { return os.FindProcess(pid) }

// ---- operation log ----

type OpKind int

const (
	OpCreate OpKind = iota // name -> new empty inode (or truncate existing when Trunc)
	OpWrite
	OpTruncate
	OpRename
	OpRemove
	OpSync
)

func (k OpKind) String() string {
	return [...]string{"create", "write", "truncate", "rename", "remove", "sync"}[k]
}

type Op struct {
	Kind   OpKind
	Ino    int
	Name   string
	Name2  string
	Off    int64
	Data   []byte
	Size   int64
	Thread int
	Clock  int64
}

var (
	Log     []Op
	nextIno int
	inoOf   = map[string]int{} // path -> inode id (current directory state)
	// Quiet suppresses scheduling points of file operations (sequential phases).
	Quiet bool
)

// Reset clears the log; call between executions.  Files that already exist in
// a directory are picked up lazily (Adopt) when first opened.
func Reset() {
	SizeLimit = map[string]int64{}
	Log = nil
	nextIno = 0
	inoOf = map[string]int{}
	Quiet = false
}

func point() {
	if !Quiet {
		vsched.Point()
	}
	vsched.Progress()
}

func clean(p string) string { return filepath.Clean(p) }

func tid() int {
	if vsched.On {
		return vsched.CurID()
	}
	return -1
}

func logOp(o Op) {
	if !vsched.On {
		return
	}
	o.Thread = tid()
	o.Clock = vsched.Clock
	Log = append(Log, o)
}

// adopt registers a pre-existing file (present before the execution began) by
// logging a create + write of its current contents, so images are complete.
func adopt(p string) int {
	p = clean(p)
	if id, ok := inoOf[p]; ok {
		return id
	}
	nextIno++
	id := nextIno
	inoOf[p] = id
	data, err := os.ReadFile(p)
	if err == nil {
		logOp(Op{Kind: OpCreate, Ino: id, Name: p})
		if len(data) > 0 {
			logOp(Op{Kind: OpWrite, Ino: id, Off: 0, Data: data})
		}
	}
	return id
}

type File struct {
	f    *os.File
	ino  int
	name string
}

var errAborted = errors.New("vos: aborted")

func OpenFile(name string, flag int, perm FileMode) (*File, error) {
	if vsched.Abort {
		return nil, errAborted
	}
	point()
	p := clean(name)
	_, serr := os.Stat(p)
	existed := serr == nil
	f, err := os.OpenFile(name, flag, perm)
	if err != nil {
		return nil, err
	}
	var id int
	if existed {
		id = adopt(p)
		if flag&O_TRUNC != 0 {
			logOp(Op{Kind: OpTruncate, Ino: id, Size: 0})
		}
	} else {
		nextIno++
		id = nextIno
		inoOf[p] = id
		logOp(Op{Kind: OpCreate, Ino: id, Name: p})
	}
	return &File{f: f, ino: id, name: name}, nil
}

func Open(name string) (*File, error) { return OpenFile(name, O_RDONLY, 0) }
func Create(name string) (*File, error) {
	return OpenFile(name, O_RDWR|O_CREATE|O_TRUNC, 0666)
}

func (f *File) Name() string { return f.name }
func (f *File) Fd() uintptr  { return f.f.Fd() }
func (f *File) Ino() int     { return f.ino }

func (f *File) Read(b []byte) (int, error) {
	if vsched.Abort {
		return 0, errAborted
	}
	point()
	return f.f.Read(b)
}
func (f *File) ReadAt(b []byte, off int64) (int, error) {
	if vsched.Abort {
		return 0, errAborted
	}
	point()
	return f.f.ReadAt(b, off)
}
// SizeLimit: files (by cleaned path) that cannot grow beyond a size - a full
// disk / RLIMIT_FSIZE for one file; a write that would cross it is cut short
// and fails with ENOSPC.
var SizeLimit = map[string]int64{}

func (f *File) Write(b []byte) (int, error) {
	if vsched.Abort {
		return len(b), nil
	}
	point()
	off, err := f.f.Seek(0, io.SeekCurrent)
	if err != nil {
		return 0, err
	}
	if lim, ok := SizeLimit[clean(f.name)]; ok && off+int64(len(b)) > lim {
		k := lim - off
		if k < 0 {
			k = 0
		}
		n, _ := f.f.Write(b[:k])
		if n > 0 {
			logOp(Op{Kind: OpWrite, Ino: f.ino, Off: off, Data: append([]byte(nil), b[:n]...)})
		}
		return n, syscall.ENOSPC
	}
	n, err := f.f.Write(b)
	if n > 0 {
		logOp(Op{Kind: OpWrite, Ino: f.ino, Off: off, Data: append([]byte(nil), b[:n]...)})
	}
	return n, err
}
func (f *File) WriteString(s string) (int, error) { return f.Write([]byte(s)) }
func (f *File) WriteAt(b []byte, off int64) (int, error) {
	if vsched.Abort {
		return len(b), nil
	}
	point()
	n, err := f.f.WriteAt(b, off)
	if n > 0 {
		logOp(Op{Kind: OpWrite, Ino: f.ino, Off: off, Data: append([]byte(nil), b[:n]...)})
	}
	return n, err
}
func (f *File) Seek(off int64, whence int) (int64, error) {
	if vsched.Abort {
		return 0, errAborted
	}
	return f.f.Seek(off, whence)
}
func (f *File) Sync() error {
	if vsched.Abort {
		return nil
	}
	point()
	logOp(Op{Kind: OpSync, Ino: f.ino})
	return nil // data durability against power loss is not modelled; skip the real fsync
}
func (f *File) Truncate(size int64) error {
	if vsched.Abort {
		return nil
	}
	point()
	err := f.f.Truncate(size)
	if err == nil {
		logOp(Op{Kind: OpTruncate, Ino: f.ino, Size: size})
	}
	return err
}
func (f *File) Stat() (FileInfo, error) { return f.f.Stat() }
func (f *File) Close() error {
	if !vsched.Abort {
		point()
	}
	return f.f.Close()
}

// RealClose closes the underlying file without a scheduling point (teardown).
func (f *File) RealClose() {
	if f != nil && f.f != nil {
		f.f.Close()
	}
}

func Rename(a, b string) error {
	if vsched.Abort {
		return errAborted
	}
	point()
	ca, cb := clean(a), clean(b)
	if _, err := os.Stat(ca); err == nil {
		adopt(ca)
	}
	err := os.Rename(a, b)
	if err == nil {
		id := inoOf[ca]
		delete(inoOf, ca)
		inoOf[cb] = id
		logOp(Op{Kind: OpRename, Ino: id, Name: ca, Name2: cb})
	}
	return err
}
func Remove(a string) error {
	if vsched.Abort {
		return errAborted
	}
	point()
	ca := clean(a)
	if _, err := os.Stat(ca); err == nil {
		adopt(ca)
	}
	err := os.Remove(a)
	if err == nil {
		logOp(Op{Kind: OpRemove, Ino: inoOf[ca], Name: ca})
		delete(inoOf, ca)
	}
	return err
}
func RemoveAll(a string) error {
	if vsched.Abort {
		return errAborted
	}
	return os.RemoveAll(a)
}
func Truncate(name string, size int64) error {
	if vsched.Abort {
		return errAborted
	}
	point()
	p := clean(name)
	if _, err := os.Stat(p); err == nil {
		adopt(p)
	}
	err := os.Truncate(name, size)
	if err == nil {
		logOp(Op{Kind: OpTruncate, Ino: inoOf[p], Size: size})
	}
	return err
}
func WriteFile(name string, data []byte, perm FileMode) error {
	if vsched.Abort {
		return errAborted
	}
	f, err := OpenFile(name, O_WRONLY|O_CREATE|O_TRUNC, perm)
	if err != nil {
		return err
	}
	_, err = f.Write(data)
	if err1 := f.Close(); err1 != nil && err == nil {
		err = err1
	}
	return err
}

// Image returns the directory contents (path -> bytes) after the first k
// logged operations.
func Image(k int) map[string][]byte {
	if k > len(Log) {
		k = len(Log)
	}
	data := map[int][]byte{}
	names := map[string]int{}
	for _, o := range Log[:k] {
		switch o.Kind {
		case OpCreate:
			names[o.Name] = o.Ino
			if _, ok := data[o.Ino]; !ok {
				data[o.Ino] = []byte{}
			}
		case OpWrite:
			d := data[o.Ino]
			end := o.Off + int64(len(o.Data))
			if int64(len(d)) < end {
				d = append(d, make([]byte, end-int64(len(d)))...)
			}
			copy(d[o.Off:], o.Data)
			data[o.Ino] = d
		case OpTruncate:
			d := data[o.Ino]
			if int64(len(d)) > o.Size {
				d = d[:o.Size]
			} else if int64(len(d)) < o.Size {
				d = append(d, make([]byte, o.Size-int64(len(d)))...)
			}
			data[o.Ino] = d
		case OpRename:
			delete(names, o.Name)
			names[o.Name2] = o.Ino
		case OpRemove:
			delete(names, o.Name)
		}
	}
	out := map[string][]byte{}
	for n, id := range names {
		out[n] = append([]byte(nil), data[id]...)
	}
	return out
}

// Materialise writes Image(k), restricted to files under srcDir, into dstDir.
func Materialise(k int, srcDir, dstDir string) error {
	img := Image(k)
	if err := os.MkdirAll(dstDir, 0700); err != nil {
		return err
	}
	var names []string
	for n := range img {
		names = append(names, n)
	}
	sort.Strings(names)
	src := clean(srcDir)
	for _, n := range names {
		rel, err := filepath.Rel(src, n)
		if err != nil || len(rel) >= 2 && rel[:2] == ".." {
			continue
		}
		dst := filepath.Join(dstDir, rel)
		os.MkdirAll(filepath.Dir(dst), 0700)
		if err := os.WriteFile(dst, img[n], 0600); err != nil {
			return err
		}
	}
	return nil
}

var _ fs.FileInfo = FileInfo(nil)
