// Package vjob: job / result plumbing for harness code that lives in packages
// other than internal/server (same file formats as the server harness).
package vjob

import (
	"encoding/json"
	"fmt"
	"os"
	"runtime/debug"
	"sort"
	"testing"
	"time"
)

type Job struct {
	Check   string          `json:"check"`
	Tier    string          `json:"tier"`
	Shard   int             `json:"shard"`
	NShards int             `json:"nshards"`
	Seed    int64           `json:"seed"`
	Out     string          `json:"out"`
	Scratch string          `json:"scratch"`
	Replay  json.RawMessage `json:"replay,omitempty"`
	Budget  float64         `json:"budget_s"`
	Params  map[string]any  `json:"params,omitempty"`
}

type Violation struct {
	Sig    string `json:"sig"`
	Detail string `json:"detail"`
	Replay any    `json:"replay"`
}

type Result struct {
	Check       string         `json:"check"`
	Shard       int            `json:"shard"`
	States      int            `json:"states"`
	Transitions int            `json:"transitions"`
	Evaluations int            `json:"evaluations"`
	Validated   int            `json:"traces_validated_against_impl"`
	Exhaustive  bool           `json:"exhaustive"`
	Caps        []string       `json:"caps,omitempty"`
	Bounds      map[string]any `json:"bounds,omitempty"`
	Samples     []any          `json:"samples,omitempty"`
	Violations  []Violation    `json:"violations,omitempty"`
	Flaky       int            `json:"flaky_discarded"`
	Assumptions []string       `json:"assumptions,omitempty"`
	Rule        string         `json:"rule,omitempty"`
	Extra       map[string]any `json:"extra,omitempty"`
	EngineError string         `json:"engine_error,omitempty"`
	WallS       float64        `json:"wall_s"`

	distinct map[uint64]struct{}
	vseen    map[string]bool
	start    time.Time
	job      *Job
}

func Fnv(s string) uint64 {
	h := uint64(1469598103934665603)
	for i := 0; i < len(s); i++ {
		h ^= uint64(s[i])
		h *= 1099511628211
	}
	return h
}

func (r *Result) Distinct(h uint64)  { r.distinct[h] = struct{}{} }
func (r *Result) DistinctS(s string) { r.distinct[Fnv(s)] = struct{}{} }
func (r *Result) Sample(v any) {
	if len(r.Samples) < 6 {
		r.Samples = append(r.Samples, v)
	}
}
func (r *Result) Violate(sig, detail string, replay any) {
	if r.vseen[sig] {
		return
	}
	r.vseen[sig] = true
	if len(r.Violations) < 200 {
		r.Violations = append(r.Violations, Violation{sig, detail, replay})
	}
}
func (r *Result) OverBudget() bool {
	return r.job.Budget > 0 && time.Since(r.start).Seconds() > r.job.Budget
}
func (r *Result) Cap(s string) {
	r.Exhaustive = false
	for _, c := range r.Caps {
		if c == s {
			return
		}
	}
	r.Caps = append(r.Caps, s)
}

// Run executes the check named in $VERIF_JOB and writes the result files.
func Run(t *testing.T, checks map[string]func(job *Job, res *Result)) {
	jf := os.Getenv("VERIF_JOB")
	if jf == "" {
		t.Skip("no VERIF_JOB")
	}
	data, err := os.ReadFile(jf)
	if err != nil {
		t.Fatal(err)
	}
	var job Job
	if err := json.Unmarshal(data, &job); err != nil {
		t.Fatal(err)
	}
	if job.NShards == 0 {
		job.NShards = 1
	}
	res := &Result{Check: job.Check, Shard: job.Shard, Exhaustive: true, distinct: map[uint64]struct{}{}, vseen: map[string]bool{},
		start: time.Now(), job: &job, Bounds: map[string]any{}, Extra: map[string]any{}}
	fn := checks[job.Check]
	if fn == nil {
		res.EngineError = "unknown check " + job.Check
	} else {
		func() {
			defer func() {
				if v := recover(); v != nil {
					res.EngineError = fmt.Sprintf("harness panic: %v\n%s", v, debug.Stack())
				}
			}()
			fn(&job, res)
		}()
	}
	res.WallS = time.Since(res.start).Seconds()
	out, _ := json.Marshal(res)
	if err := os.WriteFile(job.Out, out, 0644); err != nil {
		t.Fatal(err)
	}
	hs := make([]uint64, 0, len(res.distinct))
	for h := range res.distinct {
		hs = append(hs, h)
	}
	sort.Slice(hs, func(i, j int) bool { return hs[i] < hs[j] })
	b := make([]byte, 0, 8*len(hs))
	for _, h := range hs {
		for k := 0; k < 8; k++ {
			b = append(b, byte(h>>(8*k)))
		}
	}
	os.WriteFile(job.Out+".distinct", b, 0644)
	os.RemoveAll(job.Scratch)
}
