// Package vtime replaces "time": Now/Since/Until/Sleep run on the virtual clock.
package vtime

import (
	"time"

	"github.com/tidwall/tile38/internal/vshim/vsched"
)

type Time = time.Time
type Duration = time.Duration
type Month = time.Month
type Location = time.Location
type Timer = time.Timer
type Ticker = time.Ticker

const (
	Nanosecond  = time.Nanosecond
	Microsecond = time.Microsecond
	Millisecond = time.Millisecond
	Second      = time.Second
	Minute      = time.Minute
	Hour        = time.Hour
	RFC3339Nano = time.RFC3339Nano
	RFC3339     = time.RFC3339
)

// Base is virtual time zero.
var Base = time.Date(2030, 1, 1, 0, 0, 0, 0, time.UTC)
var UTC = time.UTC

func Now() Time {
	if !vsched.On {
		if vsched.Abort {
			return Base.Add(time.Duration(vsched.Clock))
		}
		return time.Now()
	}
	return Base.Add(time.Duration(vsched.Clock))
}
func Since(t Time) Duration { return Now().Sub(t) }
func Until(t Time) Duration { return t.Sub(Now()) }
func Sleep(d Duration) {
	if !vsched.On {
		if vsched.Abort {
			return
		}
		time.Sleep(d)
		return
	}
	vsched.Sleep(int64(d))
}
func Unix(s, n int64) Time { return time.Unix(s, n) }
func Date(y int, m Month, d, h, mi, s, n int, l *Location) Time {
	return time.Date(y, m, d, h, mi, s, n, l)
}
func ParseDuration(s string) (Duration, error)  { return time.ParseDuration(s) }
func Parse(layout, v string) (Time, error)      { return time.Parse(layout, v) }
