// vgen: rewrites tile38's server package (from the current working tree) so that
// its sources of nondeterminism go through the verification runtime, and emits a
// `go build -overlay` file.  /repo is never written.
//
// usage: vgen -repo /repo -verif /verif -out /verif/.build/gen
package main

import (
	"encoding/json"
	"flag"
	"fmt"
	"go/ast"
	"go/format"
	"go/parser"
	"go/token"
	"os"
	"path/filepath"
	"strconv"
	"strings"
)

const shimBase = "github.com/tidwall/tile38/internal/vshim/"

var importMap = map[string][2]string{ // path -> (newpath, name)
	"sync":               {shimBase + "vsync", "sync"},
	"sync/atomic":        {shimBase + "vatomic", "atomic"},
	"go.uber.org/atomic": {shimBase + "vatomic", "atomic"},
	"time":               {shimBase + "vtime", "time"},
	"net":                {shimBase + "vnet", "net"},
	"runtime":            {shimBase + "vruntime", "runtime"},
	"os":                 {shimBase + "vos", "os"},
}

func die(code int, f string, a ...interface{}) {
	fmt.Fprintf(os.Stderr, "vgen: "+f+"\n", a...)
	os.Exit(code)
}

func main() {
	repo := flag.String("repo", "/repo", "")
	verif := flag.String("verif", "/verif", "")
	out := flag.String("out", "/verif/.build/gen", "")
	mode := flag.String("mode", "controlled", "controlled: rewrite + runtime + harness; race: only harness_race files, nothing rewritten")
	flag.Parse()
	os.RemoveAll(*out)
	os.MkdirAll(*out, 0755)
	repl := map[string]string{}

	captured := false
	rewriteDir := func(rel string, only map[string]bool, noOS bool) {
		srcDir := filepath.Join(*repo, rel)
		files, _ := filepath.Glob(filepath.Join(srcDir, "*.go"))
		if len(files) == 0 {
			die(2, "no go files in %s", srcDir)
		}
		odir := filepath.Join(*out, strings.ReplaceAll(rel, "/", "_"))
		os.MkdirAll(odir, 0755)
		for _, f := range files {
			base := filepath.Base(f)
			if strings.HasSuffix(f, "_test.go") {
				continue
			}
			if only != nil && !only[base] {
				continue
			}
			fset := token.NewFileSet()
			af, err := parser.ParseFile(fset, f, nil, parser.ParseComments)
			if err != nil {
				die(2, "parse %s: %v", f, err)
			}
			changed := false
			for _, imp := range af.Imports {
				p, _ := strconv.Unquote(imp.Path.Value)
				if noOS && p == "os" {
					continue
				}
				if m, ok := importMap[p]; ok {
					imp.Path.Value = strconv.Quote(m[0])
					if imp.Name == nil {
						imp.Name = ast.NewIdent(m[1])
					}
					changed = true
				}
			}
			needSched := false
			goNames := map[*ast.GoStmt]string{}
			chanOK := base != "metrics.go"
			fixExpr := func(e ast.Expr) ast.Expr {
				if u, ok := e.(*ast.UnaryExpr); ok && u.Op == token.ARROW && chanOK {
					needSched = true
					return &ast.CallExpr{Fun: sel("vsched", "Recv"), Args: []ast.Expr{u.X}}
				}
				return e
			}
			fixList := func(list []ast.Stmt) {
				for i, st := range list {
					switch s := st.(type) {
					case *ast.GoStmt:
						needSched = true
						name := goNames[s]
						if name == "" {
							pos := fset.Position(s.Pos())
							name = fmt.Sprintf("%s:%d", base, pos.Line)
						}
						var pre []ast.Stmt
						call := s.Call
						var args []ast.Expr
						for j, a := range call.Args {
							id := ast.NewIdent(fmt.Sprintf("_vga%d", j))
							pre = append(pre, &ast.AssignStmt{Lhs: []ast.Expr{id}, Tok: token.DEFINE, Rhs: []ast.Expr{a}})
							args = append(args, id)
						}
						fun := call.Fun
						if _, isLit := fun.(*ast.FuncLit); !isLit {
							id := ast.NewIdent("_vgf")
							pre = append(pre, &ast.AssignStmt{Lhs: []ast.Expr{id}, Tok: token.DEFINE, Rhs: []ast.Expr{fun}})
							fun = id
						}
						inner := &ast.CallExpr{Fun: &ast.ParenExpr{X: fun}, Args: args, Ellipsis: call.Ellipsis}
						lit := &ast.FuncLit{Type: &ast.FuncType{Params: &ast.FieldList{}}, Body: &ast.BlockStmt{List: []ast.Stmt{&ast.ExprStmt{X: inner}}}}
						goCall := &ast.ExprStmt{X: &ast.CallExpr{Fun: sel("vsched", "Go"), Args: []ast.Expr{&ast.BasicLit{Kind: token.STRING, Value: strconv.Quote(name)}, lit}}}
						list[i] = &ast.BlockStmt{List: append(pre, goCall)}
					case *ast.SendStmt:
						if chanOK {
							needSched = true
							list[i] = &ast.ExprStmt{X: &ast.CallExpr{Fun: sel("vsched", "Send"), Args: []ast.Expr{s.Chan, s.Value}}}
						}
					case *ast.ExprStmt:
						s.X = fixExpr(s.X)
					case *ast.ReturnStmt:
						for j := range s.Results {
							s.Results[j] = fixExpr(s.Results[j])
						}
					case *ast.AssignStmt:
						for j := range s.Rhs {
							s.Rhs[j] = fixExpr(s.Rhs[j])
						}
					}
				}
			}
			// thread names: `go x.f(..)` -> "f"; `go func(){..}()` -> "<EnclosingFunc>#<k>"
			for _, d := range af.Decls {
				fd, ok := d.(*ast.FuncDecl)
				if !ok || fd.Body == nil {
					continue
				}
				k := 0
				ast.Inspect(fd.Body, func(n ast.Node) bool {
					g, ok := n.(*ast.GoStmt)
					if !ok {
						return true
					}
					switch f := g.Call.Fun.(type) {
					case *ast.FuncLit:
						k++
						goNames[g] = fmt.Sprintf("%s#%d", fd.Name.Name, k)
					case *ast.SelectorExpr:
						goNames[g] = f.Sel.Name
					case *ast.Ident:
						goNames[g] = f.Name
					}
					return true
				})
			}
			ast.Inspect(af, func(n ast.Node) bool {
				switch b := n.(type) {
				case *ast.BlockStmt:
					fixList(b.List)
				case *ast.CaseClause:
					fixList(b.Body)
				case *ast.CommClause:
					fixList(b.Body)
				}
				return true
			})
			// fine-grained scheduling points: entry of every declared function and of
			// every function literal of the server package (active only while a
			// scenario sets vsched.Fine; exposes state shared without any
			// synchronisation operation between the conflicting accesses)
			if rel == "internal/server" {
				fine := func() ast.Stmt {
					return &ast.ExprStmt{X: &ast.CallExpr{Fun: sel("vsched", "FinePoint")}}
				}
				// ... and the instant after every deferred call has returned: a
				// `defer vsched.FinePoint()` in front of each defer statement runs right
				// after that statement's call on the way out (arguments of the original
				// defers are evaluated where they always were)
				withDeferPoints := func(list []ast.Stmt) []ast.Stmt {
					var out []ast.Stmt
					for _, st := range list {
						if _, ok := st.(*ast.DeferStmt); ok {
							out = append(out, &ast.DeferStmt{Call: &ast.CallExpr{Fun: sel("vsched", "FinePoint")}})
						}
						out = append(out, st)
					}
					return out
				}
				for _, d := range af.Decls {
					fd, ok := d.(*ast.FuncDecl)
					if !ok || fd.Body == nil || fd.Name.Name == "init" {
						continue
					}
					ast.Inspect(fd.Body, func(n ast.Node) bool {
						switch b := n.(type) {
						case *ast.BlockStmt:
							b.List = withDeferPoints(b.List)
						case *ast.CaseClause:
							b.Body = withDeferPoints(b.Body)
						case *ast.CommClause:
							b.Body = withDeferPoints(b.Body)
						}
						return true
					})
					ast.Inspect(fd.Body, func(n ast.Node) bool {
						if fl, ok := n.(*ast.FuncLit); ok && fl.Body != nil {
							fl.Body.List = append([]ast.Stmt{fine()}, fl.Body.List...)
						}
						return true
					})
					fd.Body.List = append([]ast.Stmt{fine()}, fd.Body.List...)
					needSched = true
				}
			}
			// hand the *Server to the harness: after `s := &Server{...}` in Serve
			if rel == "internal/server" {
				for _, d := range af.Decls {
					fd, ok := d.(*ast.FuncDecl)
					if !ok || fd.Name.Name != "Serve" || fd.Recv != nil || fd.Body == nil {
						continue
					}
					for i, st := range fd.Body.List {
						as, ok := st.(*ast.AssignStmt)
						if !ok || len(as.Lhs) != 1 || len(as.Rhs) != 1 {
							continue
						}
						id, ok := as.Lhs[0].(*ast.Ident)
						if !ok || id.Name != "s" {
							continue
						}
						u, ok := as.Rhs[0].(*ast.UnaryExpr)
						if !ok || u.Op != token.AND {
							continue
						}
						cl, ok := u.X.(*ast.CompositeLit)
						if !ok {
							continue
						}
						if t, ok := cl.Type.(*ast.Ident); !ok || t.Name != "Server" {
							continue
						}
						capt := &ast.ExprStmt{X: &ast.CallExpr{Fun: sel("vsched", "Capture"), Args: []ast.Expr{ast.NewIdent("s")}}}
						nl := append([]ast.Stmt{}, fd.Body.List[:i+1]...)
						nl = append(nl, capt)
						nl = append(nl, fd.Body.List[i+1:]...)
						fd.Body.List = nl
						captured = true
						needSched = true
						break
					}
				}
			}
			if needSched {
				changed = true
				addImport(af, shimBase+"vsched", "vsched")
			}
			if !changed {
				continue
			}
			o := filepath.Join(odir, base)
			w, _ := os.Create(o)
			if err := format.Node(w, fset, af); err != nil {
				die(2, "format %s: %v", f, err)
			}
			w.Close()
			repl[f] = o
		}
	}
	if *mode == "race" {
		hroot := filepath.Join(*verif, "harness_race")
		ents, _ := os.ReadDir(hroot)
		for _, e := range ents {
			if !e.IsDir() {
				continue
			}
			pkgRel := strings.ReplaceAll(e.Name(), "__", "/")
			files, _ := filepath.Glob(filepath.Join(hroot, e.Name(), "*.go"))
			for _, f := range files {
				b := strings.TrimSuffix(filepath.Base(f), ".go")
				repl[filepath.Join(*repo, pkgRel, "zz_verifrace_"+b+"_test.go")] = f
			}
		}
		data, _ := json.MarshalIndent(map[string]interface{}{"Replace": repl}, "", " ")
		if err := os.WriteFile(filepath.Join(*out, "overlay.json"), data, 0644); err != nil {
			die(2, "%v", err)
		}
		fmt.Printf("vgen: %d overlay entries (race mode)\n", len(repl))
		return
	}
	// internal/log: log.Fatal must not take the explorer down with os.Exit
	{
		f := filepath.Join(*repo, "internal/log/log.go")
		fset := token.NewFileSet()
		af, err := parser.ParseFile(fset, f, nil, parser.ParseComments)
		if err != nil {
			die(2, "parse %s: %v", f, err)
		}
		n := 0
		ast.Inspect(af, func(nd ast.Node) bool {
			if c, ok := nd.(*ast.CallExpr); ok {
				if se, ok := c.Fun.(*ast.SelectorExpr); ok {
					if id, ok := se.X.(*ast.Ident); ok && id.Name == "os" && se.Sel.Name == "Exit" {
						c.Fun = sel("vsched", "ProcessExit")
						n++
					}
				}
			}
			return true
		})
		if n > 0 {
			addImport(af, shimBase+"vsched", "vsched")
			odir := filepath.Join(*out, "internal_log")
			os.MkdirAll(odir, 0755)
			o := filepath.Join(odir, "log.go")
			w, _ := os.Create(o)
			if err := format.Node(w, fset, af); err != nil {
				die(2, "format %s: %v", f, err)
			}
			w.Close()
			repl[f] = o
		}
	}
	rewriteDir("internal/server", nil, false)
	rewriteDir("internal/endpoint", map[string]bool{"endpoint.go": true}, true)
	if !captured {
		die(2, "engine error: `s := &Server{...}` not found in Serve(); cannot capture the server instance")
	}

	// runtime packages as virtual packages under internal/vshim
	vrt := filepath.Join(*verif, "engine", "vrt")
	filepath.Walk(vrt, func(p string, info os.FileInfo, err error) error {
		if err == nil && !info.IsDir() && strings.HasSuffix(p, ".go") {
			rel, _ := filepath.Rel(vrt, p)
			repl[filepath.Join(*repo, "internal", "vshim", rel)] = p
		}
		return nil
	})
	// harness files: /verif/harness/<pkgdir with _ for />/*.go -> zz_verif_*_test.go in that package
	hroot := filepath.Join(*verif, "harness")
	ents, _ := os.ReadDir(hroot)
	for _, e := range ents {
		if !e.IsDir() {
			continue
		}
		pkgRel := strings.ReplaceAll(e.Name(), "__", "/")
		files, _ := filepath.Glob(filepath.Join(hroot, e.Name(), "*.go"))
		for _, f := range files {
			b := strings.TrimSuffix(filepath.Base(f), ".go")
			b = strings.TrimSuffix(b, "_test")
			if strings.HasSuffix(b, "_nt") {
				// non-test file added to the package (e.g. the in-package audit)
				repl[filepath.Join(*repo, pkgRel, "zz_verif_"+b+".go")] = f
				continue
			}
			repl[filepath.Join(*repo, pkgRel, "zz_verif_"+b+"_test.go")] = f
		}
	}
	data, _ := json.MarshalIndent(map[string]interface{}{"Replace": repl}, "", " ")
	if err := os.WriteFile(filepath.Join(*out, "overlay.json"), data, 0644); err != nil {
		die(2, "%v", err)
	}
	fmt.Printf("vgen: %d overlay entries\n", len(repl))
}

func sel(x, s string) ast.Expr { return &ast.SelectorExpr{X: ast.NewIdent(x), Sel: ast.NewIdent(s)} }

func addImport(f *ast.File, path, name string) {
	for _, imp := range f.Imports {
		if p, _ := strconv.Unquote(imp.Path.Value); p == path {
			return
		}
	}
	spec := &ast.ImportSpec{Name: ast.NewIdent(name), Path: &ast.BasicLit{Kind: token.STRING, Value: strconv.Quote(path)}}
	for _, d := range f.Decls {
		if g, ok := d.(*ast.GenDecl); ok && g.Tok == token.IMPORT {
			g.Specs = append(g.Specs, spec)
			f.Imports = append(f.Imports, spec)
			if !g.Lparen.IsValid() {
				g.Lparen = g.Pos()
			}
			return
		}
	}
	// no import declaration yet
	g := &ast.GenDecl{Tok: token.IMPORT, Specs: []ast.Spec{spec}}
	f.Decls = append([]ast.Decl{g}, f.Decls...)
	f.Imports = append(f.Imports, spec)
}
