# Per-check configuration for ./check: which harness parts make up a property's
# check, how many shard processes, budgets per tier.
S = "internal/server"

CHECKS = {
    "smoke": {"level": "exploration", "parts": [{"pkg": S, "check": "smoke", "shards": 1}],
              "quick": {"budget_s": 30}},
}
