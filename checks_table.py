# Per-check configuration for ./check: which harness parts make up a property's
# check, how many shard processes, budgets per tier.
S = "internal/server"

CHECKS = {
    "C07": {"level": "model_checking",
            "parts": [{"pkg": S, "check": "c07", "shards": 16, "gomaxprocs": 1},
                      {"pkg": S, "check": "c07lock", "shards": 4, "gomaxprocs": 2, "params": {"repo": "/repo"}}],
            "quick": {"budget_s": 120, "params": {"bound": 2}}, "thorough": {"budget_s": 1500, "params": {"bound": 3}}},
    "C04": {"level": "fault_enumeration",
            "parts": [{"pkg": S, "check": "c04", "shards": 16, "gomaxprocs": 2}],
            "quick": {"budget_s": 100}, "thorough": {"budget_s": 1200}},
    "C03": {"level": "model_checking",
            "parts": [{"pkg": S, "check": "c03", "shards": 16, "gomaxprocs": 2}],
            "quick": {"budget_s": 100, "params": {"depth": 3}},
            "thorough": {"budget_s": 900, "params": {"depth": 4}}},
    "C19": {"level": "model_checking",
            "parts": [{"pkg": S, "check": "c19", "shards": 16, "gomaxprocs": 2}],
            "quick": {"budget_s": 100, "params": {"depth": 3}},
            "thorough": {"budget_s": 900, "params": {"depth": 4}}},
    "C01": {"level": "model_checking",
            "parts": [{"pkg": S, "check": "c01", "shards": 16, "gomaxprocs": 2}],
            "quick": {"budget_s": 100, "params": {"depth": 3, "alphabet": "thorough"}},
            "thorough": {"budget_s": 900, "params": {"depth": 4}}},
    "C08": {"level": "model_checking",
            "parts": [{"pkg": S, "check": "c08", "shards": 16, "gomaxprocs": 1}],
            "quick": {"budget_s": 80}, "thorough": {"budget_s": 500}},
    "probe": {"level": "exploration", "parts": [{"pkg": S, "check": "probe", "shards": 1}], "quick": {"budget_s": 30}},
    "smoke": {"level": "exploration", "parts": [{"pkg": S, "check": "smoke", "shards": 1}],
              "quick": {"budget_s": 30}},
}
