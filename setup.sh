#!/bin/bash
# Builds the framework from files on disk only (offline) and warms the Go build cache.
set -e
cd "$(dirname "$0")"
export GOFLAGS=-mod=mod GOPROXY=off
mkdir -p .build evidence
GOTOOLCHAIN=local go build -o .build/vgen ./engine/vgen
.build/vgen -repo ${VERIF_REPO:-/repo} -verif "$PWD" -out "$PWD/.build/gen" >/dev/null
( cd ${VERIF_REPO:-/repo} && go test -c -tags verif -overlay "$OLDPWD/.build/gen/overlay.json" -vet=off -o /dev/null ./internal/server )
# race-pass binary (unmodified package + harness_race) to warm the -race build cache
.build/vgen -repo ${VERIF_REPO:-/repo} -verif "$PWD" -out "$PWD/.build/gen-race" -mode race >/dev/null
( cd ${VERIF_REPO:-/repo} && go test -c -race -tags verifrace -overlay "$OLDPWD/.build/gen-race/overlay.json" -vet=off -o /dev/null ./internal/server )
# the other harness packages
( cd ${VERIF_REPO:-/repo} && go test -c -tags verif -overlay "$OLDPWD/.build/gen/overlay.json" -vet=off -o /dev/null ./internal/collection && go test -c -tags verif -overlay "$OLDPWD/.build/gen/overlay.json" -vet=off -o /dev/null ./internal/glob )
echo setup ok
