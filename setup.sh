#!/bin/bash
# Builds the framework from files on disk only (offline) and warms the Go build cache.
set -e
cd "$(dirname "$0")"
export GOFLAGS=-mod=mod GOPROXY=off
mkdir -p .build evidence
GOTOOLCHAIN=local go build -o .build/vgen ./engine/vgen
.build/vgen -repo ${VERIF_REPO:-/repo} -verif "$PWD" -out "$PWD/.build/gen" >/dev/null
( cd ${VERIF_REPO:-/repo} && go test -c -tags verif -overlay "$OLDPWD/.build/gen/overlay.json" -vet=off -o /dev/null ./internal/server )
echo setup ok
