# Text fields of MANIFEST.json per claimed property.
NOT_BUILT_REASON = {}
META = {
 "C08": {
  "technique": "stateless model checking of the real netServe/writeAOF/flushAOF code: DFS over all schedules with <=2 (thorough 3) preemptions under a cooperative scheduler; oracle evaluated inside the server-side socket write",
  "text": "Every schedule (preemption bound 2, thorough 3) of 2-3 connections with plain, pipelined, read and script writes, with and without the background flusher, is executed on the real server; at each acknowledgement the log file as left by the completed file operations must contain the command. Exhaustive within the bound, so absence of the ack-before-log race is shown for these configurations, not sampled.",
  "note": "Trusted: the ~600-line controlled runtime implements sync/atomic/cond/socket/file semantics; SC at shim-operation granularity; frozen polling loops do not touch the AOF; kill = prefix of completed file operations."},
}
