# Text fields of MANIFEST.json per claimed property.
NOT_BUILT_REASON = {}
META = {
 "C19": {
  "technique": "explicit-state BFS over update histories (kind/size/deadline-changing overwrites, renames, drops; depth 3, thorough 4) on the real server; in every reached state counters, BOUNDS, COUNT shortcuts and every access path are compared with a recomputation from the objects SCAN+GET return, plus an in-package audit of the four indexes and counters",
  "text": "Every history of the alphabet up to the depth bound is executed; expectations are recomputed from the server's own retrievable objects, so the check decides exactly the stated agreement (STATS/SERVER/BOUNDS/COUNT/access paths vs retrievable data) for all those histories, including a pair of points closer than float32 resolution and empty geometries.",
  "note": "Trusted: geojson.Parse/NumPoints/Rect of the geometry library as the recomputation oracle; in_memory_size is checked in-package against the sum of object weights and outside only for SERVER = sum of STATS; num_points of a BOUNDS rectangle may be 2 or 5."},
 "C01": {
  "technique": "explicit-state BFS over command sequences (full alphabet, depth 3; thorough depth 4), deduplicated on a map-based reference model; every (state, symbol) edge executed on a fresh real server through the RESP socket path and compared (reply, 75 read probes, full visible dump, in-package index/counter audit, internal-dump differential between paths to the same model state)",
  "text": "All sequences of the 60-symbol keyspace alphabet up to the depth bound are covered exhaustively: every reachable model state and every transition out of it is replayed against the implementation, so composition effects the suite never tries (FSET after EXPIRE on a renamed key, XX on a missing collection, JSET on a geometry with a deadline ...) are decided, not sampled. traces_validated_against_impl equals the number of transitions.",
  "note": "Trusted: the ~500-line reference model (maps + ordered JSON editor) whose reply shapes follow the command documentation; values outside the alphabet and sequences beyond the depth bound are not covered; the 'long random programs' half of the quantifier is sampling and is not done."},
 "C08": {
  "technique": "stateless model checking of the real netServe/writeAOF/flushAOF code: DFS over all schedules with <=2 (thorough 3) preemptions under a cooperative scheduler; oracle evaluated inside the server-side socket write",
  "text": "Every schedule (preemption bound 2, thorough 3) of 2-3 connections with plain, pipelined, read and script writes, with and without the background flusher, is executed on the real server; at each acknowledgement the log file as left by the completed file operations must contain the command. Exhaustive within the bound, so absence of the ack-before-log race is shown for these configurations, not sampled.",
  "note": "Trusted: the ~600-line controlled runtime implements sync/atomic/cond/socket/file semantics; SC at shim-operation granularity; frozen polling loops do not touch the AOF; kill = prefix of completed file operations."},
}
